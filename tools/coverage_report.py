#!/usr/bin/env python3
"""Development aid: which functions of /repo/ciderpress do the checks execute?
usage: VERIF_COVERAGE=/tmp/verif_cov tools/run_all.sh quick ; python3 tools/coverage_report.py /tmp/verif_cov [module-substring]
Lists, per source file, the functions (ast FunctionDef) that no task executed.  Not used by any registered command."""
import ast, glob, json, os, sys
d = sys.argv[1]
flt = sys.argv[2] if len(sys.argv) > 2 else ""
root = os.environ.get("VERIF_REPO", "/repo")
seen = {}
for f in glob.glob(os.path.join(d, "*.json")):
    j = json.load(open(f))
    for fn, q, ln in j["functions"]:
        seen.setdefault(fn, {}).setdefault(ln, set()).add(j["task"].split("/")[0])
tot = cov = 0
for path in sorted(glob.glob(os.path.join(root, "ciderpress/**/*.py"), recursive=True)):
    rel = os.path.relpath(path, root)
    if "/tests/" in rel or flt not in rel:
        continue
    try:
        tree = ast.parse(open(path).read())
    except SyntaxError:
        continue
    missing = []

    def walk(node, prefix=""):
        global tot, cov
        for ch in ast.iter_child_nodes(node):
            if isinstance(ch, (ast.FunctionDef, ast.AsyncFunctionDef)):
                tot += 1
                if ch.lineno in seen.get(rel, {}) or any(ln in seen.get(rel, {}) for ln in range(ch.lineno - len(ch.decorator_list) - 1, ch.lineno + 1)):
                    cov += 1
                else:
                    missing.append(prefix + ch.name)
                walk(ch, prefix + ch.name + ".")
            elif isinstance(ch, ast.ClassDef):
                walk(ch, prefix + ch.name + ".")
    walk(tree)
    n = sum(1 for _ in ast.walk(tree) if isinstance(_, ast.FunctionDef))
    if n:
        print("%-55s %3d/%3d executed%s" % (rel, n - len(missing), n, ("; never: " + ", ".join(missing)) if missing and len(missing) < 60 else ("; never: %d functions" % len(missing) if missing else "")))
print("total: %d of %d functions executed by at least one task" % (cov, tot))
