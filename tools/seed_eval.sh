#!/bin/bash
# usage: tools/seed_eval.sh <PROP> <worktree> [name] [check-args...]
# Confirms a seeded change (demo passes without / fails with, pinned tests pass with), stores it under
# /verif/seeded/<name>/, runs the property's quick check against /repo with the patch applied, then undoes it.
set -u
P=$1; WT=$2; NAME=${3:-$P}; shift 3 || shift $#
OUT=/verif/seeded/$NAME; mkdir -p $OUT
git -C $WT diff > $OUT/patch.diff
cp $WT/demo_*.py $OUT/ 2>/dev/null
DEMO=$(ls $WT/demo_*.py | head -1)
echo "== demo WITH change"; (cd $WT && PYTHONPATH=$WT timeout 900 /venv/bin/python $DEMO > $OUT/demo_with.log 2>&1; echo "exit=$?" | tee -a $OUT/demo_with.log; tail -3 $OUT/demo_with.log)
git -C $WT apply -R $OUT/patch.diff   # (not `git stash`: the stash is shared by all worktrees of /repo)
echo "== demo WITHOUT change"; (cd $WT && PYTHONPATH=$WT timeout 900 /venv/bin/python $DEMO > $OUT/demo_without.log 2>&1; echo "exit=$?" | tee -a $OUT/demo_without.log; tail -2 $OUT/demo_without.log)
git -C $WT apply $OUT/patch.diff
echo "== pinned tests WITH change"; (cd $WT && /venv/bin/python -m pytest -q -p no:cacheprovider ciderpress/dft/tests/test_feat_normalizer.py ciderpress/dft/tests/test_transform_data.py ciderpress/models/tests/test_kernels.py 2>&1 | tail -1 | tee $OUT/tests_with.log)
echo "== check $P on /repo WITH the patch"
git -C /repo apply $OUT/patch.diff || { echo "patch does not apply to /repo"; exit 2; }
(cd /verif && ./check $P "$@" > $OUT/check_with.log 2>&1; echo "check exit=$?" | tee -a $OUT/check_with.log; grep -c "^VIOLATION" $OUT/check_with.log; grep "^VIOLATION" -A1 $OUT/check_with.log | grep obligation | sed 's/model=.*//' | head -5; tail -2 $OUT/check_with.log | head -1)
git -C /repo checkout -- . ; git -C /repo status --short | head -3
