#!/usr/bin/env python3
"""writes /verif/seeded/<name>/meta.json from the logs left by tools/seed_eval.sh"""
import json, os, re
META = {
 "C12_umap_assign": ("C12", "UMap.fill_deriv_ assigns (dfdx[i] = ...) instead of accumulating; value unchanged.", "a UMap that is not the first map reading its raw feature in a FeatureList (or a non-zero dfdx buffer)", "C12", None),
 "C13_sdmxfull_shared_table": ("C13", "SDMXFullSettings._get_ueg_const caches the constant table on the class; ueg_vector averages entries of that table in place.", ">= 2 ueg_vector calls in one process (or ueg_vector followed by get_reasonable_normalizer) on SDMXFullSettings with a ratio != 1.0", "C13", "missed at first (single call per object); caught after adding the repeat/fresh-object obligations (C13 repeat/*)"),
 "C04_kernel_evaluator_overwrite": ("C04", "KernelEvaluator writes its derivative with einsum(out=dres[...]) (overwrite) while the value is still accumulated.", ">= 2 evaluators sharing buffers with the Python KernelEvaluator not first, or a pre-filled dres", "C04", "missed at first (only GlobalLinearEvaluator was concrete); caught after adding kernel_evaluator/* and two_concrete_evaluators/*"),
 "C03_fraclapl_ndd_usp_index": ("C03", "refactor of FracLaplSettings.get_reasonable_normalizer indexes the usp of the ndd features with the ld_dots offset.", "ld_dots non-empty AND ndd > 0", "C03", "missed at first (no ld_dots/ndd configuration); caught after adding recommended/fl_d, fl_d2"),
 "C08_kernel2_mask_after_baseline": ("C08", "MappedDFTKernel2 applies the rhocut mask after apply_libxc_baseline_, so vrho/vsigma/vtau keep an ML contribution where the ML energy is zero.", "MappedXC2, rhocut > 0 and a density between the libxc threshold and rhocut", "C08 (assembled/*/v2 vxc_zero_below_cut)", None),
 "C14_load_model_lru_cache": ("C14", "load_cider_model memoises parsed files by (path, format) without invalidation.", "load a model, write a different model to the same path, load again (one process)", "C14", "missed at first (one save/load per path); caught after adding the overwrite-same-path and independent-objects file obligations"),
 "C01_vxc_tuple_cross_spin": ("C01", "vxc_tuple_to_array adds the sigma_ab term with the same-spin gradient instead of the other spin's gradient.", "MappedXC2, nspin=2, a baseline that depends on sigma_ab (NPOL/POL correlation) and grad rho_a != grad rho_b", "C01 (L1/nst/nspin2/NPOL/v2)", None),
 "C07_vi_l1dot_nspin_factor": ("C07", "removes the nspin factor of the version-i l=1 dot features in eval_rho_vi_ and the matching one in eval_vxc_vi_ (derivatives stay consistent).", "nspin=2 and NLDF version i/ij settings with l1_feat_dots", "C07 (plan_closed_shell/i)", "missed at first (no plan-level link); caught after building C01-L2 and the plan-level closed-shell comparison"),
 "C15_isotropic_lengthscale_gradient": ("C15", "in DiffARBF/DiffAdditiveMixin eval_gradient the isotropic branch overwrites derivs[:,:,0] per feature instead of accumulating.", "scalar length_scale, free length_scale_bounds, >= 2 feature columns, order >= 1", "C15 (*_iso/theta_gradient)", "missed at first (all additive configurations were anisotropic); caught after adding the *_iso kernels"),
 "C09_sdmxgen_reuse_across_nspin": ("C09", "initialize_feature_generators compares the freshly rebuilt sl_plan.nspin instead of the cached sdmxgen.plan.nspin, so the SDMX generator is never rebuilt when only nspin changes.", "one numint object reused for nr_uks then nr_rks (or the reverse) on the same mol with SDMX features", "C09 (crosshair/_generators_follow_latest_request)", "missed at first (the harness stubbed initialize_feature_generators); caught after adding the CrossHair history conditions"),
 "C20_padded_row_refactor": ("C20", "refactor of write_fft_input/read_fft_output into a helper that computes the padded in-place r2c row length as (n+2)*nt instead of 2*(n/2+1)*nt.", "r2c AND inplace AND odd last dimension", "C20", "caught at first run (element-wise DFT obligations and call_returns facts for dims (3), (2,3))"),
 "C11_additive_map_bounds_index": ("C11", "get_mapped_gp_evaluator_additive takes the spline-grid bounds of mapped dimension i from feature i instead of feature inds[i].", "kernel acts on a non-leading subset of features with different bounds", "C11", "missed at first (spline-mapped evaluators were outside the check); caught after adding map_additive/* (grid-covers-feature-bounds facts + node-value identity with interpolation.splines replaced by recorders)"),
 "C05_orb_to_rad_fused_loop": ("C05", "contract_orb_to_rad fuses the m and q loops when offset == 0 (correct guard would be stride == nalpha).", "offset 0 (or None) inside a wider p_uq array (stride > nalpha)", "C05", "missed at first (offset 0 was only exercised with stride == nalpha); caught after adding rad_orb/offset0_wide and angc_ylm/offset0_wide"),
 "C06_from_tabs_stale_ylm_offset": ("C06", "AtomicGridsIndexer.from_tabs stores one ylm table per element but keeps the offset in a single variable updated only when a new element is first seen.", "two atoms of one element separated by an atom of another element with a different angular table", "C06 (relabel_indexer/*) and C19 (build/HHeH/*)", "missed at first (no indexer-level relabelling task); caught after adding C06 relabel_indexer/* and the C19 check with an A-B-A arrangement"),
 "C02_exponent_spin_prefactor": ("C02", "get_cider_exponent factors pi*(nspin/2)^(2/3) out of the nspin branch so the tau term C wrongly picks up the spin factor.", "nspin=2 AND MGGA exponent AND tau_mul != 0", "C02", "caught at first run (exponent_doc/MGGA/nspin2)"),
}
for name, (prop, what, needs, by, note) in META.items():
    d = '/verif/seeded/%s' % name
    if not os.path.isdir(d):
        continue
    rd = lambda f: open(os.path.join(d, f)).read() if os.path.exists(os.path.join(d, f)) else ''
    log = rd('check_with.log')
    nv = len(re.findall(r'^VIOLATION', log, re.M))
    ex = re.search(r'check exit=(\d+)', log)
    obl = [re.sub(r' model=.*', '', l.strip()) for l in re.findall(r'^   obligation .*', log, re.M)][:6]
    last = lambda t: t.strip().splitlines()[-1] if t.strip() else None
    json.dump(dict(property=prop, change=what, needs_to_manifest=needs, source="fresh sub-agent given only the property text and a scratch worktree of /repo",
                   confirmed=dict(demo_with_change=last(rd('demo_with.log')), demo_without_change=last(rd('demo_without.log')), pinned_tests_with_change=rd('tests_with.log').strip()),
                   ran="tools/seed_eval.sh %s <worktree> %s   (git -C /repo apply patch.diff; ./check %s --tier quick; git -C /repo checkout -- .)" % (prop, name, prop),
                   check_result=dict(exit_code=int(ex.group(1)) if ex else None, violation_lines=nv, first_obligations=obl),
                   detected_by=by if nv else None, history=note), open(os.path.join(d, 'meta.json'), 'w'), indent=1)
    print(name, 'exit', ex.group(1) if ex else None, 'violations', nv)
