#!/bin/bash
# usage: tools/run_all.sh [quick|thorough]   -- runs every claimed check sequentially, prints one summary line each
TIER=${1:-quick}
cd /verif
for id in $(python3 -c "import json;print(' '.join(c['property_id'] for c in json.load(open('MANIFEST.json'))['checks']))"); do
  s=$(date +%s)
  ./check $id --tier $TIER > /tmp/run_all_$id.log 2>&1; rc=$?
  e=$(date +%s)
  echo "$id rc=$rc $((e-s))s known=$(grep -c '^KNOWN-FINDING' /tmp/run_all_$id.log) viol=$(grep -c '^VIOLATION' /tmp/run_all_$id.log) :: $(tail -1 /tmp/run_all_$id.log | cut -c1-200)"
done
