#!/usr/bin/env python3
"""regenerates the generated blocks of DESIGN.md (per-property as-built scope, findings, seeded changes) from
tools_manifest.py, known_findings.json, seeded/*/meta.json and the committed evidence files"""
import glob, json, os, re, sys
HERE = os.path.dirname(os.path.dirname(os.path.abspath(__file__)))
sys.path.insert(0, HERE)
import tools_manifest as tm

def block_props():
    out = []
    titles = {json.loads(l)["id"]: json.loads(l)["title"] for l in open(os.path.join(HERE, "properties.jsonl"))}
    for pid in sorted(titles):
        if pid in tm.CLAIMED:
            c = tm.CLAIMED[pid]
            ev = os.path.join(HERE, "evidence", pid + ".json")
            extra = ""
            if os.path.exists(ev):
                e = json.load(open(ev)); cov = e["coverage"]
                extra = "\n  *Last committed %s run:* %d obligations, %d discharged, %d inconclusive, %d known-finding hits, %d paths, %d tasks, %.0f s wall, solver time %.0f s." % (
                    e["tier"], cov["obligations"], cov["discharged"], cov["inconclusive"], cov["counterexamples_reproduced"], cov["paths_explored"], cov["tasks"], e["wall_s"], cov["solver_time_s"])
            out.append("* **%s — %s** (claimed).\n  *Decided:* %s\n  *Bounds / outside the claim:* %s\n  *Deciding technique:* %s.%s\n" % (pid, titles[pid], c["text"], c["note"], c["technique"], extra))
        else:
            out.append("* **%s — %s** — **not applicable**: %s\n" % (pid, titles[pid], tm.NA.get(pid, "see section 5")))
    return "\n".join(out)

def block_findings():
    k = json.load(open(os.path.join(HERE, "known_findings.json")))
    out = ["**Known findings (genuine defects recorded, not repaired; each is matched by obligation name AND an input predicate, so a different violation of the same property is still reported):**\n"]
    for f in k["findings"]:
        out.append("* `%s` (%s): %s" % (f["id"], f["property"], f["what"]))
    out.append("\n**Repaired defects (one unguarded `fix:` commit each in /repo; a fixed entry suppresses nothing):**\n")
    for f in k["fixed"]:
        out.append("* " + f)
    return "\n".join(out)

def block_seeds():
    rows = ["| seeded change | property | what it does | needs to manifest | caught by | history |", "|---|---|---|---|---|---|"]
    for d in sorted(glob.glob(os.path.join(HERE, "seeded", "*", "meta.json"))):
        m = json.load(open(d))
        esc = lambda s: str(s).replace("|", "\\|")
        rows.append("| `%s` | %s | %s | %s | %s (exit %s, %s VIOLATION lines) | %s |" % (os.path.basename(os.path.dirname(d)), m["property"], esc(m["change"]), esc(m["needs_to_manifest"]),
                    esc(m["detected_by"]), m["check_result"]["exit_code"], m["check_result"]["violation_lines"], esc(m["history"])))
    return "\n".join(rows)

def main():
    p = os.path.join(HERE, "DESIGN.md")
    s = open(p).read()
    for tag, fn in (("PROPS", block_props), ("FINDINGS", block_findings), ("SEEDS", block_seeds)):
        a, b = "<!-- BEGIN GENERATED %s -->" % tag, "<!-- END GENERATED %s -->" % tag
        if a in s:
            i, j = s.index(a) + len(a), s.index(b)
            s = s[:i] + "\n" + fn() + "\n" + s[j:]
    open(p, "w").write(s)
    print("DESIGN.md tables regenerated")

if __name__ == "__main__":
    main()
