#!/bin/bash
# Offline set-up: overlay venv on /venv with z3-solver, cvc5, crosshair-tool from the local wheelhouse.
set -e
HERE="$(cd "$(dirname "${BASH_SOURCE[0]}")" && pwd)"
V="$HERE/.venv"
if [ -x "$V/bin/python" ] && "$V/bin/python" -c "import z3, cvc5, crosshair, numpy" 2>/dev/null; then exit 0; fi
exec 9>"$HERE/.venv.lock"; flock 9
if [ -x "$V/bin/python" ] && "$V/bin/python" -c "import z3, cvc5, crosshair, numpy" 2>/dev/null; then exit 0; fi
rm -rf "$V"
/venv/bin/python -m venv "$V"
echo "import site; site.addsitedir('/venv/lib/python3.12/site-packages')" > "$V/lib/python3.12/site-packages/_base.pth"
PIP_NO_INDEX=1 "$V/bin/pip" install -q --no-index --find-links /opt/veriftools/wheels z3-solver cvc5 crosshair-tool
"$V/bin/python" -c "import z3, cvc5, crosshair, numpy; print('verif venv ready', z3.get_version_string())"
