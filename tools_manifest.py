#!/usr/bin/env python3
"""Regenerates MANIFEST.json from the table below (single source of truth for what is claimed)."""
import json, os
HERE = os.path.dirname(os.path.abspath(__file__))

CLAIMED = {
 "C12": dict(
   text="Bounded symbolic execution of the real transform_data.py / feat_normalizer.py: for every registered map class, every normaliser class and the two list composites, on every feasible path through the code's own clamps, z3 shows that the derivative routine equals the mechanically differentiated value routine for all parameter and feature values (exact reals); counterexamples are replayed on the unmodified module by finite differences before being reported.",
   note="float64 as exact reals; 1-2 sample points; index assignments enumerated; np.isnan False; identities on the domain where the denominators met are non-zero. Known findings (clamp regions) listed in known_findings.json.",
   technique="symbolic execution of the repository's Python through an exact-real numpy shim + automatic differentiation of the value term + z3 (QF_NRA) per path; finite-difference replay of every model",
   design="4/C12"),
 "C14": dict(
   text="For every class of the feature-map registry (read from the loaded module), FeatureList, SplineSetEvaluator and the to_dict of MappedDFTKernel(2): the real as_dict/from_dict code is executed with symbolic parameters and z3 shows the reloaded object yields the identical value/derivative terms (two save/load cycles); CrossHair decides, over symbolic strings, that from_dict accepts exactly the codes as_dict writes and that load_cider_model dispatches only yaml/joblib and rejects non-models; one concrete YAML/joblib file round trip per class validates the file layer bit-for-bit.",
   note="dict level is symbolic; the file layer (PyYAML/joblib float round trip) is checked on one concrete sample per class; HDF5 ElectronAnalyzer dumps and NNEvaluator are outside; CrossHair string lengths <= 8, per-condition timeout 30 s (quick) / 120 s (thorough), 'Not confirmed' counted inconclusive.",
   technique="symbolic execution (exact reals) of serialisers + z3 term equality; CrossHair/z3 on the dispatch code with symbolic strings; concrete file round trip as translation validation",
   design="4/C14"),
 "C13": dict(
   text="The settings/plan/normaliser code is executed at a symbolic uniform density (rho = 2u^6) with symbolic exponent parameters; z3 decides that every entry of the reported UEG vector equals the feature actually computed there (semilocal modes) and the documented closed-form kernel integral (all version-i l=0 specs, j, k; GGA/MGGA; rho_mult one/expnt; fractional Laplacian), that normalisers' reported UEG factors equal their forward map at the UEG point, and that every accepted settings combination produces a vector.",
   note="Gaussian-moment lemma trusted; documented kernels transcribed from docs/features/nldf.rst; SDMX constants (hard-coded numerical integrals) only checked for table consistency and density power; u in [1/8, 8]; se_erf_rinv has no documented closed form.",
   technique="symbolic execution (exact reals) + canonical polynomial normal form + z3; replay by direct evaluation on the unmodified modules",
   design="4/C13"),
 "C03": dict(
   text="With a symbolic scaling factor lam, z3 decides on the real code that the length-scale exponents (and their derivatives) scale as lam^2 (lam^-1, lam^-6, lam^-3), that the semilocal features have exactly the powers SemilocalSettings declares, that every normaliser class maps power u to u+get_usp(), that the inhomogeneity variable is scale invariant in all four modes, that for 13 settings configurations the recommended normalisers make every non-local feature scale invariant when the raw features scale with the declared powers, that the declared spec powers equal the homogeneity of the documented kernels, and that the exchange baselines scale as lam^4.",
   note="Python layer only: that the C pipeline's raw features have the declared power needs a scaled molecule end to end and is outside; densities above the cutoffs on both sides of the scaling; tau >= tau_W; one sample point.",
   technique="symbolic execution (exact reals, symbolic exponents via exp/log atoms) + canonical polynomial normal form + z3",
   design="4/C03"),
 "C04": dict(
   text="The real evaluator assembly code (KernelEvalBase(2), MappedDFTKernel(2), MappedXC(2)) is executed symbolically in SEP/NPOL/POL for nspin 1 and 2 with several evaluators and kernels accumulating into shared buffers and a symbolic rhocut; with verified leaves replaced by contract stubs z3 shows on every path that dres = d(res)/d(X0T) and vrho_tuple = d(res)/d(rho tuple) and that points below the cutoff give exactly zero value and derivative; every native baseline in BASELINE_CODES, the libxc same-spin/opposite-spin splits (libxc by contract) and GlobalLinearEvaluator are decided on their real formulas.",
   note="one sample point; contract stubs = uninterpreted differentiable functions (their contracts are what C12/C04 leaf harnesses prove); libxc trusted (v = dE/d.); SplineSetEvaluator (numba) and NNEvaluator (torch) outside; C and Python kernel evaluators are under C11/C15.",
   technique="symbolic execution with assume-guarantee contract stubs + automatic differentiation + polynomial normal form + z3; finite-difference replay with concrete smooth leaves",
   design="4/C04"),
 "C01": dict(
   text="Link by link, each on the real code with the neighbouring links as contract stubs: (L1) eval_xc_cider and everything it orchestrates (semilocal and fractional-Laplacian plans incl. get_s2/alpha derivatives, normaliser list, MappedXC/MappedXC2, baselines, xmix, additive semilocal part) for 4 semilocal modes x nspin x SEP/NPOL/POL x both evaluator versions x feature layouts: vxc, vxc_nldf, vxc_sdmx equal the mechanical derivative of exc*n on every path; (L2) NLDFAuxiliaryPlan.eval_rho_full / eval_vxc_full (versions i, j, ij, k; GGA/MGGA exponents; rho_mult one/expnt; both coefficient orders; both spins): vf = dE/df and the density potential for E = sum_i v_i feat_i; (L3) LCAONLDFGenerator.get_features / get_potential over the real plan (interpolation arguments, get_function_to_convolve incl. the expnt product rule, index map, weights): vrho = dE/d rho_data; (L5) nr_rks / nr_uks / nr_rks_nldf / nr_uks_nldf: vmat contracted with a symmetric direction equals the derivative of excsum, nelec is the density integral. The end-to-end statement is the chain rule over the links.",
   note="1-2 grid points, nao = 2; region rho > 1e-6, tau > tau_W (clamps are C08); leaves by contract (feature maps C12, evaluators C04, interpolation coefficients C02/C11, the theta -> f convolution chain and its transpose C05); PySCF primitives are numpy reference stubs in L5; version ij in L3 at one grid point, ij/expnt inconclusive there; PyscfNLDFGenerator's own set-up, SDMX/FracLapl generators and the GPAW interface are not executed.",
   technique="symbolic execution of the orchestration code with contract stubs + automatic differentiation + z3",
   design="4/C01"),
 "C07": dict(
   text="The exponent routines, the semilocal plan and the whole eval_xc_cider chain are executed symbolically twice (polarised / unpolarised, or with spin labels exchanged) and z3 decides term-by-term equality: closed shell through nspin=2 equals nspin=1 (energy density and per-channel potentials), swapping channels swaps potentials, and E[a,b] = (E[2a]+E[2b])/2 for SEP models.",
   note="one grid point; composites on rho > 1e-6 per channel; non-local raw inputs related by the generators' nspin factors; MappedXC2 compared in SEP mode only (libxc's own spin consistency is trusted, not decidable for an uninterpreted functional).",
   technique="symbolic execution of both spin paths + z3 equality of the resulting terms",
   design="4/C07"),
 "C08": dict(
   text="Over the whole non-negative domain (rho in [0,1e12] incl. exact 0 and both sides of every cutoff, sigma, tau >= 0, regularisers at their real value 1e-16) the real formulas are executed symbolically and, for every division, root and logarithm that reaches an output (feature maps, normaliser list, s^2/alpha and derivatives, exponents, native baselines, the assembled eval_xc_cider), z3 decides that its argument cannot leave the domain on that path; products 0*(1/x) are kept so that a NaN hidden by a later zero is still seen; below the model's own rhocut comparison the ML energy and all derivatives are shown to be the constant 0.",
   note="exact reals: IEEE overflow to inf, denormals and NaN propagation are not decided (no faithful SMT encoding of pow/exp/log); intermediate non-finite values overwritten by a mask before being returned are not outputs; V2Map restricted to x_j <= 2 x_i; C spline index clipping is decided under C18.",
   technique="symbolic execution + one SMT domain query per partial operation under the path condition; replay on the unmodified code with isfinite",
   design="4/C08"),
 "C15": dict(
   text="ciderpress/models/kernels.py and scikit-learn's own kernels.py are both executed symbolically from source on 2 x d symbolic inputs with symbolic hyper-parameters for ~30 kernel configurations (RBF family, linear, polynomial, additive ARBF/ARBFV2/AddLLRBF/AddRQ, subset, spin-symmetrised, partial, antisymmetric, noise, sums/products/powers/linear transforms); z3 decides k(X,Y)=k(Y,X)^T, diag, k_and_deriv = (k, dk/dX) incl. the Y=None convention, eval_gradient = dk/dtheta with fixed hyper-parameters absent, composition algebra, spin-block symmetry, and 2x2 positive semidefiniteness for 7 kernels.",
   note="matrices 2 x 2, d <= 4, orders <= 2 (quick) / 3 (thorough); PSD for n >= 3 and _reduce_npts not applicable; scipy cdist/pdist replaced by their definitions.",
   technique="symbolic execution of the kernels and of scikit-learn's kernel base classes + automatic differentiation + z3",
   design="4/C15"),
 "C20": dict(
   text="FFTWrapper.__init__/call are executed symbolically from source; every libfft_wrapper call runs clang's LLVM IR of /repo's current cider_fft.c (FFTW backend) in the symbolic interpreter with bounds-checked heap buffers, and FFTW itself is replaced by its documented contract (advanced-interface layout rules howmany/stride/dist, padded in-place r2c layout, unnormalised DFT with exact radical twiddle factors). On symbolic input data z3 decides element by element that the output equals the mathematically defined DFT (r2c: the half spectrum; c2r of a half spectrum of y: N*y), that advertised shapes hold, that forward-then-backward returns N*x, that a wrongly shaped input raises ValueError, and (QF_BV) that the (int) casts of sizes handed to FFTW do not truncate below 2^31 elements. Counterexamples are replayed on the freshly compiled real cider_fft.c linked against a reference DFT and compared with numpy.fft.",
   note="dimension tuples enumerated: (3),(4),(2,3) quick; 12 tuples up to (2,3,4) with sizes dividing 12 thorough; ntransform 1-2 (quick) / 1-3 (thorough); all 16 flag combinations; doubles as exact reals; MKL backend, FFTW's own correctness and sizes beyond the list are outside.",
   technique="symbolic execution of clang LLVM IR (own interpreter) through the repository's ctypes wrapper with a contract model of FFTW + z3; bit-vector query for the int casts; replay against the freshly compiled library",
   design="4/C20"),
 "C19": dict(
   text="Index map only (equality with PySCF's own point set and Lebedev orthonormality are not applicable). The real gen_atomic_grids_cider, CiderGrids.gen_atomic_grids/build/prune_by_density_ and AtomicGridsIndexer.from_tabs/set_weights/set_idx/set_padding are executed symbolically with PySCF's primitives replaced by contract stubs (fresh radii/weights, fresh directions and angular weights per angular size, fresh spherical-harmonic symbols, get_partition = atom-ordered concatenation with fresh Becke factors, arg_group_grids = the task's permutation). z3 decides on every path: weights[k] == all_weights[idx_map[k]], coords[k] == all_coords[idx_map[k]], iatom_list[k] is the owning atom, idx_map injective and in range, size == idx_map.size + padding and aligned, padding weights are 0, and the shell tables (rad_loc, ylm_loc, ra_loc, ar_loc, ga_loc, rad_arr, ylm) describe the atom-ordered grid actually produced: every point of shell r is centre + rad_arr[r] * direction_j, carries weight 4 pi r^2 dr w_j * Becke, and its ylm row is the tabulated Y of direction j truncated to zero above the shell's degree; the same invariants after two rounds of density pruning whose kept/dropped decisions are made by solver forking.",
   note="1-3 atoms (4 thorough) of 1-2 element types, 1-3 radial shells per element with angular sizes 1/6/14 in every order, alignment 1/4 (1/2/4/8 thorough), permutations identity/reversal/seeded shuffles (not all), pruning symbolic on 2+1 points, lmax 1-2; all PySCF primitives are stubs listed in evidence.",
   technique="symbolic execution of the grid-construction and indexer code with contract stubs for PySCF primitives + z3 equality of symbolic coordinates/weights under the path condition; replay on the unmodified code",
   design="4/C19"),
 "C18": dict(
   text="Four layers. (1) CrossHair (z3 per path) over the real settings constructors with arguments decoded from small symbolic integers and floats: NLDFSettingsVI/VJ/VIJ/VK, SemilocalSettings, SADMSettings and FracLaplSettings raise iff an argument is illegal per the class documentation (unknown spec/mode/level/rho_mult/rho_damp, wrong parameter count incl. the se_erf_rinv extra parameter, a0 <= 0, negative multipliers, non-pair dots, indexes outside [-1, n)); accepted settings satisfy nfeat == len(get_feat_usps()) == len(ueg_vector()) == len(get_reasonable_normalizer()), and FeatureSettings over all 300 family combinations has get_feat_loc equal to the running sum. (2) Symbolic execution of NLDFAuxiliaryPlan.__init__ over the whole illegal region of alpha0, lambd, rhocut, expcut (plus enumerated illegal nalpha/nspin/strings/settings type) and of eval_feat_exp with symbolic densities: a call that returns never yields an exponent above max(alphas) at a point with rho > rhocut, and an out-of-range feature index raises. (3) The real ctypes wrappers reduce_angc_ylm_, RBFEvaluator family and FFTWrapper run clang's LLVM IR of the C in the bounds-checked interpreter with exactly sized buffers: accepted calls touch nothing outside their arrays (and nothing outside the column window), illegal layouts are refused. (4) Python shape guards of FeatNormalizerList, KernelEvaluator, ModelWithNormalizer, ConvolutionCollection(K) incl. default outputs.",
   note="bounds in evidence (lists <= 2-3, floats in [-2,2], 1-2 grid points, nalpha <= 3/stride <= 4); NotImplementedError from ueg_vector/get_reasonable_normalizer counts as an explicit refusal; SDMX plan classes, PySCF-layer initialisers and convert_rad2orb_ through its wrapper are not covered; out-of-bounds counterexamples are confirmed with valgrind memcheck.",
   technique="CrossHair symbolic execution (z3) of the real constructors + own symbolic execution of plans and of clang LLVM IR behind the real ctypes wrappers (bounds-checked memory) + z3; replay on the unmodified code (valgrind memcheck for out-of-bounds accesses)",
   design="4/C18"),
 "C16": dict(
   text="The real MOLGP.__init__/reset_reactions/add_reactions/fit/compute_likelihood are executed symbolically on duck-typed kernels that carry exactly the state the property names (cov/base/dcov/dbase dictionaries, rxn_cov_list, Kmm, alpha) with symbolic contents; scipy's cholesky/cho_solve and numpy's slogdet are replaced by their definitions over exact reals. z3 / the polynomial normal form decide, without inverting anything on the oracle side: labels = documented reference minus counted baselines (+ energy*unit - KS baselines for XC reactions, default unit included), noises = documented combination of noise / noise_factor / noise_rel_factor / weight, covariance rows = counted sums (zero rows for correlation kernels in exchange-only reactions); after fit (Kmm + eps I) alpha_k == Kmn alpha_mol for every kernel and sum_k Knm alpha_k + (Sigma + eps I) alpha_mol == y (hence the residual equals the noise covariance applied to alpha_mol) with symbolic numerical_epsilon >= 0; permuting the reaction list permutes alpha_mol and leaves every kernel.alpha unchanged; reset_reactions + re-adding reproduces the lists; compute_likelihood equals the Gaussian log marginal likelihood; modes 1 and > 2 are refused; _compute_mol_covs (data loading stubbed by symbolic arrays, kernel covariance and baselines as leaf functions) stores cov = sum_g w_g k m and base = sum_g w_g a with the rho < 1e-6 mask applied to values and derivatives alike (mask decided by solver forking), the orbital-derivative entries are the directional derivatives of the same sums, and the reference dictionaries hold sum val*w and e_tot - exc.",
   note="1-2 control points per kernel, 1-2 kernels (x, c, xc), 1-3 reactions; fit consumes fresh symbols for the stored lists (their composition is decided separately); _compute_mol_covs at 2 grid points (single block), identity normalisers; NOT covered: load_data/store_mol_covs file handling, control-point selection, optimize_cov_and_noise_, MOLGP2, non-default x; likelihood compared at sigma_min = 0.",
   technique="symbolic execution of the training code with exact-real definitions of the LAPACK calls + polynomial normal form / z3 identities on the solved weights; replay on the unmodified code with scipy",
   design="4/C16"),
 "C10": dict(
   text="Part A (every place where the team size enters the arithmetic explicitly: the block partitions of the six SDMXcontract_ao_to_bas* routines and of contract_grad_terms_parallel): the partition expressions are extracted from /repo's current C source text and translated to z3 integer terms; for all team sizes 1 <= T <= 4096 and all problem sizes 0 <= ngrids <= 2^31-1-4096 (incl. ngrids < T and T not dividing ngrids) z3 decides that every index is covered by some thread's block, no index by two, every block lies in [0, ngrids), per-thread scratch (malloc(blksize), tmp_priv + ithread*natm of calloc(nthreads*natm)) is large enough and thread-disjoint, the C division operands are non-negative and no int expression exceeds INT_MAX. Part B (schedule independence of work-shared loops, bounded): clang's -fopenmp LLVM IR of cider_coefs.c (cider_coefs_gto_gq/qg, cider_coefs_vk1_gq/qg, cider_coefs_spline_gq/qg, cider_ind_etb/zexp, smooth_cider_exponents), model_utils.c (evaluate_se_kernel, _antisym, _spin, _spin_v2), cider_grids.c (reduce_angc_to_ylm / reduce_ylm_to_angc), convolutions.c (contract_rad_to_orb / contract_orb_to_rad, multiply_atc_integrals, multiply_atc_integrals_vk), conv_interpolation.c (project_conv_to_spline / project_spline_to_conv) and cider_fft.c (write_fft_input / read_fft_output) is executed through the same harnesses as C05/C11/C20 with the __kmpc_* runtime modelled so that virtual thread k receives exactly iteration k of every work-shared loop (static and dynamic schedules alike); all loads and stores are logged per barrier phase and no byte is touched by two iterations with a write outside critical/reduction sections - which is race freedom for every schedule and team size at these sizes - while the value/gradient/adjoint identities of the reused harness are decided again on the OpenMP lowering.",
   note="Part B is bounded by the harness sizes (loops of <= 8 iterations, one virtual thread per iteration) and covers only the routines listed; the other loops of conv_interpolation.c, fast_sdmx.c, frac_lapl.c, nr_numint.c, pbc_tools.c, MKL/MPI branches, BLAS reproducibility and end-to-end runs under different OMP_NUM_THREADS are outside; reassociation inside reductions is allowed by the property; stores that rewrite the value already present (multiply_atc_integrals' `fwd`) are reported as notes, not races; a footprint conflict is confirmed on the compiled library under valgrind helgrind before it is reported.",
   technique="translation of the C partition expressions (from the current source) to z3 integer arithmetic; symbolic execution of clang -fopenmp LLVM IR with a model of the __kmpc_* runtime and per-iteration access footprints; counterexamples replayed by compiling the same expressions with gcc / under valgrind helgrind",
   design="4/C10"),
 "C09": dict(
   text="Aliasing: every public pure-Python entry (exponents, s2/alpha routines, all map classes, normaliser list, semilocal plan, NLDF plan, eval_xc_cider) is called with caller-owned symbolic arrays and z3 decides on every feasible path that the arrays hold the same terms afterwards. Batching/blocking: the real nr_rks/nr_uks/nr_rks_nldf/nr_uks_nldf are executed symbolically (nao=2, 2 grid points, nset=2; one block of 2 vs two blocks of 1) and compared term-by-term with separate calls on fresh objects. History: interleaved/repeated calls on one plan object and a failed-then-successful call on one kernel object against fresh objects.",
   note="PySCF primitives replaced by numpy reference implementations; generator and eval_xc_cider by contract stubs that keep the per-spin cache statefulness; real max_memory->blksize arithmetic and SDMX buffers outside.",
   technique="symbolic execution of the orchestration code + z3 equality of before/after and batched/separate terms",
   design="4/C09"),
 "C11": dict(
   text="The wrappers RBFEvaluator / AntisymRBFEvaluator / SpinRBFEvaluator are executed unchanged in the symbolic context; their FFI call runs clang's LLVM IR of /repo's current model_utils.c in a symbolic interpreter with bounds-checked buffers. z3 decides that value and gradient equal the Python kernel sum f(x) = sum_a k(x, x_a) alpha_a (computed by the real symbolic kernels, incl. constant factor, subset index expansion for slices with open stop/step, the antisymmetric kernel and the POL-mode kaa*kbb + kab*kba form), that results accumulate into pre-filled buffers, that default buffers stay in bounds, and that the linear mapping equals the linear kernel sum; evaluate_se_kernel_spin_v2 is checked directly on symbolic buffers.",
   note="n <= 2, nctrl = 2, nfeat <= 3 (loops fully unrolled at these sizes); doubles as exact reals; spline-mapped evaluators' accuracy (numba interpolation) not applicable; OpenMP ignored here.",
   technique="symbolic execution of clang LLVM IR (own interpreter) through the repository's ctypes wrappers + automatic differentiation + z3; replay against the freshly compiled library",
   design="4/C11"),
 "C02": dict(
   text="Formula layer only (the rest of the property is numerical analysis and is not claimed): clang's LLVM IR of cider_coefs.c is executed symbolically - through the real wrapper _get_ovlp_fit_interpolation_coefficients and the FFI bridge for the Gaussian coefficient kernels - and z3 decides that for every J/K spec id the coefficients equal the Gaussian overlap of the kernel documented in docs/features/nldf.rst (via the Gaussian-moment lemma) and that dp = dp/da; likewise the version-k damping coefficients, the etb/zexp exponent-to-index maps, index clipping, cubic-spline coefficient evaluation (all table reads in bounds) and the smooth exponent saturation; the spec-id tables are total and distinct; the plan's version-i contraction equals the documented dot products with the documented nspin factors; the exponents equal the documented a_i[n].",
   note="ngrids = nalpha = 2; Gaussian-moment lemma trusted; documented kernels transcribed; NOT claimed: version-i kernel integrals of convolutions.c, SDMX fit accuracy, fast-vs-slow path agreement, convergence under refinement.",
   technique="symbolic execution of clang LLVM IR (own interpreter) via the repository's ctypes wrapper + z3; replay against the freshly compiled library",
   design="4/C02"),
 "C05": dict(
   text="Serial semantics: clang's LLVM IR of the forward and of the backward C routine is executed on symbolic vectors with zero-initialised outputs and concrete layout data; the structs they read (atc_basis_set, convolution_collection) are built by the freshly compiled real library through ATCBasis / ConvolutionCollection(K) and read from process memory. z3 decides <A x, y> == <x, B y> as an exact bilinear identity for reduce_angc_to_ylm/reduce_ylm_to_angc (through dgemm_, stride > nalpha, offsets 0 and 1), contract_rad_to_orb/contract_orb_to_rad, project_conv_to_spline/project_spline_to_conv (orbital <-> cubic-spline coefficients, both column windows), multiply_atc_integrals and multiply_atc_integrals_vk (fwd/bwd), and for the Gaussian plan's interpolation-coefficient transform (fwd/bwd, in place and copy, symbolic SPD matrix); writes outside the [offset, offset+nalpha) window are shown impossible; the interpreter is validated against the compiled .so on concrete inputs.",
   note="2 atoms, lmax 1, nalpha 2; NOT covered in this round (listed in evidence): l+1 interpolation terms (fill_l1_coeff, add_lp1_term), orbital<->grid interpolation, SDMX contractions; thread count is C10.",
   technique="symbolic execution of clang LLVM IR in hybrid memory mode (own interpreter) + z3 polynomial identity; translation validation against the compiled library",
   design="4/C05"),
 "C06": dict(
   text="The decidable bookkeeping pieces of rotational covariance, on the real code: clang's IR of sph_harm.c is executed on a symbolic unit vector and z3 decides (i) the documented l=1 direction convention ylm[[3,1,2]] sqrt(4pi/3) = (x,y,z), (ii) sum_m Y_lm^2 = (2l+1)/4pi per shell (l <= 2, 3 thorough), (iii) for octahedral operations R: Y_l(Rr) is a fixed signed permutation of Y_l(r) for l <= 1 and the l = 2 shell's Gram matrix is invariant, (iv) recursive_sph_harm_deriv returns the same values and exactly the tangential gradient of the polynomials the value routine evaluates; and the NLDF plan's l=1 contraction is invariant under a symbolic orthogonal matrix (Cayley parametrisation, proper and improper).",
   note="NOT claimed (not applicable): energy / XC-matrix invariance end to end, atom-permutation invariance of generators, arbitrary rotations to quadrature accuracy, translation covariance of the spline routines; identities that mix the C source's decimal constants with pi are decided within 1e-12; unit-sphere constraint used as a rewrite rule z^2 = 1 - x^2 - y^2.",
   technique="symbolic execution of clang LLVM IR (own interpreter) + polynomial normal form with equational rewriting + z3 (monomial-box abstraction for tolerance bounds)",
   design="4/C06"),
}

NOT_YET = {}
NA = {
 "C17": "end-to-end SCF + PySCF/libcint derivative integrals + finite differences over geometry: whole-program runs through FFI with data-dependent iteration counts; no bounded symbolic encoding reaches it (DESIGN.md 4/C17)",
}

def main():
    props = [json.loads(l)["id"] for l in open(os.path.join(HERE, "properties.jsonl"))]
    checks = []
    for pid in props:
        if pid in CLAIMED:
            c = CLAIMED[pid]
            checks.append(dict(
                property_id=pid,
                quick_cmd="./check %s --tier quick" % pid,
                thorough_cmd="./check %s --tier thorough" % pid,
                evidence_file="/verif/evidence/%s.json" % pid,
                replay_cmd_template="./check %s --replay {path}" % pid,
                engine="vf",
                level_claimed=dict(category="other", text=c["text"], design_ref="DESIGN.md section " + c["design"]),
                level_note=c["note"], technique=c["technique"]))
    na = []
    for pid in props:
        if pid in CLAIMED:
            continue
        na.append(dict(property_id=pid, reason=NA.get(pid) or NOT_YET.get(pid) or
                       "check not built yet in this round (planned scope: DESIGN.md section 4/%s); nothing is claimed for it" % pid))
    m = dict(
        version=1,
        setup_cmd="./setup.sh",
        hooks=dict(guard="CIDERPRESS_VERIF", enable="no hooks are needed: all interposition (load_library, module-global np, scipy/PySCF names) happens in symbolically loaded copies outside /repo",
                   baseline_off_cmd="cd /repo && /venv/bin/python -m pytest -ra -q -p no:cacheprovider --timeout=900 --continue-on-collection-errors",
                   source_commits=[], add_only=True),
        engines=[dict(name="vf", path="/verif/vf", serves_properties=sorted(CLAIMED),
                      kind_free_text="symbolic execution of the real Python (exact-real numpy shim, E1) and of clang's LLVM IR of the C back end (E2), obligations decided by z3 (cvc5 cross-check), every model replayed on the unmodified code")],
        checks=checks,
        notes="Exit codes: 0 held on everything explored (inconclusive obligations are listed in evidence), 1 VIOLATION, 3 harness/encoding error. Known findings: /verif/known_findings.json.",
        not_applicable=na)
    with open(os.path.join(HERE, "MANIFEST.json"), "w") as f:
        json.dump(m, f, indent=1)
    print("MANIFEST.json: %d claimed, %d not claimed" % (len(checks), len(na)))

if __name__ == "__main__":
    main()
