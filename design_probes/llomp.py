"""Probe: race-freedom of an OpenMP work-shared loop from clang -fopenmp IR with a symbolic iteration index.
Two abstract threads get iterations i != j (z3 Ints); accesses are (object, z3 offset, R/W); the solver
looks for a write/any conflict."""
import re, sys, subprocess, time
sys.path.insert(0, "/tmp/probe")
import z3
import symx
from symx import *
from llmini import parse, split_args

FLAGS = {"nsw", "nuw", "exact", "fast", "inbounds", "noundef", "nonnull", "noalias", "nocapture", "readonly", "readnone"}
def toks_of(s): return [t for t in s.replace(",", " ").split() if t not in FLAGS and not t.startswith("dereferenceable") and not t.startswith("align")]

class Obj:
    def __init__(self, name, n, kind): self.name, self.n, self.kind, self.cells = name, n, kind, {}
class Ptr:
    def __init__(self, obj, off): self.obj, self.off = obj, off

def is_sym(v): return isinstance(v, z3.ExprRef)

class Thread:
    def __init__(self, fns, name): self.fns, self.name = fns, name; self.acc = []; self.pc = []; self.iter = None; self.nfresh = 0
    def val(self, env, ty, tok):
        if tok.startswith("%"): return env[tok]
        if tok.startswith("@"): return ("global", tok)
        if ty == "double": return symx.lift(float(tok))
        if tok in ("true", "false"): return tok == "true"
        if tok == "null": return None
        return int(tok)
    def load(self, p, ty):
        o = p.obj
        if o.kind == "local":
            return o.cells[p.off]
        self.acc.append((o, p.off, "R"))
        if o.kind == "ptrcell": return o.cells[0]
        if ty == "double":
            self.nfresh += 1
            return symx.var("%s_ld%d_%s" % (self.name, self.nfresh, o.name))
        raise NotImplementedError("load " + ty + " from " + o.name)
    def store(self, p, v):
        o = p.obj
        if o.kind == "local": o.cells[p.off] = v; return
        self.acc.append((o, p.off, "W"))
    def run(self, fname, args):
        fn = self.fns[fname]; env = {p[1]: a for p, a in zip(fn.params, args)}
        cur, prev = fn.order[0], None; steps = 0
        while True:
            for ins in fn.blocks[cur]:
                steps += 1
                if steps > 5000: raise RuntimeError("runaway")
                r = self.step(env, ins, prev)
                if r is None: continue
                if r[0] == "br": prev, cur = cur, r[1]; break
                return r[1]
    def decide(self, c):
        if not is_sym(c): return bool(c)
        c = z3.simplify(c)
        if z3.is_true(c): return True
        if z3.is_false(c): return False
        s = z3.Solver(); s.add(*self.pc)
        s.push(); s.add(c); t = s.check() == z3.sat; s.pop()
        s.push(); s.add(z3.Not(c)); f = s.check() == z3.sat; s.pop()
        if t and f: raise RuntimeError("probe does not fork on: %s" % c)
        return t
    def step(self, env, ins, prev):
        m = re.match(r"(%[\w.\-]+) = (.*)", ins); dst, rhs = (m.group(1), m.group(2)) if m else (None, ins)
        rhs = re.sub(r", !\w+ !\d+", "", rhs); rhs = re.sub(r", align \d+", "", rhs); rhs = re.sub(r" #\d+$", "", rhs)
        op = rhs.split()[0]
        if op == "alloca":
            o = Obj(dst, 1, "local"); o.cells[0] = None; env[dst] = Ptr(o, 0); return
        if op == "bitcast":
            t = toks_of(rhs); env[dst] = self.val(env, "ptr", t[2]); return
        if op == "phi":
            ty = rhs.split()[1]
            for v, b in re.findall(r"\[\s*([^,\]]+),\s*%([\w.\-]+)\s*\]", rhs):
                if b == prev: env[dst] = self.val(env, ty, v.strip()); return
            raise RuntimeError("phi")
        if op in ("add", "sub", "mul", "shl"):
            t = toks_of(rhs); a, b = self.val(env, t[1], t[2]), self.val(env, t[1], t[3])
            env[dst] = a + b if op == "add" else a - b if op == "sub" else a * b if op == "mul" else a * (2 ** b); return
        if op in ("fadd", "fsub", "fmul", "fdiv"):
            t = toks_of(rhs); a, b = self.val(env, "double", t[2]), self.val(env, "double", t[3])
            env[dst] = {"fadd": symx.add, "fsub": symx.sub, "fmul": symx.mul, "fdiv": symx.div}[op](a, b); return
        if op in ("sext", "zext", "trunc"): t = toks_of(rhs); env[dst] = self.val(env, t[1], t[2]); return
        if op == "icmp":
            t = toks_of(rhs); a, b = self.val(env, t[2], t[3]), self.val(env, t[2], t[4])
            env[dst] = {"eq": a == b, "ne": a != b, "sgt": a > b, "sge": a >= b, "slt": a < b, "sle": a <= b}[t[1]]; return
        if op == "select":
            t = toks_of(rhs); c = self.val(env, "i1", t[2]); a, b = self.val(env, t[3], t[4]), self.val(env, t[5], t[6])
            env[dst] = (a if self.decide(c) else b); return
        if op == "br":
            t = toks_of(rhs)
            if t[1] == "label": return ("br", t[2][1:])
            return ("br", t[4][1:] if self.decide(self.val(env, "i1", t[2])) else t[6][1:])
        if op == "ret": return ("ret", None)
        if op == "getelementptr":
            t = toks_of(rhs[len("getelementptr"):]); base = self.val(env, "ptr", t[2]); idx = self.val(env, t[3], t[4])
            env[dst] = Ptr(base.obj, base.off + idx); return
        if op == "load":
            t = toks_of(rhs); env[dst] = self.load(self.val(env, "ptr", t[-1]), t[1]); return
        if op == "store":
            t = toks_of(rhs); self.store(self.val(env, "ptr", t[-1]), self.val(env, t[1], t[2])); return
        if op in ("call", "tail"):
            m2 = re.search(r"call (?:[\w]+ )*?(\S+) (?:\([^@]*\) )?@([\w.]+)\((.*)\)$", rhs)
            name, args = m2.group(2), split_args(m2.group(3))
            if name.startswith("llvm.lifetime") or name in ("__kmpc_for_static_fini", "__kmpc_barrier"): return
            vals = []
            for a in args:
                t = toks_of(a); vals.append(self.val(env, t[0], t[-1]))
            if name == "__kmpc_for_static_init_4":
                plb, pub = vals[4], vals[5]
                lo, hi = plb.obj.cells[0], pub.obj.cells[0]
                i = z3.Int(self.name + "_i"); self.iter = i
                self.pc += [i >= lo, i <= hi]
                plb.obj.cells[0] = i; pub.obj.cells[0] = i   # this thread gets exactly iteration i
                return
            if name in ("log", "exp"): env[dst] = (symx.flog if name == "log" else symx.fexp)(vals[0]); return
            raise NotImplementedError("call " + name)
        raise NotImplementedError(ins)

if __name__ == "__main__":
    t0 = time.time()
    fns = parse("/tmp/probe/cc_omp.ll")
    n = z3.Int("ngrids")
    bufs = {k: Obj(k, n, "data") for k in ("di_g", "derivi_g", "exp_g")}
    def cell(obj):
        o = Obj("&" + obj.name, 1, "ptrcell"); o.cells[0] = Ptr(obj, 0); return Ptr(o, 0)
    def scal(v):
        o = Obj("&scal", 1, "local"); o.cells[0] = v; return Ptr(o, 0)
    threads = []
    for nm in ("T1", "T2"):
        th = Thread(fns, nm); th.pc.append(n >= 1)
        gt = scal(0)
        # .omp_outlined..4(gtid*, btid*, double* lambd, double* alpha0, i32* ngrids, double** derivi_g, double** exp_g, double** di_g)
        th.run(".omp_outlined..4", [gt, gt, scal(symx.var("lambd")), scal(symx.var("alpha0")), scal(n), cell(bufs["derivi_g"]), cell(bufs["exp_g"]), cell(bufs["di_g"])])
        threads.append(th)
        print(nm, "accesses:", [(o.name, str(off), rw) for o, off, rw in th.acc if o.kind == "data"])
    a, b = threads
    s = z3.Solver(); s.add(*a.pc, *b.pc, a.iter != b.iter)
    conflicts = []
    for (o1, f1, k1) in a.acc:
        for (o2, f2, k2) in b.acc:
            if o1 is o2 and o1.kind == "data" and "W" in (k1, k2):
                conflicts.append(f1 == f2)
    s.push(); s.add(z3.Or(*conflicts)); print("race query:", s.check(), "(%d access pairs)" % len(conflicts)); s.pop()
    # bounds: every access offset within [0, ngrids)
    oob = [z3.Or(off < 0, off >= n) for th in threads for (o, off, k) in th.acc if o.kind == "data"]
    s.push(); s.add(z3.Or(*oob)); print("out-of-bounds query:", s.check()); s.pop()
    # reachability twin
    s.push(); print("reachability (assumptions satisfiable):", s.check()); s.pop()
    print("%.2fs" % (time.time() - t0))
