import sys, os, numpy
import ciderpress.lib.load as L
import ciderpress.lib as LL
LIBDIR = "/tmp/probe/build"
def load_library(name):
    return numpy.ctypeslib.load_library(name, LIBDIR)
L.load_library = load_library
LL.load_library = load_library
import pytest
sys.exit(pytest.main(sys.argv[1:]))
