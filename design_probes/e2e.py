import numpy, sys
import ciderpress.lib.load as L, ciderpress.lib as LL
def load_library(name): return numpy.ctypeslib.load_library(name, "/tmp/probe/build")
L.load_library = load_library; LL.load_library = load_library
import numpy as np
from pyscf import gto, dft
from ciderpress.dft.settings import *
from ciderpress.dft.transform_data import *
from ciderpress.dft.xc_evaluator import MappedXC, MappedDFTKernel, GlobalLinearEvaluator, RBFEvaluator
from ciderpress.dft.baselines import lda_x, zero_xc
from ciderpress.models.kernels import DiffRBF
from ciderpress.pyscf.dft import make_cider_calc
sl = SemilocalSettings("npa")
nldf = NLDFSettingsVJ("MGGA", [1.0, 0.0, 0.03125], "one", ["se", "se_ar2"], [[2.0, 0.0, 0.04], [1.0, 0.0, 0.03]])
st = FeatureSettings(sl_settings=sl, nldf_settings=nldf)
st.assign_reasonable_normalizer()
fl = FeatureList([UMap(1, 0.3), TMap(1, 2), VMap(3, 0.5, scale=2.0, center=1.0), UMap(4, 0.2)])
rng = np.random.default_rng(0)
ker = DiffRBF(length_scale=np.array([0.5, 0.6, 0.7, 0.8]))
ev = RBFEvaluator(ker, rng.uniform(size=(5, 4)), 0.1 * rng.normal(size=5))
mk = MappedDFTKernel([ev], fl, "SEP", lda_x, zero_xc)
mlxc = MappedXC([mk], st)
mol = gto.M(atom="H 0 0 0; F 0 0 0.9", basis="sto-3g", verbose=0)
ks = dft.RKS(mol); ks.grids.level = 1
ks = make_cider_calc(ks, mlxc, xmix=1.0, xc=None, xkernel=None, ckernel="GGA_C_PBE")
e = ks.kernel()
print("E", e, ks.converged)
dm = ks.make_rdm1()
ni = ks._numint
n, exc, v = ni.nr_rks(mol, ks.grids, ks.xc, dm)
d = rng.normal(size=dm.shape); d = d + d.T
h = 1e-4
ep = ni.nr_rks(mol, ks.grids, ks.xc, dm + h * d)[1]
em = ni.nr_rks(mol, ks.grids, ks.xc, dm - h * d)[1]
print("fd", (ep - em) / (2 * h), "an", np.sum(v * d))
