import sys, time; sys.path.insert(0, "/tmp/probe")
import numpy as np, z3
import symx, ctx
from symx import *
C = ctx.SymContext()
with C:
    import ciderpress.lib.load as L
    L.load_library = lambda name: ctx.FakeLib(name)
    import ciderpress.lib as LL
    LL.load_library = L.load_library
    import ciderpress.pyscf.numint as numint
    from ciderpress.dft.settings import SemilocalSettings, FeatureSettings, NLDFSettingsVJ
    import ciderpress.dft.settings as settings_mod
    import ciderpress.dft.plans as plans_mod
    from ciderpress.dft import transform_data as td
    from ciderpress.dft import feat_normalizer as fn
    from ciderpress.dft.xc_evaluator import MappedXC, MappedDFTKernel, FuncEvaluator
    from ciderpress.dft.plans import SemilocalPlan, FracLaplPlan

def elems(a): return [x.e for x in np.asarray(a, dtype=object).ravel()]

class AbsMap(td.FeatureNormalizer):
    """contract stub for a verified feature map reading raw features idx"""
    def __init__(self, name, idx): self.name, self.idx = name, idx
    bounds = (0, 1); num_arg = 1
    def fill_feat_(self, y, x):
        for g in range(x.shape[1]):
            y[g] = S(uf(self.name, [x[i, g].e for i in self.idx]))
    def fill_deriv_(self, dfdx, dfdy, x):
        for g in range(x.shape[1]):
            args = [x[i, g].e for i in self.idx]
            for k, i in enumerate(self.idx):
                dfdx[i, g] = dfdx[i, g] + dfdy[g] * S(E("uf", self.name + ".d%d" % k, tuple(args)))

class AbsEval(FuncEvaluator):
    def __call__(self, X1, res=None, dres=None):
        X = X1.reshape(-1, X1.shape[-1]); r = res.reshape(-1); d = dres.reshape(-1, X1.shape[-1])
        for g in range(X.shape[0]):
            args = tuple(x.e for x in X[g])
            r[g] = r[g] + S(E("uf", "F", args))
            for i in range(X.shape[1]):
                d[g, i] = d[g, i] + S(E("uf", "F.d%d" % i, args))
        return res, dres

def abs_baseline(name):
    def base(X0T):
        nspin, nfeat, ns = X0T.shape
        e = np.empty(ns, dtype=object); de = np.empty(X0T.shape, dtype=object)
        for g in range(ns):
            args = tuple(X0T[s, i, g].e for s in range(nspin) for i in range(nfeat))
            e[g] = S(E("uf", name, args))
            k = 0
            for s in range(nspin):
                for i in range(nfeat):
                    de[s, i, g] = S(E("uf", name + ".d%d" % k, args)); k += 1
        return e, de
    return base

class AbsNormList(fn.FeatNormalizerList):
    """contract stub: xn[s,i,g] = N_i(x[s,i,g], x[s,0,g], x[s,1,g], x[s,2,g])"""
    def __init__(self, n): self.n = n; self._normalizers = [None] * n; self.slmode = "npa"; self.cutoff = 0
    def get_normalized_feature_vector(self, X0T):
        out = np.empty(X0T.shape, dtype=object)
        for s in range(X0T.shape[0]):
            for i in range(self.n):
                for g in range(X0T.shape[2]):
                    args = tuple(X0T[s, j, g].e for j in sorted({i, 0, 1, 2}))
                    out[s, i, g] = S(E("uf", "N%d" % i, args))
        return out
    def get_derivative_wrt_unnormed_features(self, X0T, df):
        out = np.empty(X0T.shape, dtype=object); out[...] = S(ZERO)
        for s in range(X0T.shape[0]):
            for i in range(self.n):
                for g in range(X0T.shape[2]):
                    js = sorted({i, 0, 1, 2}); args = tuple(X0T[s, j, g].e for j in js)
                    for k, j in enumerate(js):
                        out[s, j, g] = out[s, j, g] + df[s, i, g] * S(E("uf", "N%d.d%d" % (i, k), args))
        return out

def run(exp, mode="SEP", nspin=1, slmode="npa"):
    sl = SemilocalSettings(slmode)
    nldf = NLDFSettingsVJ("MGGA", [1.0, 0.0, 0.03125], "one", ["se", "se_ar2"], [[2.0, 0.0, 0.04], [1.0, 0.0, 0.03]])
    st = FeatureSettings(sl_settings=sl, nldf_settings=nldf)
    st.normalizers = AbsNormList(st.nfeat)
    fl = td.FeatureList([AbsMap("y0", [1]), AbsMap("y1", [1, 2]), AbsMap("y2", [3]), AbsMap("y3", [4, 1])])
    mk = MappedDFTKernel([AbsEval()], fl, mode, abs_baseline("M"), abs_baseline("A"))
    mlxc = MappedXC([mk], st)
    class NI(numint.CiderNumIntMixin):
        def __init__(s):
            s.mlxc = mlxc; s.slxc = ""; s.xmix = S(var("xmix")); s.rhocut = S(const(Fraction(1, 10**9)))
            s.sl_plan = SemilocalPlan(st.sl_settings, nspin); s.fl_plan = FracLaplPlan(st.nlof_settings, nspin)
        def _xc_type(s, code): return "HF"
    ni = NI()
    rho = sarr("rho", (nspin, 5, 1)); feat = sarr("F", (nspin, 2, 1))
    for s_ in range(nspin):
        exp.assume += [exp.low(rho[s_, 0, 0].e) > z3.RealVal("1/1000"), exp.low(rho[s_, 4, 0].e) >= 0]
    exp.assume += [z3.Real("PI") > z3.RealVal("3.14159"), z3.Real("PI") < z3.RealVal("3.1416")]
    r_in = rho if nspin == 2 else rho[0]
    exc, (vxc, vnldf, vsdmx) = ni.eval_xc_cider("", r_in, feat if nspin == 2 else feat[0], None)[:2]
    return rho, feat, exc, vxc, vnldf

def go(mode, nspin, slmode, tmo=30000):
    t0 = time.time(); npaths = 0
    for exp, (rho, feat, exc, vxc, vnldf) in explore(lambda e: run(e, mode, nspin, slmode)):
        npaths += 1
        rtot = S(ZERO)
        for s_ in range(nspin): rtot = rtot + rho[s_, 0, 0]
        E_ = (exc[0] * rtot).e
        vx = vxc if nspin == 2 else vxc[None]
        res = []
        targets = [(vx[s_, c, 0].e, rho[s_, c, 0].e) for s_ in range(nspin) for c in range(5)] + [(vnldf[s_, i, 0].e, feat[s_, i, 0].e) for s_ in range(nspin) for i in range(2)]
        for got, x in targets:
            true = diff(E_, x)
            s = z3.Solver(); s.set("timeout", tmo)
            s.add(*exp.assume); s.add(z3.Real("EPS16") == 0)
            for c, d in exp.trace: s.add(c if d else z3.Not(c))
            za, zb = exp.low(got), exp.low(true)
            s.add(*exp.low.side); s.add(za != zb)
            t1 = time.time(); r = s.check(); res.append("%s/%.2f" % (r, time.time() - t1))
        print(mode, nspin, slmode, "path", "".join("TF"[not d] for _, d in exp.trace), res, "%.1fs" % (time.time() - t0), flush=True)
        if npaths >= 3: break
for mode in ["SEP", "NPOL"]:
    for nspin in [1, 2]:
        for slmode in ["nst", "npa"]:
            go(mode, nspin, slmode)
