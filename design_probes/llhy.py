"""Probe: hybrid-memory IR interpreter (real process memory + symbolic overlay buffers).
Checks <A x, y> = <x, B y> for contract_rad_to_orb / contract_orb_to_rad on a real ATCBasis."""
import re, sys, ctypes, time, struct as pystruct
sys.path.insert(0, "/tmp/probe")
import numpy as np, z3
import symx
from symx import *
from llmini import parse, split_args, emit_ir

PRIM = {"i1": 1, "i8": 1, "i16": 2, "i32": 4, "i64": 8, "double": 8, "float": 4}

class Types:
    def __init__(self, path):
        self.structs = {}
        for line in open(path):
            m = re.match(r"(%struct\.[\w.]+) = type \{ (.*) \}", line)
            if m: self.structs[m.group(1)] = split_args(m.group(2))
    def size_align(self, t):
        t = t.strip()
        if t.endswith("*"): return 8, 8
        if t in PRIM: return PRIM[t], PRIM[t]
        if t in self.structs:
            off, al = 0, 1
            for f in self.structs[t]:
                s, a = self.size_align(f); off = (off + a - 1) // a * a + s; al = max(al, a)
            return (off + al - 1) // al * al, al
        m = re.match(r"\[(\d+) x (.*)\]", t)
        if m: s, a = self.size_align(m.group(2)); return int(m.group(1)) * s, a
        raise NotImplementedError(t)
    def field(self, t, i):
        off = 0
        for k, f in enumerate(self.structs[t]):
            s, a = self.size_align(f); off = (off + a - 1) // a * a
            if k == i: return off, f
            off += s

class Mem:
    def __init__(self): self.bufs = []   # (base, nbytes, elemsize, data(list), name, writable)
    def register(self, arr, data, name):
        self.bufs.append((arr.ctypes.data, arr.nbytes, arr.itemsize, data, name)); return arr.ctypes.data
    def find(self, addr):
        for b in self.bufs:
            if b[0] <= addr < b[0] + b[1]: return b
        return None
    def load(self, addr, ty):
        b = self.find(addr)
        if b is not None:
            assert (addr - b[0]) % b[2] == 0; return b[3][(addr - b[0]) // b[2]]
        if ty == "double": return symx.lift(ctypes.c_double.from_address(addr).value)
        if ty == "i32": return ctypes.c_int32.from_address(addr).value
        if ty == "i64": return ctypes.c_int64.from_address(addr).value
        if ty == "i8": return ctypes.c_int8.from_address(addr).value
        if ty.endswith("*"): return ctypes.c_uint64.from_address(addr).value
        raise NotImplementedError(ty)
    def store(self, addr, v):
        b = self.find(addr)
        if b is None: raise RuntimeError("store to unregistered (library-owned) memory at %x" % addr)
        b[3][(addr - b[0]) // b[2]] = v

FLAGS = {"nsw", "nuw", "exact", "fast", "nnan", "ninf", "nsz", "arcp", "contract", "reassoc", "afn", "inbounds", "noundef", "nonnull"}
def toks_of(s): return [t for t in s.replace(",", " ").split() if t not in FLAGS]

class Interp:
    def __init__(self, fns, types, mem): self.fns, self.ty, self.mem, self.n = fns, types, mem, 0
    def val(self, env, ty, tok):
        if tok.startswith("%"): return env[tok]
        if ty == "double":
            if tok.startswith("0x"): return symx.lift(pystruct.unpack(">d", bytes.fromhex(tok[2:].rjust(16, "0")))[0])
            return symx.lift(float(tok))
        if tok == "null": return 0
        if tok in ("true", "false"): return tok == "true"
        return int(tok)
    def call(self, name, args):
        fn = self.fns[name]; env = {p[1]: a for p, a in zip(fn.params, args)}
        cur, prev = fn.order[0], None
        while True:
            for ins in fn.blocks[cur]:
                self.n += 1
                r = self.step(env, ins, prev)
                if r is None: continue
                if r[0] == "br": prev, cur = cur, r[1]; break
                return r[1]
    def step(self, env, ins, prev):
        m = re.match(r"(%[\w.\-]+) = (.*)", ins); dst, rhs = (m.group(1), m.group(2)) if m else (None, ins)
        rhs = re.sub(r", !\w+ !\d+", "", rhs); rhs = re.sub(r", align \d+", "", rhs); rhs = re.sub(r" #\d+$", "", rhs)
        op = rhs.split()[0]
        if op == "phi":
            ty = rhs.split()[1]
            for v, b in re.findall(r"\[\s*([^,\]]+),\s*%([\w.\-]+)\s*\]", rhs):
                if b == prev: env[dst] = self.val(env, ty, v.strip()); return
            raise RuntimeError("phi")
        if op in ("add", "sub", "mul", "shl", "or", "and", "sdiv"):
            t = toks_of(rhs); a, b = self.val(env, t[1], t[2]), self.val(env, t[1], t[3])
            env[dst] = {"add": a + b, "sub": a - b, "mul": a * b, "shl": a << b, "or": a | b, "and": a & b, "sdiv": int(a / b) if b else 0}[op]; return
        if op in ("fadd", "fsub", "fmul", "fdiv"):
            t = toks_of(rhs); a, b = self.val(env, "double", t[2]), self.val(env, "double", t[3])
            env[dst] = {"fadd": symx.add, "fsub": symx.sub, "fmul": symx.mul, "fdiv": symx.div}[op](a, b); return
        if op == "fneg": env[dst] = symx.neg(self.val(env, "double", toks_of(rhs)[-1])); return
        if op in ("sext", "zext", "trunc"): t = toks_of(rhs); env[dst] = self.val(env, t[1], t[2]); return
        if op == "sitofp": t = toks_of(rhs); env[dst] = symx.const(self.val(env, t[1], t[2])); env[dst + "#int"] = self.val(env, t[1], t[2]); return
        if op == "icmp":
            t = toks_of(rhs); a, b = self.val(env, t[2], t[3]), self.val(env, t[2], t[4])
            env[dst] = {"eq": a == b, "ne": a != b, "sgt": a > b, "sge": a >= b, "slt": a < b, "sle": a <= b, "ult": a < b, "ugt": a > b}[t[1]]; return
        if op == "br":
            t = toks_of(rhs)
            if t[1] == "label": return ("br", t[2][1:])
            return ("br", t[4][1:] if self.val(env, "i1", t[2]) else t[6][1:])
        if op == "ret":
            t = toks_of(rhs); return ("ret", None if t[1] == "void" else self.val(env, t[1], t[2]))
        if op == "getelementptr":
            body = rhs[len("getelementptr"):].strip()
            if body.startswith("inbounds"): body = body[len("inbounds"):].strip()
            parts = split_args(body); base_ty = parts[0]
            ptr = self.val(env, "ptr", parts[1].split()[-1])
            idx0 = self.val(env, "i64", parts[2].split()[-1])
            addr = ptr + idx0 * self.ty.size_align(base_ty)[0]
            cur = base_ty
            for p in parts[3:]:
                i = self.val(env, "i32", p.split()[-1])
                if cur in self.ty.structs: off, cur = self.ty.field(cur, i); addr += off
                else: raise NotImplementedError(p)
            env[dst] = addr; return
        if op == "load":
            t = toks_of(rhs); env[dst] = self.mem.load(self.val(env, "ptr", t[-1]), t[1]); return
        if op == "store":
            t = toks_of(rhs); self.mem.store(self.val(env, "ptr", t[-1]), self.val(env, t[1], t[2])); return
        if op in ("call", "tail"):
            m2 = re.search(r"call (?:\w+ )*?(\S+) @([\w.]+)\((.*)\)", rhs)
            name, args = m2.group(2), split_args(m2.group(3))
            vals = []
            for a in args:
                t = toks_of(a); vals.append(self.val(env, t[0], t[-1]))
            if name == "exp": env[dst] = symx.fexp(vals[0]) if not symx.is_const(vals[0]) else symx.lift(float(np.exp(float(vals[0].args[0]))))
            elif name == "pow":
                import math
                if symx.is_const(vals[0]) and symx.is_const(vals[1]): env[dst] = symx.lift(math.pow(float(vals[0].args[0]), float(vals[1].args[0])))
                else: raise NotImplementedError("symbolic pow")
            elif name == "llvm.fmuladd.f64": env[dst] = symx.add(symx.mul(vals[0], vals[1]), vals[2])
            elif name in self.fns: env[dst] = self.call(name, vals)
            else: raise NotImplementedError("call " + name)
            return
        raise NotImplementedError(ins)

def linear_coeffs(e, xs):
    """expression is linear in vars xs with constant coefficients: return dict var->Fraction"""
    out = {}
    for x in xs:
        d = symx.diff(e, x)
        assert symx.is_const(d), d.op
        out[x] = d.args[0]
    return out

if __name__ == "__main__":
    import numpy
    import ciderpress.lib.load as L, ciderpress.lib as LL
    def load_library(name): return numpy.ctypeslib.load_library(name, "/tmp/probe/build")
    L.load_library = load_library; LL.load_library = load_library
    import ciderpress.dft.lcao_convolutions as lc
    # two atoms, lmax 1 and 0, small even-tempered ladders (repo helper builds the lists)
    etb_list = [[(0, 2, 0.5, 2.0), (1, 1, 0.7, 2.0)], [(0, 1, 0.9, 2.0)]]
    atco = lc.ATCBasis(*lc.get_gamma_lists_from_etb_list(etb_list))
    nao, nbas = atco.nao, atco.nbas
    print("real ATCBasis: nao", nao, "nbas", nbas, "ptr", hex(ctypes.cast(atco.atco_c_ptr, ctypes.c_void_p).value))
    lmax = 1; nlm = (lmax + 1) ** 2; nalpha = 2; stride = 3; offset = 1
    rads = np.ascontiguousarray(np.array([0.3, 0.9, 0.4, 1.1, 1.7])); nrad = rads.size
    ra_loc = np.array([0, 2, 5], dtype=np.int32); ar_loc = np.array([0, 0, 1, 1, 1], dtype=np.int32)
    t0 = time.time()
    emit_ir("/repo/ciderpress/lib/mod_cider/convolutions.c", "/tmp/probe/conv.ll", extra=["-I/repo/ciderpress/lib/mod_cider"])
    fns = parse("/tmp/probe/conv.ll"); types = Types("/tmp/probe/conv.ll")
    print("IR emitted+parsed %.1fs; sizeof(atc_basis_set)=%d sizeof(atc_atom)=%d" % (time.time() - t0, types.size_align("%struct.atc_basis_set")[0], types.size_align("%struct.atc_atom")[0]))
    aptr = ctypes.cast(atco.atco_c_ptr, ctypes.c_void_p).value

    def run(fname, theta_data, p_data, loc):
        mem = Mem()
        th = np.zeros((nrad, nlm, nalpha)); pu = np.zeros((nao, stride))
        mem.register(th, theta_data, "theta"); mem.register(pu, p_data, "p_uq")
        it = Interp(fns, types, mem)
        it.call(fname, [th.ctypes.data, pu.ctypes.data, loc.ctypes.data, rads.ctypes.data, nrad, nlm, aptr, nalpha, stride, offset])
        return it.n
    # forward: theta symbolic x, p zero
    xs = [var("x%d" % i) for i in range(nrad * nlm * nalpha)]
    pf = [ZERO] * (nao * stride)
    n1 = run("contract_rad_to_orb", list(xs), pf, ra_loc)
    # backward: p symbolic y (only the [offset:offset+nalpha] columns matter), theta zero
    ys = [var("y%d" % i) for i in range(nao * stride)]
    tb = [ZERO] * (nrad * nlm * nalpha)
    n2 = run("contract_orb_to_rad", tb, list(ys), ar_loc)
    print("interpreted", n1, "+", n2, "instructions, %.1fs" % (time.time() - t0))
    # <A x, y> over the written columns vs <x, B y>
    lhs = ZERO
    for u in range(nao):
        for q in range(nalpha):
            k = u * stride + offset + q
            lhs = add(lhs, mul(pf[k], ys[k]))
    rhs = ZERO
    for i, x in enumerate(xs): rhs = add(rhs, mul(x, tb[i]))
    symx.EXP = Explorer(); exp = symx.EXP
    print("adjoint identity (exact):", check_equal(exp, lhs, rhs)[:2])
    # untouched columns of p stay zero in fwd (no write outside [offset, offset+nalpha))
    print("fwd writes outside window:", sum(1 for u in range(nao) for c in range(stride) if not (offset <= c < offset + nalpha) and pf[u * stride + c] is not ZERO))
    # translator validation: concrete x through interpreter == compiled library through the real wrapper
    rng = np.random.default_rng(1); xc = rng.normal(size=(nrad, nlm, nalpha))
    p_real = np.zeros((nao, stride))
    atco.convert_rad2orb_(xc, p_real, ra_loc, rads, rad2orb=True, offset=offset)
    sub_ = {x: symx.const(Fraction(float(v))) for x, v in zip(xs, xc.ravel())}
    def ev(e, memo={}):
        if e.op == "const": return float(e.args[0])
        if e.op == "var": return float(xc.ravel()[int(e.args[0][1:])])
        k = id(e)
        if k in memo: return memo[k]
        r = ev(e.args[0]) + ev(e.args[1]) if e.op == "add" else ev(e.args[0]) * ev(e.args[1])
        memo[k] = r; return r
    p_int = np.array([ev(e) for e in pf]).reshape(nao, stride)
    print("interpreter vs compiled .so max abs diff:", np.abs(p_int - p_real).max())
