import z3, time
# (2) thread partition: every g in [0,n) is owned by exactly one thread t in [0,T)
n, T, g, t, t2 = z3.Ints("n T g t t2")
L = (n + T - 1) / T   # z3 Int division: floor for positive divisor
def owns(tt): 
    ig0 = tt * L
    ig1 = z3.If(ig0 + L < n, ig0 + L, n)
    return z3.And(ig0 <= g, g < ig1)
s = z3.Solver(); s.set("timeout", 60000)
s.add(T >= 1, T <= 64, n >= 0, n <= 100000, 0 <= g, g < n)
# no owner:
s.push(); s.add(z3.ForAll([t], z3.Implies(z3.And(0 <= t, t < T), z3.Not(owns(t)))))
t0 = time.time(); print("cover:", s.check(), time.time() - t0); s.pop()
s.push(); s.add(0 <= t, t < T, 0 <= t2, t2 < T, t != t2, owns(t), owns(t2))
t0 = time.time(); print("disjoint:", s.check(), time.time() - t0); s.pop()
# quantifier-free cover: witness t = g / L
s.push(); s.add(L >= 1); w = g / L; s.add(z3.Not(z3.And(0 <= w, w < T, owns(w))))
t0 = time.time(); print("cover-witness:", s.check(), time.time() - t0); s.pop()

# (1) FFT layout: r2c inplace batch_last, ndim=3: dst index == FFTW expected index
n0, n1, n2, nt, i0, i1, i2, b = z3.Ints("n0 n1 n2 nt i0 i1 i2 b")
s = z3.Solver(); s.set("timeout", 60000)
s.add(n0 >= 1, n1 >= 1, n2 >= 1, nt >= 1, n0 <= 64, n1 <= 64, n2 <= 64, nt <= 8)
s.add(0 <= i0, i0 < n0, 0 <= i1, i1 < n1, 0 <= i2, i2 < n2, 0 <= b, b < nt)
src = ((i0 * n1 + i1) * n2 + i2) * nt + b           # numpy C-order (dims..., nt)
last_dim = n2 * nt; last_dim1 = 2 * (n2 / 2 + 1) * nt
row = i0 * n1 + i1
# copy: dst[i*last_dim1 + j] = src[i*last_dim + j], i=row, j = i2*nt+b
j = i2 * nt + b
dst = row * last_dim1 + j
fftw = (row * (2 * (n2 / 2 + 1)) + i2) * nt + b      # stride nt, dist 1, padded last dim
s.push(); s.add(z3.Or(src != row * last_dim + j, dst != fftw, j >= last_dim))
t0 = time.time(); print("fft layout:", s.check(), time.time() - t0); s.pop()
