import sys, time; sys.path.insert(0, "/tmp/probe")
import numpy as np, z3
import symx, ctx
from symx import *
C = ctx.SymContext()
with C:
    import ciderpress.lib.load as L
    L.load_library = lambda name: ctx.FakeLib(name)
    import ciderpress.lib as LL
    LL.load_library = L.load_library
    t0 = time.time()
    import ciderpress.pyscf.numint as numint
    print("symbolic import of numint ok", time.time() - t0)
    from ciderpress.dft.settings import SemilocalSettings, FeatureSettings, NLDFSettingsVJ
    from ciderpress.dft import transform_data as td
    from ciderpress.dft.xc_evaluator import MappedXC, MappedDFTKernel, FuncEvaluator
    from ciderpress.dft.baselines import lda_x, zero_xc, gga_x_pbe
    from ciderpress.dft.plans import SemilocalPlan, FracLaplPlan
print(type(numint.np), numint.DEFAULT_RHOCUT)

class AbsEval(FuncEvaluator):
    """uninterpreted differentiable f(X1 row): here a concrete-but-generic polynomial with symbolic coefs"""
    def __init__(self, n): self.n = n
    def __call__(self, X1, res=None, dres=None):
        X = X1.reshape(-1, X1.shape[-1])
        r = res.reshape(-1); d = dres.reshape(-1, X1.shape[-1])
        for g in range(X.shape[0]):
            # f = c0 + sum_i c_i x_i + sum_{i<=j} c_ij x_i x_j  (generic quadratic: stands in for UF in this probe)
            f = S(var("c0")); 
            for i in range(self.n):
                f = f + S(var("c%d" % i)) * X[g, i]
                d[g, i] = d[g, i] + S(var("c%d" % i))
                for j in range(i, self.n):
                    cij = S(var("c%d_%d" % (i, j)))
                    f = f + cij * X[g, i] * X[g, j]
                    d[g, i] = d[g, i] + cij * X[g, j]
                    d[g, j] = d[g, j] + cij * X[g, i]
            r[g] = r[g] + f
        return res, dres

def run(exp, mode="SEP", nspin=1, slmode="npa"):
    sl = SemilocalSettings(slmode)
    nldf = NLDFSettingsVJ("MGGA", [1.0, 0.0, 0.03125], "one", ["se", "se_ar2"], [[2.0, 0.0, 0.04], [1.0, 0.0, 0.03]])
    st = FeatureSettings(sl_settings=sl, nldf_settings=nldf)
    st.assign_reasonable_normalizer()
    fl = td.FeatureList([td.UMap(1, S(var("g1"))), td.TMap(1, 2), td.VMap(3, S(var("g3")), scale=2.0, center=1.0), td.UMap(4, S(var("g4")))])
    mk = MappedDFTKernel([AbsEval(4)], fl, mode, gga_x_pbe, zero_xc)
    mlxc = MappedXC([mk], st)
    class NI(numint.CiderNumIntMixin):
        def __init__(s):
            s.mlxc = mlxc; s.slxc = ""; s.xmix = S(var("xmix")); s.rhocut = S(const(Fraction(1, 10**9)))
            s.sl_plan = SemilocalPlan(st.sl_settings, nspin); s.fl_plan = FracLaplPlan(st.nlof_settings, nspin)
        def _xc_type(s, code): return "HF"
    ni = NI()
    rho = sarr("rho", (nspin, 5, 1)); feat = sarr("F", (nspin, 2, 1))
    for s_ in range(nspin):
        exp.assume += [exp.low(rho[s_, 0, 0].e) > z3.RealVal("1/1000"), exp.low(rho[s_, 4, 0].e) >= 0]
        for i in range(2): exp.assume.append(exp.low(feat[s_, i, 0].e) > 0)
    exp.assume += [z3.Real("g1") > 0, z3.Real("g3") > 0, z3.Real("g4") > 0, z3.Real("PI") > z3.RealVal("3.14159"), z3.Real("PI") < z3.RealVal("3.1416")]
    r_in = rho if nspin == 2 else rho[0]
    exc, (vxc, vnldf, vsdmx) = ni.eval_xc_cider("", r_in, feat if nspin == 2 else feat[0], None)[:2]
    return rho, feat, exc, vxc, vnldf

for mode in ["SEP", "NPOL"]:
  for nspin in [1, 2]:
    t0 = time.time()
    for exp, (rho, feat, exc, vxc, vnldf) in explore(lambda e: run(e, mode, nspin)):
        rtot = S(ZERO)
        for s_ in range(nspin): rtot = rtot + rho[s_, 0, 0]
        E = (exc[0] * rtot).e
        vx = vxc if nspin == 2 else vxc[None]
        res = []
        for s_ in range(nspin):
            for c in range(5):
                true = diff(E, rho[s_, c, 0].e)
                r, t, m = check_equal(exp, vx[s_, c, 0].e, true, extra=[z3.Real("EPS16") == 0] if False else [])
                res.append(str(r))
            for i in range(2):
                true = diff(E, feat[s_, i, 0].e)
                r, t, m = check_equal(exp, vnldf[s_, i, 0].e, true)
                res.append(str(r))
        print(mode, nspin, "path", [d for _, d in exp.trace], res, "%.1fs" % (time.time() - t0))
