import sys; sys.path.insert(0, "/tmp/probe")
import numpy as np, symx
from symx import *
symx.EXP = Explorer()
a = sarr("a", (2, 3, 2)); b = sarr("b", (2, 3, 2))
tests = {
 "einsum": lambda: np.einsum("sx...,sx...->s...", a, b),
 "einsum2": lambda: np.einsum("xg,xg->g", a[0], b[0]),
 "mean": lambda: a.mean(0),
 "sum": lambda: a.sum(axis=1),
 "dot": lambda: np.dot(a[0].T, b[0]),
 "matmul": lambda: a[0].T @ b[0],
 "concat": lambda: np.concatenate([a, b], axis=0),
 "stack": lambda: np.stack([a[0], b[0]]),
 "reshape": lambda: a.reshape(6, 2),
 "abs": lambda: np.abs(a),
 "maximum": lambda: np.maximum(a, 1e-10),
 "clip": lambda: np.clip(a, -1e10, 1e10),
 "sqrt": lambda: np.sqrt(a),
 "exp": lambda: np.exp(a),
 "log": lambda: np.log(a),
 "power": lambda: np.power(a, 2),
 "isnan": lambda: np.isnan(a),
 "lt": lambda: a < 1e-10,
 "cumsum": lambda: np.cumsum(a[0, :, 0]),
 "diag": lambda: np.diag(a[0, :2, :2]),
 "tile": lambda: np.tile(a[0], (2, 1, 1)),
 "zeros_like": lambda: np.zeros_like(a),
 "copy": lambda: a.copy(),
 "iadd": lambda: a.__iadd__(b),
 "imul_float": lambda: a.__imul__(0.5),
 "where": lambda: np.where(np.array([[True, False, True]]*2)[..., None], a, b),
}
for k, f in tests.items():
    try:
        r = f(); print(k, "ok", getattr(r, "dtype", None), getattr(r, "shape", None))
    except Exception as e:
        print(k, "FAIL", type(e).__name__, str(e)[:100])
