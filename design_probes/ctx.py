"""Symbolic import context: load ciderpress.* (and chosen 3rd-party) through the literal transformer."""
import sys, importlib, importlib.abc, importlib.machinery, importlib.util, types, ast
import numpy as np
import symx
from symx import *

class FakeFn:
    def __init__(self, name): self.name = name; self.restype = None; self.argtypes = None
    def __call__(self, *a, **k): raise RuntimeError("C call not bridged: " + self.name)
class FakeLib:
    def __init__(self, name): self._name = name; self._fns = {}
    def __getattr__(self, k):
        if k.startswith("_"): raise AttributeError(k)
        return self._fns.setdefault(k, FakeFn(self._name + "." + k))

class SymLoader(importlib.abc.Loader):
    def __init__(self, path, ispkg): self.path, self.ispkg = path, ispkg
    def create_module(self, spec): return None
    def exec_module(self, module):
        src = open(self.path).read()
        tree = LitT().visit(ast.parse(src)); ast.fix_missing_locations(tree)
        module.__dict__.update({"_Q": symx._Q, "_DIV": symx._DIV})
        exec(compile(tree, self.path, "exec"), module.__dict__)
        if "np" in module.__dict__ and module.__dict__["np"] is np: module.np = NP()
        if "numpy" in module.__dict__ and module.__dict__["numpy"] is np: module.numpy = NP()

class SymFinder(importlib.abc.MetaPathFinder):
    def __init__(self, prefixes): self.prefixes = prefixes
    def find_spec(self, name, path, target=None):
        if not any(name == p or name.startswith(p + ".") for p in self.prefixes): return None
        spec = importlib.machinery.PathFinder.find_spec(name, path)
        if spec is None or not spec.origin or not spec.origin.endswith(".py"): return spec
        ispkg = spec.submodule_search_locations is not None
        return importlib.util.spec_from_file_location(name, spec.origin, loader=SymLoader(spec.origin, ispkg),
                                                      submodule_search_locations=spec.submodule_search_locations)

class SymContext:
    def __init__(self, prefixes=("ciderpress",)): self.prefixes = prefixes; self.mods = {}
    def __enter__(self):
        self.saved = {k: v for k, v in sys.modules.items() if any(k == p or k.startswith(p + ".") for p in self.prefixes)}
        for k in self.saved: del sys.modules[k]
        sys.modules.update(self.mods)
        self.finder = SymFinder(self.prefixes); sys.meta_path.insert(0, self.finder)
        return self
    def __exit__(self, *a):
        sys.meta_path.remove(self.finder)
        self.mods = {k: v for k, v in sys.modules.items() if any(k == p or k.startswith(p + ".") for p in self.prefixes)}
        for k in self.mods: del sys.modules[k]
        sys.modules.update(self.saved)
