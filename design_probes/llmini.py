"""Probe: minimal LLVM-IR symbolic interpreter (buffer mode) over the symx DAG."""
import re, sys, subprocess, time
sys.path.insert(0, "/tmp/probe")
import numpy as np, z3
import symx
from symx import *

def emit_ir(cfile, out, extra=()):
    cmd = ["clang", "-O1", "-fno-vectorize", "-fno-slp-vectorize", "-fno-unroll-loops", "-S", "-emit-llvm",
           "-fno-discard-value-names", "-I/tmp/probe/inc", cfile, "-o", out, "-w"] + list(extra)
    subprocess.check_call(cmd)

class Fn:
    def __init__(self, name, params): self.name, self.params, self.blocks, self.order = name, params, {}, []

def parse(path):
    fns = {}; cur = None; blk = None
    for line in open(path):
        line = line.rstrip("\n")
        m = re.match(r"define .*@([\w.]+)\((.*)\)[^{]*\{", line)
        if m:
            params = []
            for p in split_args(m.group(2)):
                toks = p.split()
                params.append((toks[0], toks[-1]))
            cur = Fn(m.group(1), params); fns[cur.name] = cur; blk = None; continue
        if cur is None: continue
        if line.startswith("}"): cur = None; continue
        m = re.match(r"^([\w.\-]+):", line)
        if m:
            blk = m.group(1); cur.blocks[blk] = []; cur.order.append(blk); continue
        s = line.split(";")[0].strip()
        if not s: continue
        if blk is None:
            blk = "entry"; cur.blocks[blk] = []; cur.order.append(blk)
        cur.blocks[blk].append(s)
    return fns

def split_args(s):
    out, depth, cur = [], 0, ""
    for ch in s:
        if ch in "([{<": depth += 1
        if ch in ")]}>": depth -= 1
        if ch == "," and depth == 0: out.append(cur.strip()); cur = ""
        else: cur += ch
    if cur.strip(): out.append(cur.strip())
    return out

class Ptr:
    def __init__(self, obj, off): self.obj, self.off = obj, off   # off in elements
    def __repr__(self): return "Ptr(%s,%s)" % (self.obj.name, self.off)
class Obj:
    def __init__(self, name, data): self.name, self.data = name, data
    def chk(self, i):
        if not (0 <= i < len(self.data)): raise IndexError("OOB %s[%d] len %d" % (self.name, i, len(self.data)))

def fval(tok):
    try: return symx.lift(float(tok))
    except ValueError:
        if tok.startswith("0x"):
            import struct
            return symx.lift(struct.unpack(">d", bytes.fromhex(tok[2:].rjust(16, "0")))[0])
        raise

class Interp:
    def __init__(self, fns): self.fns = fns; self.ninstr = 0
    def val(self, env, ty, tok):
        tok = tok.strip()
        if tok.startswith("%"): return env[tok]
        if ty.startswith("i"): return int(tok) if tok not in ("true", "false") else (tok == "true")
        if ty == "double": return fval(tok)
        if tok == "null": return None
        raise NotImplementedError((ty, tok))
    def call(self, name, args):
        fn = self.fns[name]
        env = {p[1]: a for p, a in zip(fn.params, args)}
        cur, prev = fn.order[0], None
        while True:
            for ins in fn.blocks[cur]:
                self.ninstr += 1
                r = self.step(fn, env, ins, prev)
                if r is None: continue
                if r[0] == "br": prev, cur = cur, r[1]; break
                if r[0] == "ret": return r[1]
    def step(self, fn, env, ins, prev):
        m = re.match(r"(%[\w.\-]+) = (.*)", ins)
        dst, rhs = (m.group(1), m.group(2)) if m else (None, ins)
        op = rhs.split()[0]
        if op == "phi":
            ty = rhs.split()[1]
            for v, b in re.findall(r"\[\s*([^,\]]+),\s*%([\w.\-]+)\s*\]", rhs):
                if b == prev: env[dst] = self.val(env, ty, v); return
            raise RuntimeError("phi no pred " + ins)
        if op in ("add", "sub", "mul", "sdiv", "shl", "and", "or"):
            toks = rhs.replace(",", " ").split(); toks = [t for t in toks if t not in ("nsw", "nuw", "exact")]
            ty, a, b = toks[1], self.val(env, toks[1], toks[2]), self.val(env, toks[1], toks[3])
            env[dst] = {"add": a + b, "sub": a - b, "mul": a * b, "shl": a << b, "and": a & b, "or": a | b}.get(op) if op != "sdiv" else int(a / b); return
        if op in ("fadd", "fsub", "fmul", "fdiv"):
            toks = [t for t in rhs.replace(",", " ").split() if t not in ("fast", "nnan", "ninf", "nsz", "arcp", "contract", "reassoc", "afn")]
            a, b = self.val(env, "double", toks[2]), self.val(env, "double", toks[3])
            env[dst] = {"fadd": symx.add, "fsub": symx.sub, "fmul": symx.mul, "fdiv": symx.div}[op](a, b); return
        if op == "fneg":
            env[dst] = symx.neg(self.val(env, "double", rhs.split()[-1])); return
        if op in ("sext", "zext", "trunc"):
            toks = rhs.split(); env[dst] = self.val(env, toks[1], toks[2]); return
        if op == "icmp":
            toks = rhs.replace(",", " ").split(); pred, ty = toks[1], toks[2]
            a, b = self.val(env, ty, toks[3]), self.val(env, ty, toks[4])
            env[dst] = {"eq": a == b, "ne": a != b, "sgt": a > b, "sge": a >= b, "slt": a < b, "sle": a <= b, "ult": a < b, "ugt": a > b}[pred]; return
        if op == "br":
            toks = rhs.replace(",", " ").split()
            if toks[1] == "label": return ("br", toks[2][1:])
            c = self.val(env, "i1", toks[2]); return ("br", toks[4][1:] if c else toks[6][1:])
        if op == "ret":
            toks = rhs.split(); return ("ret", None if toks[1] == "void" else self.val(env, toks[1], toks[2]))
        if op == "getelementptr":
            m2 = re.match(r"getelementptr (?:inbounds )?(\w+), \w+\* (%[\w.\-]+), (i\d+) (\S+)$", rhs)
            base = env[m2.group(2)]; idx = self.val(env, m2.group(3), m2.group(4))
            env[dst] = Ptr(base.obj, base.off + idx); return
        if op == "load":
            p = env[rhs.replace(",", " ").split()[3]]; p.obj.chk(p.off); env[dst] = p.obj.data[p.off]; return
        if op == "store":
            toks = rhs.replace(",", " ").split(); v = self.val(env, toks[1], toks[2]); p = env[toks[4]]
            p.obj.chk(p.off); p.obj.data[p.off] = v; return
        if op in ("call", "tail"):
            m2 = re.search(r"call (?:\w+ )*?(\S+) @([\w.]+)\((.*)\)", rhs)
            rty, name, args = m2.group(1), m2.group(2), split_args(m2.group(3))
            vals = []
            for a in args:
                toks = [t for t in a.split() if t not in ("noundef", "nonnull")]
                vals.append(self.val(env, toks[0], toks[-1]))
            if name == "exp": env[dst] = symx.fexp(vals[0])
            elif name == "llvm.fmuladd.f64": env[dst] = symx.add(symx.mul(vals[0], vals[1]), vals[2])
            elif name == "sqrt": env[dst] = symx.rpow(vals[0], Fraction(1, 2))
            elif name in self.fns: env[dst] = self.call(name, vals)
            else: raise NotImplementedError("call " + name)
            return
        raise NotImplementedError(ins)

def symbuf(name, n, sym=True):
    return Obj(name, [var("%s%d" % (name, i)) if sym else ZERO for i in range(n)])

if __name__ == "__main__":
    t0 = time.time()
    emit_ir("/repo/ciderpress/lib/mod_cider/model_utils.c", "/tmp/probe/mu.ll")
    fns = parse("/tmp/probe/mu.ll")
    print("parsed", list(fns), "%.2fs" % (time.time() - t0))
    n, nctrl, nfeat = 1, 2, 2
    out, outd = symbuf("out0_", n), symbuf("outd0_", n * nfeat)
    out0 = list(out.data); outd0 = list(outd.data)
    xin, xc, ac, ex = symbuf("x", n * nfeat), symbuf("c", nctrl * nfeat), symbuf("a", nctrl), symbuf("e", nfeat)
    it = Interp(fns)
    it.call("evaluate_se_kernel", [Ptr(out, 0), Ptr(outd, 0), Ptr(xin, 0), Ptr(xc, 0), Ptr(ac, 0), Ptr(ex, 0), n, nctrl, nfeat])
    print("interpreted", it.ninstr, "instructions")
    # oracle: out - out0 = sum_t a_t exp(-sum_j e_j (x_j - c_tj)^2); outd - outd0 = d/dx
    symx.EXP = Explorer(); exp = symx.EXP
    val = sub(out.data[0], out0[0])
    for j in range(nfeat):
        true = diff(val, xin.data[j])
        got = sub(outd.data[j], outd0[j])
        print("d/dx%d" % j, check_equal(exp, got, true)[:2])
    # reference sum built independently
    ref = ZERO
    for t in range(nctrl):
        arg = ZERO
        for j in range(nfeat):
            d = sub(xin.data[j], xc.data[t * nfeat + j]); arg = add(arg, mul(ex.data[j], mul(d, d)))
        ref = add(ref, mul(ac.data[t], fexp(neg(arg))))
    print("value vs reference:", check_equal(exp, val, ref)[:2])
    # OOB detection: too-short exps buffer
    try:
        it.call("evaluate_se_kernel", [Ptr(out, 0), Ptr(outd, 0), Ptr(xin, 0), Ptr(xc, 0), Ptr(ac, 0), Ptr(symbuf("e", 1), 0), n, nctrl, nfeat])
    except IndexError as e: print("bounds check fires:", e)
    # congruence axioms between exp atoms
    ats = [a for a in getattr(exp.low, "atoms", []) if a[0] == "exp"]
    cong = [z3.Implies(a1[1] == a2[1], a1[2] == a2[2]) for i, a1 in enumerate(ats) for a2 in ats[i + 1:]]
    print("exp atoms", len(ats), "value vs reference with congruence:", check_equal(exp, val, ref, extra=cong)[:2])
