import sys, time; sys.path.insert(0, "/tmp/probe")
exec(open("/tmp/probe/l1.py").read().split("for mode in")[0])
import itertools
def go(mode, nspin, slmode, tmo=30000):
    t0 = time.time()
    for exp, (rho, feat, exc, vxc, vnldf) in explore(lambda e: run(e, mode, nspin, slmode)):
        rtot = S(ZERO)
        for s_ in range(nspin): rtot = rtot + rho[s_, 0, 0]
        E = (exc[0] * rtot).e
        vx = vxc if nspin == 2 else vxc[None]
        res = []
        targets = [(vx[s_, c, 0].e, rho[s_, c, 0].e) for s_ in range(nspin) for c in range(5)] + [(vnldf[s_, i, 0].e, feat[s_, i, 0].e) for s_ in range(nspin) for i in range(2)]
        for got, x in targets:
            true = diff(E, x)
            s = z3.Solver(); s.set("timeout", tmo)
            s.add(*exp.assume); s.add(z3.Real("EPS16") == 0)
            for c, d in exp.trace: s.add(c if d else z3.Not(c))
            za, zb = exp.low(got), exp.low(true)
            s.add(*exp.low.side); s.add(za != zb)
            t1 = time.time(); r = s.check(); res.append("%s/%.1f" % (r, time.time() - t1))
        print(mode, nspin, slmode, "path", "".join("TF"[not d] for _, d in exp.trace), res, "%.1fs" % (time.time() - t0), "atoms", exp.low.n, flush=True)
        break
go("SEP", 1, "nst")
go("SEP", 1, "npa")
