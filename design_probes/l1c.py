import sys, time; sys.path.insert(0, "/tmp/probe")
exec(open("/tmp/probe/l1.py").read().split("for mode in")[0])
import sympy as sp
def to_sympy(e, memo, rels):
    k = id(e)
    if k in memo: return memo[k]
    op = e.op
    if op == "const": r = sp.Rational(e.args[0].numerator, e.args[0].denominator)
    elif op == "var": r = sp.Symbol(e.args[0], positive=True) if e.args[0] != "EPS16" else sp.Integer(0)
    elif op == "add": r = to_sympy(e.args[0], memo, rels) + to_sympy(e.args[1], memo, rels)
    elif op == "mul": r = to_sympy(e.args[0], memo, rels) * to_sympy(e.args[1], memo, rels)
    elif op == "inv": r = 1 / to_sympy(e.args[0], memo, rels)
    elif op == "root":
        a = to_sympy(e.args[0], memo, rels); q = e.args[1]
        r = sp.Symbol("R%d" % len(rels), positive=True); rels.append((r, q, a))
    else: raise NotImplementedError(op)
    memo[k] = r
    return r
def is_zero(expr, rels):
    t0 = time.time()
    num, den = sp.fraction(sp.together(expr))
    num = sp.expand(num)
    for r, q, a in reversed(rels):
        na, da = sp.fraction(sp.together(a))
        if not num.has(r): continue
        p = sp.Poly(num, r)
        # pseudo-reduce r^q -> na/da
        coeffs = p.all_coeffs()[::-1]  # ascending
        deg = len(coeffs) - 1
        kmax = deg // q
        new = 0
        for j, c in enumerate(coeffs):
            k_, rem_ = divmod(j, q)
            new += c * na**k_ * da**(kmax - k_) * r**rem_
        num = sp.expand(new)
    return num == 0, time.time() - t0, len(str(num))
def go(mode, nspin, slmode):
    for exp, (rho, feat, exc, vxc, vnldf) in explore(lambda e: run(e, mode, nspin, slmode)):
        rtot = S(ZERO)
        for s_ in range(nspin): rtot = rtot + rho[s_, 0, 0]
        E = (exc[0] * rtot).e
        vx = vxc if nspin == 2 else vxc[None]
        targets = [(vx[s_, c, 0].e, rho[s_, c, 0].e) for s_ in range(nspin) for c in range(5)] + [(vnldf[s_, i, 0].e, feat[s_, i, 0].e) for s_ in range(nspin) for i in range(2)]
        for got, x in targets:
            true = diff(E, x)
            memo, rels = {}, []
            d = to_sympy(got, memo, rels) - to_sympy(true, memo, rels)
            print(mode, nspin, slmode, is_zero(d, rels), "nrels", len(rels), flush=True)
        break
go("SEP", 1, "nst")
