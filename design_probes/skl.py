import sys; sys.path.insert(0, "/tmp/probe")
import numpy as np, z3
import symx
from symx import *
import sklearn.gaussian_process.kernels as sk
import inspect
# load sklearn kernels + repo kernels symbolically
skm = load_symbolic("sklearn.gaussian_process.kernels", inspect.getsourcefile(sk))
print("loaded sklearn sym")
# stubs
def cdist(XA, XB, metric="euclidean"):
    assert metric == "sqeuclidean"
    XA = np.asarray(XA, dtype=object); XB = np.asarray(XB, dtype=object)
    out = np.empty((XA.shape[0], XB.shape[0]), dtype=object)
    for i in range(XA.shape[0]):
        for j in range(XB.shape[0]):
            out[i, j] = sum(((XA[i, k] - XB[j, k]) * (XA[i, k] - XB[j, k]) for k in range(XA.shape[1])), S(ZERO))
    return out
def pdist(X, metric="euclidean"):
    d = cdist(X, X, metric); n = X.shape[0]
    return np.array([d[i, j] for i in range(n) for j in range(i + 1, n)], dtype=object)
def squareform(v):
    import math
    m = len(v); n = int(round((1 + math.sqrt(1 + 8 * m)) / 2))
    out = np.empty((n, n), dtype=object); out[...] = S(ZERO); k = 0
    for i in range(n):
        for j in range(i + 1, n):
            out[i, j] = out[j, i] = v[k]; k += 1
    return out
skm.cdist, skm.pdist, skm.squareform = cdist, pdist, squareform
def _check_length_scale(X, length_scale):
    ls = np.squeeze(np.asarray(length_scale, dtype=object))
    return ls
skm._check_length_scale = _check_length_scale
import types
# repo kernels: load symbolically but make it import the symbolic sklearn module
import ciderpress.models.kernels as rk
src = open(rk.__file__).read()
sys.modules["sklearn.gaussian_process.kernels__orig"] = sk
tree = LitT().visit(ast.parse(src)); ast.fix_missing_locations(tree)
mod = types.ModuleType("kernels__sym"); mod.__dict__.update({"_Q": symx._Q, "_DIV": symx._DIV, "__name__": "kernels__sym"})
sys.modules["sklearn.gaussian_process.kernels"] = skm   # redirect import
try:
    exec(compile(tree, rk.__file__, "exec"), mod.__dict__)
finally:
    sys.modules["sklearn.gaussian_process.kernels"] = sk
mod.np = NP(); mod.cdist = cdist; mod._check_length_scale = _check_length_scale
symx.EXP = Explorer()
ls = sarr("l", (2,))
k = mod.DiffRBF(length_scale=ls)
X = sarr("x", (1, 2)); Y = sarr("y", (2, 2))
K, dK = k.k_and_deriv(X, Y)
print(K.shape, dK.shape, K[0, 0], dK[0, 1, 0])
true = diff(K[0, 1].e, X[0, 0].e)
exp = symx.EXP
print(check_equal(exp, dK[0, 1, 0].e, true)[:2])
# --- eval_gradient wrt theta = log(length_scale) (anisotropic), and 2x2 PSD, and symmetry
symx.EXP = Explorer(); exp = symx.EXP
X2 = sarr("x", (2, 2))
try:
    K, G = k(X2, eval_gradient=True)
    print("eval_gradient shapes", K.shape, G.shape)
    for d in range(2):
        true = mul(ls[d].e, diff(K[0, 1].e, ls[d].e))   # dk/dlog(l) = l dk/dl
        print("dK01/dtheta%d" % d, check_equal(exp, G[0, 1, d].e, true)[:2])
except Exception as e:
    import traceback; traceback.print_exc()
Kxy = k(X2, Y); Kyx = k(Y, X2)
print("k(X,Y)=k(Y,X)^T:", check_equal(exp, Kxy[0, 1].e, Kyx[1, 0].e)[:2])
Kxx = k(X2)
det = sub(mul(Kxx[0, 0].e, Kxx[1, 1].e), mul(Kxx[0, 1].e, Kxx[1, 0].e))
s = z3.Solver(); zd = exp.low(det); s.add(*exp.low.side)
for (op, a, r) in getattr(exp.low, "atoms", []):
    if op == "exp": s.add(z3.Implies(a <= 0, r <= 1))
s.add(z3.Real("l_0") > 0, z3.Real("l_1") > 0); s.add(zd < 0)
print("2x2 PSD (det<0 satisfiable?):", s.check())
