import numpy, numpy as np
import ciderpress.lib.load as L, ciderpress.lib as LL
def load_library(name): return numpy.ctypeslib.load_library(name, "/tmp/probe/build")
L.load_library = load_library; LL.load_library = load_library
from ciderpress.dft import transform_data as td
def t(name, f):
    try: print(name, "->", f())
    except Exception as e: print(name, "RAISES", type(e).__name__, e)
t("OmegaMap roundtrip", lambda: td.FeatureNormalizer.from_dict(td.OmegaMap(0,1,2,1.0,1.0,1.0).as_dict()))
t("ALL_CLASS_DICT keys", lambda: list(td.ALL_CLASS_DICT.keys()))
from ciderpress.dft.settings import *
t("GGA expnt ueg", lambda: NLDFSettingsVJ("GGA", [1.0, 0.1], "expnt", ["se"], [[1.0, 0.1]]).ueg_vector())
t("GGA one ueg", lambda: NLDFSettingsVJ("GGA", [1.0, 0.1], "one", ["se"], [[1.0, 0.1]]).ueg_vector())
from ciderpress.models.kernels import DiffAntisymRBF
X = np.random.rand(3, 4)
t("antisym call", lambda: DiffAntisymRBF(length_scale=np.ones(3))(X, X).shape)
t("antisym k_and_deriv", lambda: DiffAntisymRBF(length_scale=np.ones(3)).k_and_deriv(X, X)[0].shape)
from ciderpress.dft.baselines import BASELINE_CODES
X0T = np.random.rand(1, 3, 5)
for k, f in BASELINE_CODES.items():
    if k == "GGA_C_PBE": continue
    t("baseline " + k, lambda: type(f(X0T)))
from ciderpress.dft.xc_evaluator import MappedDFTKernel, GlobalLinearEvaluator
from ciderpress.dft.baselines import lda_x
mk = MappedDFTKernel([GlobalLinearEvaluator([1.0])], td.FeatureList([td.UMap(1, 0.3)]), "SEP", lda_x)
t("MappedDFTKernel(add=None) call", lambda: mk(X0T)[0].shape)
t("MappedDFTKernel.to_dict", lambda: mk.to_dict())
# VZMap fd
m = td.VZMap(0, 0.5, 8/3, 0.0); x = np.array([[1.0]]); 
def f(xx):
    y = np.zeros(1); m.fill_feat_(y, xx); return y[0]
d = np.zeros((1,1)); m.fill_deriv_(d, np.ones(1), x)
h=1e-6; print("VZMap analytic", d[0,0], "fd", (f(x+h)-f(x-h))/(2*h))
# get_cider_exponent mutation
rho = np.array([1e-12, 1.0]); sigma = np.array([3.0, 3.0]); tau = np.array([2.0, 2.0])
get_cider_exponent(rho, sigma, tau); print("sigma after", sigma, "tau after", tau)
