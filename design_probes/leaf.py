import sys, time; sys.path.insert(0, "/tmp/probe")
import numpy as np, z3
import symx, ctx
from symx import *
C = ctx.SymContext()
with C:
    import ciderpress.lib.load as L
    L.load_library = lambda name: ctx.FakeLib(name)
    import ciderpress.lib as LL
    LL.load_library = L.load_library
    from ciderpress.dft import feat_normalizer as fn
    from ciderpress.dft import baselines as bl
    from ciderpress.dft import settings as st

def cong(exp):
    ats = getattr(exp.low, "atoms", [])
    out = []
    for i, a1 in enumerate(ats):
        for a2 in ats[i + 1:]:
            if a1[0] == a2[0]: out.append(z3.Implies(a1[1] == a2[1], a1[2] == a2[2]))
    return out

# 1. GeneralNormalizer with symbolic powers
def run1(exp):
    x, rho, inh, dy = sarr("x", (1,)), sarr("rho", (1,)), sarr("inh", (1,)), sarr("dy", (1,))
    exp.assume += [exp.low(rho[0].e) > 0, exp.low(inh[0].e) >= 0, z3.Real("c2") > 0, z3.Real("c1") > 0]
    n = fn.GeneralNormalizer(S(var("c1")), S(var("c2")), S(var("p1")), S(var("p2")))
    xn = n.fill_fwd(x, rho, inh)
    dfdx, dfdrho, dfdinh = n.fill_bwd(dy, x, rho, inh, dfdrho=np.array([S(ZERO)], dtype=object), dfdinh=np.array([S(ZERO)], dtype=object))
    return x, rho, inh, dy, xn, dfdx, dfdrho, dfdinh
for exp, (x, rho, inh, dy, xn, dfdx, dfdrho, dfdinh) in explore(run1):
    for got, v in [(dfdx, x), (dfdrho, rho), (dfdinh, inh)]:
        true = mul(dy[0].e, diff(xn[0].e, v[0].e))
        za = exp.low(got[0].e); zb = exp.low(true)
        print("GeneralNormalizer", check_equal(exp, got[0].e, true, extra=cong(exp))[:2])

# 2. chachiyo baseline
def run2(exp):
    X = sarr("X", (1, 3, 1))
    exp.assume += [exp.low(X[0, 0, 0].e) > 0, exp.low(X[0, 1, 0].e) > z3.RealVal("1/1000"), z3.Real("PI") > z3.RealVal("3.14159"), z3.Real("PI") < z3.RealVal("3.1416")]
    e, de = bl.gga_x_chachiyo(X)
    return X, e, de
for exp, (X, e, de) in explore(run2):
    for i in range(2):
        true = diff(e[0].e, X[0, i, 0].e)
        t0 = time.time()
        print("chachiyo path", [d for _, d in exp.trace], "d%d" % i, check_equal(exp, de[0, i, 0].e, true, extra=cong(exp))[:2])

# 3. get_cider_exponent scaling lambda^2 and spin identity
def run3(exp):
    rho, sig, tau = sarr("r", (1,)), sarr("s", (1,)), sarr("t", (1,))
    l = S(var("ell"))  # lambda = ell^3
    exp.assume += [exp.low(rho[0].e) > z3.RealVal("1/1000"), exp.low(sig[0].e) >= 0, exp.low(tau[0].e) >= 0, z3.Real("ell") > 0, z3.Real("a0") > 0, z3.Real("gm") > 0, z3.Real("tm") >= 0,
                   z3.Real("PI") > z3.RealVal("3.14159"), z3.Real("PI") < z3.RealVal("3.1416")]
    a0, gm, tm = S(var("a0")), S(var("gm")), S(var("tm"))
    A = st.get_cider_exponent(rho.copy(), sig.copy(), tau.copy(), a0=a0, grad_mul=gm, tau_mul=tm, rhocut=1e-10, nspin=1)
    lam = l * l * l
    B = st.get_cider_exponent(rho * lam**3, sig * lam**8, tau * lam**5, a0=a0, grad_mul=gm, tau_mul=tm, rhocut=1e-10, nspin=1)
    Cc = st.get_cider_exponent(rho / 2, sig / 4, tau / 2, a0=a0, grad_mul=gm, tau_mul=tm, rhocut=1e-10 / 2, nspin=2)
    return A, B, Cc, lam
for exp, (A, B, Cc, lam) in explore(run3):
    print("scaling path", [d for _, d in exp.trace], check_equal(exp, B[0][0].e, (A[0][0] * lam * lam).e)[:2], "spin", check_equal(exp, Cc[0][0].e, A[0][0].e)[:2], "spin d/drho", check_equal(exp, (Cc[1][0] / 2).e if False else Cc[1][0].e, (A[1][0] * 2).e)[:2])
