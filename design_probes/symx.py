"""Probe 2: exact-real symbolic executor for numpy code.
- own expression DAG (so we can differentiate), lowered to z3 for queries
- rational powers via root atoms, exp/log as opaque atoms with derivative rules
- path forking on SymBool.__bool__ with z3 feasibility
- AST literal transformer (float literals -> exact rationals; int/int -> Fraction)
"""
import ast, sys, types, time, importlib.util, math
from fractions import Fraction
import numpy as np
import z3

# ---------------------------------------------------------------- expression DAG
class E:
    __slots__ = ("op", "args", "_z")
    _cache = {}
    def __new__(cls, op, *args):
        key = (op,) + tuple(id(a) if isinstance(a, E) else (tuple(id(b) for b in a) if isinstance(a, tuple) else a) for a in args)
        o = E._cache.get(key)
        if o is None:
            o = object.__new__(cls)
            o.op, o.args, o._z = op, args, None
            E._cache[key] = o
        return o

def const(q): return E("const", Fraction(q))
def var(name): return E("var", name)
ZERO, ONE = const(0), const(1)

def is_const(e): return e.op == "const"
def add(a, b):
    if is_const(a) and is_const(b): return const(a.args[0] + b.args[0])
    if a is ZERO: return b
    if b is ZERO: return a
    return E("add", a, b)
def mul(a, b):
    if is_const(a) and is_const(b): return const(a.args[0] * b.args[0])
    if a is ZERO or b is ZERO: return ZERO
    if a is ONE: return b
    if b is ONE: return a
    return E("mul", a, b)
def neg(a): return mul(const(-1), a)
def sub(a, b): return add(a, neg(b))
def inv(a):
    if is_const(a): return const(1 / a.args[0])
    return E("inv", a)
def div(a, b): return mul(a, inv(b))
def ipow(a, n):
    if n == 0: return ONE
    if n < 0: return inv(ipow(a, -n))
    r = ONE
    for _ in range(n): r = mul(r, a)
    return r
def root(a, q):      # a**(1/q), a>0
    if q == 1: return a
    return E("root", a, q)
def rpow(a, fr):     # a ** Fraction
    fr = Fraction(fr)
    if fr.denominator == 1: return ipow(a, fr.numerator)
    return ipow(root(a, fr.denominator), fr.numerator)
def fexp(a):
    if a is ZERO: return ONE
    return E("exp", a)
def flog(a):
    if a is ONE: return ZERO
    return E("log", a)

def uf(name, args, dnames=None):
    """uninterpreted differentiable function; partial derivative wrt arg i is uf(name+'.d%d'%i, args)"""
    return E("uf", name, tuple(args))

def diff(e, x, memo=None):
    if memo is None: memo = {}
    k = id(e)
    if k in memo: return memo[k]
    op = e.op
    if op == "const": r = ZERO
    elif op == "var": r = ONE if e is x else ZERO
    elif op == "add": r = add(diff(e.args[0], x, memo), diff(e.args[1], x, memo))
    elif op == "mul":
        a, b = e.args
        r = add(mul(diff(a, x, memo), b), mul(a, diff(b, x, memo)))
    elif op == "inv":
        a = e.args[0]
        r = neg(mul(diff(a, x, memo), mul(e, e)))
    elif op == "root":
        a, q = e.args
        # d a^(1/q) = (1/q) a^(1/q) / a * da
        r = mul(mul(const(Fraction(1, q)), mul(e, inv(a))), diff(a, x, memo))
    elif op == "uf":
        name, args = e.args
        r = ZERO
        for i, a in enumerate(args):
            da = diff(a, x, memo)
            if da is not ZERO:
                r = add(r, mul(E("uf", name + ".d%d" % i, args), da))
    elif op == "exp": r = mul(e, diff(e.args[0], x, memo))
    elif op == "log": r = mul(inv(e.args[0]), diff(e.args[0], x, memo))
    else: raise NotImplementedError(op)
    memo[k] = r
    return r

NATIVE_DIV = True
class Lower:
    """lower DAG to z3 Real terms; collect side constraints for atoms"""
    def __init__(self):
        self.side = []
        self.memo = {}
        self.n = 0
    def __call__(self, e):
        k = id(e)
        if k in self.memo: return self.memo[k]
        op = e.op
        if op == "const": r = z3.RealVal(str(e.args[0]))
        elif op == "var": r = z3.Real(e.args[0])
        elif op == "add": r = self(e.args[0]) + self(e.args[1])
        elif op == "mul": r = self(e.args[0]) * self(e.args[1])
        elif op == "inv":
            a = self(e.args[0])
            if NATIVE_DIV:
                r = 1 / a; self.side.append(a != 0)
            else:
                r = z3.Real("inv%d" % self.n); self.n += 1
                self.side.append(r * a == 1)
        elif op == "root":
            a = self(e.args[0]); q = e.args[1]
            r = z3.Real("root%d" % self.n); self.n += 1
            p = r
            for _ in range(q - 1): p = p * r
            self.side += [r > 0, p == a]
        elif op == "uf":
            for a in e.args[1]: self(a)
            r = z3.Real("uf%d_%s" % (self.n, e.args[0])); self.n += 1
        elif op in ("exp", "log"):
            a = self(e.args[0])
            r = z3.Real("%s%d" % (op, self.n)); self.n += 1
            if op == "exp": self.side.append(r > 0)
            self.atoms = getattr(self, "atoms", []) + [(op, a, r)]
        else: raise NotImplementedError(op)
        self.memo[k] = r
        return r

# ---------------------------------------------------------------- path explorer
class Explorer:
    def __init__(self):
        self.prefix = []; self.trace = []; self.work = []
        self.low = Lower(); self.assume = []
    def decide(self, cond_z3):
        i = len(self.trace)
        if i < len(self.prefix):
            d = self.prefix[i]
        else:
            s = z3.Solver(); s.set("timeout", 5000)
            s.add(*self.assume); s.add(*self.low.side)
            for c, dd in self.trace: s.add(c if dd else z3.Not(c))
            s.push(); s.add(cond_z3); t = s.check(); s.pop()
            s.push(); s.add(z3.Not(cond_z3)); f = s.check(); s.pop()
            t_ok, f_ok = t != z3.unsat, f != z3.unsat
            if t_ok and f_ok:
                self.work.append([dd for _, dd in self.trace] + [False])
                d = True
            else:
                d = t_ok
        self.trace.append((cond_z3, d))
        return d
EXP = None

class SB:
    def __init__(self, z): self.z = z
    def __bool__(self):
        if z3.is_true(self.z): return True
        if z3.is_false(self.z): return False
        return EXP.decide(self.z)
    def __and__(s, o): return SB(z3.And(s.z, o.z))
    def __or__(s, o): return SB(z3.Or(s.z, o.z))
    def __invert__(s): return SB(z3.Not(s.z))

class _NI(Exception): pass
def _ni(f):
    def g(*a):
        try: return f(*a)
        except _NI: return NotImplemented
    return g

def lift(x):
    if isinstance(x, S): return x.e
    if isinstance(x, np.ndarray): raise _NI()
    if isinstance(x, (bool, np.bool_)): return const(int(x))
    if isinstance(x, (int, np.integer)): return const(int(x))
    if isinstance(x, Fraction): return const(x)
    if isinstance(x, (float, np.floating)):
        f = Fraction(float(x))
        g = f.limit_denominator(10**4)
        return const(g if float(g) == float(x) else f)
    raise TypeError(type(x))

class S:
    def __init__(self, e): self.e = e
    @_ni
    def __add__(s, o): return S(add(s.e, lift(o)))
    __radd__ = __add__
    @_ni
    def __sub__(s, o): return S(sub(s.e, lift(o)))
    @_ni
    def __rsub__(s, o): return S(sub(lift(o), s.e))
    @_ni
    def __mul__(s, o): return S(mul(s.e, lift(o)))
    __rmul__ = __mul__
    @_ni
    def __truediv__(s, o): return S(div(s.e, lift(o)))
    @_ni
    def __rtruediv__(s, o): return S(div(lift(o), s.e))
    def __neg__(s): return S(neg(s.e))
    def __pos__(s): return s
    def __abs__(s): return s if bool(s >= 0) else -s
    @_ni
    def __pow__(s, o):
        o = lift(o)
        if is_const(o): return S(rpow(s.e, o.args[0]))
        return S(fexp(mul(o, flog(s.e))))
    @_ni
    def __rpow__(s, o):
        o = lift(o)
        if is_const(s.e): return S(rpow(o, s.e.args[0]))
        return S(fexp(mul(s.e, flog(o))))
    def _cmp(s, o, f):
        a, b = EXP.low(s.e), EXP.low(lift(o))
        return SB(z3.simplify(f(a, b)))
    @_ni
    def __lt__(s, o): return s._cmp(o, lambda a, b: a < b)
    @_ni
    def __le__(s, o): return s._cmp(o, lambda a, b: a <= b)
    @_ni
    def __gt__(s, o): return s._cmp(o, lambda a, b: a > b)
    @_ni
    def __ge__(s, o): return s._cmp(o, lambda a, b: a >= b)
    def sqrt(s): return S(rpow(s.e, Fraction(1, 2)))
    def exp(s): return S(fexp(s.e))
    def log(s): return S(flog(s.e))
    def __float__(s):
        return numeric(s.e)
    def __int__(s): return int(numeric(s.e))
    def __index__(s): return int(numeric(s.e))
    def __repr__(s): return "S<%s>" % s.e.op

def numeric(e):
    import math
    op = e.op
    if op == "const": return float(e.args[0])
    if op == "var":
        if e.args[0] == "PI": return math.pi
        if e.args[0] == "EPS16": return 1e-16
        raise TypeError("symbolic value used as a concrete number: " + e.args[0])
    if op == "add": return numeric(e.args[0]) + numeric(e.args[1])
    if op == "mul": return numeric(e.args[0]) * numeric(e.args[1])
    if op == "inv": return 1.0 / numeric(e.args[0])
    if op == "root": return numeric(e.args[0]) ** (1.0 / e.args[1])
    if op == "exp": return math.exp(numeric(e.args[0]))
    if op == "log": return math.log(numeric(e.args[0]))
    raise TypeError(op)

PI = S(var("PI"))

# ---------------------------------------------------------------- numpy shim
class NP:
    pi = PI
    def __getattr__(self, k): return getattr(np, k)
    def _obj(self, a):
        a = np.asarray(a) if not isinstance(a, np.ndarray) else a
        return a
    def zeros(self, shape, dtype=None, order="C"):
        a = np.empty(shape, dtype=object); a[...] = S(ZERO); return a
    def ones(self, shape, dtype=None, order="C"):
        a = np.empty(shape, dtype=object); a[...] = S(ONE); return a
    def empty(self, shape, dtype=None, order="C"):
        return self.zeros(shape)
    def zeros_like(self, a, **kw): return self.zeros(np.shape(a))
    def ones_like(self, a, **kw): return self.ones(np.shape(a))
    def empty_like(self, a, **kw): return self.zeros(np.shape(a))
    def asarray(self, a, dtype=None, order=None):
        if isinstance(a, np.ndarray): return a
        return np.array(a, dtype=object)

class LitT(ast.NodeTransformer):
    def visit_Constant(self, node):
        if isinstance(node.value, float):
            return ast.copy_location(ast.Call(ast.Name("_Q", ast.Load()), [ast.Constant(repr(node.value))], []), node)
        return node
    def visit_BinOp(self, node):
        self.generic_visit(node)
        if isinstance(node.op, ast.Div):
            return ast.copy_location(ast.Call(ast.Name("_DIV", ast.Load()), [node.left, node.right], []), node)
        return node

def _Q(s):
    if s == "1e-16": return S(var("EPS16"))
    return S(const(Fraction(s)))
def _DIV(a, b):
    if isinstance(a, (int, np.integer)) and isinstance(b, (int, np.integer)) and not isinstance(a, bool):
        return S(const(Fraction(int(a), int(b))))
    return a / b

def load_symbolic(modname, path, inject=None):
    src = open(path).read()
    tree = LitT().visit(ast.parse(src)); ast.fix_missing_locations(tree)
    mod = types.ModuleType(modname + "__sym")
    mod.__dict__.update({"_Q": _Q, "_DIV": _DIV, "__name__": modname + "__sym", "__file__": path})
    code = compile(tree, path, "exec")
    exec(code, mod.__dict__)
    mod.np = NP()
    return mod

def explore(fn):
    """run fn() on every feasible path; yield (explorer, result)"""
    global EXP
    work = [[]]
    n = 0
    while work:
        pre = work.pop()
        EXP = Explorer(); EXP.prefix = pre
        res = fn(EXP)
        work.extend(EXP.work)
        n += 1
        yield EXP, res

def sarr(name, shape):
    a = np.empty(shape, dtype=object)
    for idx in np.ndindex(*shape):
        a[idx] = S(var(name + "".join("_%d" % i for i in idx)))
    return a

def check_equal(exp, a, b, extra=()):
    """is a != b satisfiable under path condition?"""
    s = z3.Solver(); s.set("timeout", 60000)
    za, zb = exp.low(a), exp.low(b)
    s.add(*exp.assume); s.add(*extra)
    for c, d in exp.trace: s.add(c if d else z3.Not(c))
    s.add(*exp.low.side)
    s.add(za != zb)
    t0 = time.time(); r = s.check()
    return r, time.time() - t0, (s.model() if r == z3.sat else None)

if __name__ == "__main__":
    td = load_symbolic("ciderpress.dft.transform_data", "/repo/ciderpress/dft/transform_data.py")
    print("SLX const test: ", td.SLBMap.const)
    gam = S(var("gamma"))
    for cls, args, nx in [(td.SLXMap, (0, 1, gam), 2), (td.SLBMap, (0, 1, 2), 3), (td.SLNMap, (0, gam), 1), (td.WMap, (0, 1, 2, gam, S(var("g2"))), 3), (td.SignedUMap, (0, gam), 1)]:
        def run(exp):
            x = sarr("x", (nx, 1))
            for i in range(nx):
                exp.assume.append(exp.low(x[i, 0].e) >= 0)
            exp.assume += [exp.low(gam.e) > 0, z3.Real("g2") > 0, z3.Real("PI") > 3, z3.Real("PI") < 4]
            m = cls(*args)
            y = np.empty((1,), dtype=object)
            m.fill_feat_(y, x)
            dfdx = np.empty((nx, 1), dtype=object); dfdx[...] = S(ZERO)
            dfdy = np.empty((1,), dtype=object); dfdy[0] = S(var("dy"))
            m.fill_deriv_(dfdx, dfdy, x)
            return x, y, dfdx
        for exp, (x, y, dfdx) in explore(run):
            for i in range(nx):
                true = mul(var("dy"), diff(y[0].e, x[i, 0].e))
                r, t, m = check_equal(exp, dfdx[i, 0].e, true)
                print(cls.__name__, "path", [d for _, d in exp.trace], "d/dx%d" % i, r, "%.2fs" % t, m if m is None else {str(k): m[k] for k in m if not str(k).startswith(("inv", "root", "/"))})
