from typing import List, Tuple
from ciderpress.dft.settings import NLDFSettingsVI, NLDFSettingsVJ, SemilocalSettings, FeatureSettings, ALLOWED_I_SPECS_L0, ALLOWED_I_SPECS_L1

L0 = ALLOWED_I_SPECS_L0 + ["bogus"]
L1 = ALLOWED_I_SPECS_L1 + ["bogus"]

def vi_counts(l0: List[int], l1: List[int], dots: List[Tuple[int, int]], rm: int) -> int:
    """
    pre: len(l0) <= 1 and len(l1) <= 1 and len(dots) <= 1
    pre: all(0 <= i < 7 for i in l0) and all(0 <= i < 3 for i in l1)
    pre: 0 <= rm <= 1
    post: _ == 1
    raises: ValueError
    """
    s = NLDFSettingsVI("MGGA", [1.0, 0.0, 0.03125], ["one", "expnt"][rm],
                       [L0[i] for i in l0], [L1[i] for i in l1], dots)
    n = s.nfeat
    ok = (len(s.get_feat_usps()) == n) and (len(s.ueg_vector()) == n)
    return 1 if ok else 0
