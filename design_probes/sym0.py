"""Probe: tiny symbolic real class on numpy object arrays, z3-backed."""
import z3, numpy as np, time
from fractions import Fraction

class _NI(Exception): pass
def _ni(f):
    def g(*a):
        try: return f(*a)
        except _NI: return NotImplemented
    return g
class S:
    pass
    def __init__(self, t):
        self.t = t
    @staticmethod
    def lift(x):
        if isinstance(x, S): return x
        if isinstance(x, np.ndarray): raise _NI()
        if isinstance(x, (int, np.integer)): return S(z3.RealVal(int(x)))
        if isinstance(x, (float, np.floating)):
            f = Fraction(float(x)).limit_denominator(10**6)
            if float(f) == float(x):
                return S(z3.RealVal(str(f)))
            return S(z3.RealVal(repr(float(x))))
        raise TypeError(type(x))
    @_ni
    def __add__(s, o): return S(s.t + S.lift(o).t)
    __radd__ = __add__
    @_ni
    def __sub__(s, o): return S(s.t - S.lift(o).t)
    @_ni
    def __rsub__(s, o): return S(S.lift(o).t - s.t)
    @_ni
    def __mul__(s, o): return S(s.t * S.lift(o).t)
    __rmul__ = __mul__
    @_ni
    def __truediv__(s, o): return S(s.t / S.lift(o).t)
    @_ni
    def __rtruediv__(s, o): return S(S.lift(o).t / s.t)
    def __neg__(s): return S(-s.t)
    def __pow__(s, e):
        if isinstance(e, (int, np.integer)):
            if e >= 0:
                r = z3.RealVal(1)
                for _ in range(int(e)): r = r * s.t
                return S(r)
            return S(1 / (S.__pow__(s, -e)).t)
        raise TypeError(("pow", e))
    def sqrt(s):
        global ATOMS
        r = z3.Real("sqrt_%d" % len(ATOMS))
        ATOMS.append((r, s.t))
        return S(r)
    def __repr__(s): return "S(%s)" % s.t
ATOMS = []

from ciderpress.dft import transform_data as td

def sym_arr(name, shape):
    a = np.empty(shape, dtype=object)
    for idx in np.ndindex(*shape):
        a[idx] = S(z3.Real(name + "_" + "_".join(map(str, idx))))
    return a

x = sym_arr("x", (4, 1))
y = np.empty((1,), dtype=object)
gi, gj, gk = S(z3.Real("gi")), S(z3.Real("gj")), S(z3.Real("gk"))
m = td.YMap(0, 1, 2, 3, gi, gj, gk)
m.fill_feat_(y, x)
print("y =", y[0])
dfdx = np.empty((4, 1), dtype=object); dfdx[:] = S(z3.RealVal(0))
dfdy = np.empty((1,), dtype=object); dfdy[0] = S(z3.RealVal(1))
m.fill_deriv_(dfdx, dfdy, x)
print("dfdx0 =", dfdx[0, 0])
print("atoms", len(ATOMS))
# VZMap
ATOMS.clear()
g, sc, c = S(z3.Real("g")), S(z3.Real("sc")), S(z3.Real("c"))
m = td.VZMap(0, g, sc, c)
y = np.empty((1,), dtype=object)
m.fill_feat_(y, x)
dfdx[:] = S(z3.RealVal(0))
m.fill_deriv_(dfdx, dfdy, x)
x0 = x[0, 0].t
# manual derivative of y wrt x0
gt, st = g.t, sc.t
u = x0 + x0 * x0
true = st * gt * (1 + 2 * x0) / (1 + gt * u) ** 2
s = z3.Solver()
s.add(gt > 0, x0 >= 0, st > 0)
s.add(dfdx[0, 0].t != true)
t0 = time.time()
print(s.check(), time.time() - t0)
print(s.model())
