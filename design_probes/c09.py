import sys, time; sys.path.insert(0, "/tmp/probe")
import numpy as np, z3
import symx, ctx
from symx import *
C = ctx.SymContext()
with C:
    import ciderpress.lib.load as L
    L.load_library = lambda name: ctx.FakeLib(name)
    import ciderpress.lib as LL
    LL.load_library = L.load_library
    import ciderpress.pyscf.numint as numint

NAO, NG = 2, 2
def U(name, args): return S(E("uf", name, tuple(symx.lift(a) for a in args)))

# --- reference-numpy stubs for the PySCF primitives used by numint (documented formulas)
def _scale_ao_sparse(ao, wv, mask, ao_loc, out=None):
    # aow[g, mu] = sum_c ao[c, g, mu] * wv[c, g]
    return np.einsum("cgm,cg->gm", ao[:len(wv)], wv)
def _dot_ao_ao_sparse(bra, ket, wv, nbins, mask, pair_mask, ao_loc, hermi=0, out=None):
    r = np.einsum("gm,gn->mn", bra, ket)
    if out is None: return r
    out += r; return out
def hermi_sum(a, axes=None):
    return a + a.transpose(0, 2, 1)
numint._scale_ao_sparse = _scale_ao_sparse
numint._dot_ao_ao_sparse = _dot_ao_ao_sparse
class _Lib:
    hermi_sum = staticmethod(hermi_sum)
    def __getattr__(self, k): return getattr(numint_lib_orig, k)
numint_lib_orig = numint.lib
numint.lib = _Lib()
numint.numint._format_uks_dm = lambda dms: (dms[0], dms[1])

class FakeMol:
    nao = NAO
    def ao_loc_nr(self): return None
    def get_overlap_cond(self): return np.zeros((1, 1))
class FakeGrids:
    cutoff = 1e-12
    def __init__(self):
        self.weights = sarr("w", (NG,)); self.coords = np.zeros((NG, 3)); self.grids_indexer = object()
        self.size = NG

class FakeGen:
    """NLDF generator contract stub WITH the real object's statefulness: get_features caches per spin."""
    def __init__(self): self._cache = {}
    def get_extra_ao(self): return 0
    def get_features(self, rho, spin=0):
        self._cache[spin] = rho.copy()
        out = np.empty((1, rho.shape[1]), dtype=object)
        for g in range(rho.shape[1]):
            out[0, g] = U("NLDF", [g] + list(rho.ravel()))
        return out
    def get_potential(self, vfeat, spin=0):
        rho = self._cache[spin]
        out = np.empty(rho.shape, dtype=object)
        for c in range(rho.shape[0]):
            for g in range(rho.shape[1]):
                out[c, g] = U("NLDFPOT_%d_%d" % (c, g), list(rho.ravel()) + list(vfeat.ravel()))
        return out

AO = sarr("ao", (4, NG, NAO))
class NI(numint.NLDFNumInt):
    def __init__(self):
        self.nldfgen = FakeGen(); self.cutoff = 1e-13
        class T:
            def start(s, *a): pass
            def stop(s, *a): pass
        self.timer = T()
    settings = property(lambda s: s._st)
    has_sdmx = False; has_nldf = True
    def initialize_feature_generators(self, mol, grids, nspin): pass
    def _gen_rho_evaluator(self, mol, dms, hermi, with_lapl, grids):
        def make_rho(i, ao, mask, xctype):
            dm = dms[i]
            rho = np.empty((4, NG), dtype=object)
            c0 = np.einsum("gm,mn->gn", ao[0], dm)
            rho[0] = np.einsum("gn,gn->g", c0, ao[0])
            for c in range(1, 4): rho[c] = 2 * np.einsum("gn,gn->g", c0, ao[c])
            return rho
        return make_rho, dms.shape[0], NAO
    def block_loop(self, mol, grids, nao, ao_deriv, max_memory=2000, **kw):
        yield AO, None, grids.weights, grids.coords
    def extra_block_loop(self, mol, grids, max_memory=2000, extra_ao=None, **kw):
        yield None, grids.weights, grids.coords
    def eval_xc_cider(self, xc_code, rho, nldf_feat, sdmx_feat, deriv=1, xctype=None):
        if isinstance(rho, tuple): rho = np.stack(rho)
        nspin = 2 if rho.ndim == 3 else 1
        r = rho.reshape(nspin, 4, NG); f = nldf_feat.reshape(nspin, -1, NG)
        exc = np.empty(NG, dtype=object); vxc = np.empty((nspin, 4, NG), dtype=object); vn = np.empty((nspin, f.shape[1], NG), dtype=object)
        for g in range(NG):
            args = list(r[:, :, g].ravel()) + list(f[:, :, g].ravel())
            exc[g] = U("EXC", args)
            for s in range(nspin):
                for c in range(4): vxc[s, c, g] = U("VXC_%d_%d" % (s, c), args)
                for i in range(f.shape[1]): vn[s, i, g] = U("VN_%d_%d" % (s, i), args)
        if nspin == 1: return exc, (vxc[0], vn[0], None), None, None
        return exc, (vxc, vn, None), None, None
class _SL: level = "GGA"
class _E:
    is_empty = True; nfeat = 0
class _N: nfeat = 1
class _ST:
    sl_settings = _SL(); nlof_settings = _E(); nldf_settings = _N()

def uks(dms):
    ni = NI(); ni._st = _ST()
    return numint.nr_uks_nldf(ni, FakeMol(), FakeGrids(), "PBE", dms)

symx.EXP = Explorer(); exp = symx.EXP
def symm(name):
    a = sarr(name, (NAO, NAO)); 
    for i in range(NAO):
        for j in range(i): a[i, j] = a[j, i]
    return a
dmA = [symm("a0"), symm("a1")]; dmB = [symm("b0"), symm("b1")]
t0 = time.time()
dms_batched = (np.stack(dmA), np.stack(dmB))
nb, eb, vb = uks(dms_batched)
print("batched ok %.1fs" % (time.time() - t0), np.shape(nb), np.shape(eb), np.shape(vb))
for k in range(2):
    n1, e1, v1 = uks((dmA[k], dmB[k]))
    res = {"excsum": check_equal(exp, eb[k].e, e1.e)[0], "nelec_a": check_equal(exp, nb[0, k].e, n1[0].e)[0],
           "vmat_a00": check_equal(exp, vb[0, k, 0, 0].e, v1[0, 0, 0].e)[0], "vmat_b01": check_equal(exp, vb[1, k, 0, 1].e, v1[1, 0, 1].e)[0]}
    print("dm", k, res)
