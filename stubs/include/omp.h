#ifndef _STUB_OMP_H
#define _STUB_OMP_H
int omp_get_thread_num(void);
int omp_get_num_threads(void);
int omp_get_max_threads(void);
void omp_set_num_threads(int);
double omp_get_wtime(void);
#endif
