/* Reference implementation of the six FFTW entry points cider_fft.c uses: a naive O(N^2) DFT that follows the
 * layout rules of the FFTW manual, section 4.4 "Advanced Interface" (howmany/stride/dist, default embeds: for r2c/c2r
 * out-of-place the real array has the logical size n, in-place its last dimension is padded to 2*(n[rank-1]/2+1);
 * complex arrays of r2c/c2r have last dimension n[rank-1]/2+1).  Used only to REPLAY counterexamples of C20 against
 * the repository's real cider_fft.c (FFTW itself is not installed in this sandbox). */
#include <fftw3.h>
#include <math.h>
#include <stdlib.h>
#include <string.h>

struct fftw_plan_s {
    int kind; /* 0 c2c, 1 r2c, 2 c2r */
    int rank, howmany, istride, idist, ostride, odist, sign;
    int n[8];
    void *in, *out;
};

int fftw_init_threads(void) { return 1; }
void fftw_plan_with_nthreads(int n) { (void)n; }
void *fftw_malloc(size_t n) { return malloc(n); }
void fftw_free(void *p) { free(p); }
void fftw_destroy_plan(fftw_plan p) { free(p); }

static fftw_plan mk(int kind, int rank, const int *n, int howmany, void *in, int istride, int idist, void *out, int ostride,
                    int odist, int sign) {
    fftw_plan p = (fftw_plan)malloc(sizeof(struct fftw_plan_s));
    p->kind = kind; p->rank = rank; p->howmany = howmany; p->istride = istride; p->idist = idist;
    p->ostride = ostride; p->odist = odist; p->sign = sign; p->in = in; p->out = out;
    for (int i = 0; i < rank; i++) p->n[i] = n[i];
    return p;
}

fftw_plan fftw_plan_many_dft(int rank, const int *n, int howmany, fftw_complex *in, const int *inembed, int istride, int idist,
                             fftw_complex *out, const int *onembed, int ostride, int odist, int sign, unsigned flags) {
    (void)inembed; (void)onembed; (void)flags;
    return mk(0, rank, n, howmany, in, istride, idist, out, ostride, odist, sign);
}
fftw_plan fftw_plan_many_dft_r2c(int rank, const int *n, int howmany, double *in, const int *inembed, int istride, int idist,
                                 fftw_complex *out, const int *onembed, int ostride, int odist, unsigned flags) {
    (void)inembed; (void)onembed; (void)flags;
    return mk(1, rank, n, howmany, in, istride, idist, out, ostride, odist, -1);
}
fftw_plan fftw_plan_many_dft_c2r(int rank, const int *n, int howmany, fftw_complex *in, const int *inembed, int istride, int idist,
                                 double *out, const int *onembed, int ostride, int odist, unsigned flags) {
    (void)inembed; (void)onembed; (void)flags;
    return mk(2, rank, n, howmany, in, istride, idist, out, ostride, odist, +1);
}

static long lin(int rank, const int *dims, const int *idx) {
    long k = 0;
    for (int d = 0; d < rank; d++) k = k * dims[d] + idx[d];
    return k;
}

void fftw_execute(const fftw_plan p) {
    int rank = p->rank;
    int nl[8], nh[8], rpad[8];
    long ntot = 1, nhalf = 1;
    for (int d = 0; d < rank; d++) { nl[d] = p->n[d]; nh[d] = p->n[d]; rpad[d] = p->n[d]; ntot *= p->n[d]; }
    nh[rank - 1] = p->n[rank - 1] / 2 + 1;
    int inplace = (p->in == p->out);
    if (inplace) rpad[rank - 1] = 2 * nh[rank - 1];
    for (int d = 0; d < rank; d++) nhalf *= nh[d];
    const double PI2 = 6.283185307179586476925286766559;
    /* in-place transforms with interleaved batches: read every batch before any output is written */
    double *XR = (double *)calloc(ntot * p->howmany, sizeof(double)), *XI = (double *)calloc(ntot * p->howmany, sizeof(double));
    for (int b = 0; b < p->howmany; b++) {
        /* gather the full complex logical input x[j], j over n */
        double *xr = XR + (long)b * ntot, *xi = XI + (long)b * ntot;
        int idx[8];
        for (long j = 0; j < ntot; j++) {
            long t = j;
            for (int d = rank - 1; d >= 0; d--) { idx[d] = t % nl[d]; t /= nl[d]; }
            if (p->kind == 0) {
                double *src = (double *)p->in + 2 * ((long)b * p->idist + lin(rank, nl, idx) * p->istride);
                xr[j] = src[0]; xi[j] = src[1];
            } else if (p->kind == 1) {
                double *src = (double *)p->in + ((long)b * p->idist + lin(rank, rpad, idx) * p->istride);
                xr[j] = src[0]; xi[j] = 0;
            } else { /* c2r: hermitian completion of the half-complex input */
                int k[8], conj = 0;
                for (int d = 0; d < rank; d++) k[d] = idx[d];
                if (k[rank - 1] >= nh[rank - 1]) {
                    conj = 1;
                    for (int d = 0; d < rank; d++) k[d] = (nl[d] - idx[d]) % nl[d];
                }
                double *src = (double *)p->in + 2 * ((long)b * p->idist + lin(rank, nh, k) * p->istride);
                xr[j] = src[0]; xi[j] = conj ? -src[1] : src[1];
            }
        }
    }
    for (int b = 0; b < p->howmany; b++) {
        double *xr = XR + (long)b * ntot, *xi = XI + (long)b * ntot;
        long nout = (p->kind == 1) ? nhalf : ntot;
        double *yr = (double *)calloc(nout, sizeof(double)), *yi = (double *)calloc(nout, sizeof(double));
        const int *od = (p->kind == 1) ? nh : nl;
        for (long o = 0; o < nout; o++) {
            long t = o;
            int k[8];
            for (int d = rank - 1; d >= 0; d--) { k[d] = t % od[d]; t /= od[d]; }
            double sr = 0, si = 0;
            for (long j = 0; j < ntot; j++) {
                long u = j;
                double ph = 0;
                for (int d = rank - 1; d >= 0; d--) { int jd = u % nl[d]; u /= nl[d]; ph += (double)jd * k[d] / nl[d]; }
                double c = cos(PI2 * ph), s = p->sign * sin(PI2 * ph);
                sr += xr[j] * c - xi[j] * s;
                si += xr[j] * s + xi[j] * c;
            }
            yr[o] = sr; yi[o] = si;
        }
        for (long o = 0; o < nout; o++) {
            long t = o;
            int k[8];
            for (int d = rank - 1; d >= 0; d--) { k[d] = t % od[d]; t /= od[d]; }
            if (p->kind == 2) {
                double *dst = (double *)p->out + ((long)b * p->odist + lin(rank, rpad, k) * p->ostride);
                dst[0] = yr[o];
            } else {
                double *dst = (double *)p->out + 2 * ((long)b * p->odist + lin(rank, od, k) * p->ostride);
                dst[0] = yr[o]; dst[1] = yi[o];
            }
        }
        free(yr); free(yi);
    }
    free(XR); free(XI);
}
