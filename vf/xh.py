"""E4: CrossHair (symbolic execution of Python with z3) on contract functions over the real code.

Each condition is a private function in vf/xh_conds/<prop>.py whose PEP316 docstring carries the
pre/post-condition.  One `crosshair check --report_all` subprocess per condition (they run in the
task pool), plus a reachability twin (same function, `post: False`) that must be refuted, otherwise the
precondition is vacuous or every path timed out.  Verdicts:
  'Confirmed over all paths'  -> unsat (discharged)
  counterexample              -> sat, replayed by calling the function concretely
  anything else               -> inconclusive
"""
import ast
import os
import re
import subprocess
import sys
import tempfile
import time

from .run import Task

HERE = os.path.dirname(os.path.abspath(__file__))
CONDS = os.path.join(HERE, "xh_conds")
VERIF = os.path.dirname(HERE)


def conditions(prop):
    """[(name, lineno, tiers)]  - functions whose docstring has a 'post:' line; '# tier: thorough' opt-out of quick"""
    path = os.path.join(CONDS, prop + ".py")
    if not os.path.exists(path):
        return path, []
    src = open(path).read()
    out = []
    for node in ast.parse(src).body:
        if isinstance(node, ast.FunctionDef):
            doc = ast.get_docstring(node) or ""
            if "post:" in doc:
                tiers = ("thorough",) if "tier: thorough" in doc else ("quick", "thorough")
                tmo = re.search(r"timeout: (\d+)", doc)
                out.append((node.name, node.lineno + 1, tiers, int(tmo.group(1)) if tmo else None))
    return path, out


def tasks_for(prop, tier):
    path, conds = conditions(prop)
    out = []
    for name, line, tiers, tmo in conds:
        if tier not in tiers:
            continue
        t = tmo or (30 if tier == "quick" else 120)
        if tier == "thorough" and tmo:
            t = tmo * 3
        out.append(Task("crosshair/%s" % name, run_condition,
                        dict(prop=prop, path=path, fn=name, line=line, timeout=t), engine="custom"))
    return out


def _env():
    e = dict(os.environ)
    e["PYTHONPATH"] = VERIF + os.pathsep + e.get("PYTHONPATH", "")
    e["PYTHONDONTWRITEBYTECODE"] = "1"
    return e


def _crosshair(path, line, timeout):
    cmd = [sys.executable, "-m", "crosshair", "check", "--report_all", "--per_condition_timeout", str(timeout),
           "--per_path_timeout", str(max(5, timeout // 3)), "%s:%d" % (path, line)]
    t0 = time.time()
    try:
        p = subprocess.run(cmd, stdout=subprocess.PIPE, stderr=subprocess.STDOUT, text=True, env=_env(),
                           timeout=timeout * 4 + 120, cwd=VERIF)
        out = p.stdout
    except subprocess.TimeoutExpired as e:
        out = (e.stdout or "") + "\nTIMEOUT"
    return out, time.time() - t0


def _classify(out):
    if re.search(r"error: .*(false when calling|when calling)", out) or ": error:" in out:
        m = re.search(r"error: (.*)", out)
        return "sat", m.group(1) if m else out[-300:]
    if "Confirmed over all paths" in out:
        return "unsat", "Confirmed over all paths"
    if "Not confirmed" in out:
        return "unknown", "Not confirmed (budget exhausted)"
    if "Unable to meet precondition" in out:
        return "unknown", "Unable to meet precondition"
    return "unknown", out[-300:]


def run_condition(cfg):
    path, fn, line, timeout = cfg["path"], cfg["fn"], cfg["line"], cfg["timeout"]
    if "_libs.ensure()" in open(path).read() and not os.environ.get("VERIF_LIBDIR"):
        from . import replaylibs
        os.environ["VERIF_LIBDIR"] = replaylibs.build()
    recs = []
    out, dt = _crosshair(path, line, timeout)
    v, detail = _classify(out)
    rec = dict(kind="crosshair", name="crosshair/%s/post" % fn, path="", verdict=v, t=round(dt, 2), size=1,
               trivial=False, phase="crosshair", detail=detail)
    if v == "sat":
        rec["model"] = {"call": detail}
        rec["model_float"] = {}
    recs.append(rec)
    # reachability twin: same function with `post: False` must yield a counterexample
    src = open(path).read()
    twin_src = re.sub(r"(\n\s*)post:[^\n]*", r"\1post: False", src)
    tdir = tempfile.mkdtemp(prefix="verif_xh_")
    try:
        tp = os.path.join(tdir, os.path.basename(path).replace(".py", "_twin.py"))
        with open(tp, "w") as f:
            f.write(twin_src)
        out2, dt2 = _crosshair(tp, line, min(timeout, 30))
        v2, _ = _classify(out2)
    finally:
        import shutil
        shutil.rmtree(tdir, True)
    recs.append(dict(kind="reach", name="crosshair/%s/reach" % fn, path="", verdict="sat" if v2 == "sat" else "unknown", t=round(dt2, 2)))
    if v2 != "sat" and v == "unsat":
        # cannot show the assertion is reachable: do not count it as discharged
        recs[0]["verdict"] = "unknown"
        recs[0]["detail"] = "confirmed, but the reachability twin was not refuted: treated as inconclusive"
    if v2 != "sat":
        recs[1]["verdict"] = "sat"   # an inconclusive twin is reported through the main record, not as vacuity
    return dict(records=recs, paths=0, solver_time=dt + dt2)


def replay(task, rec):
    """call the condition function concretely with the counterexample's arguments"""
    cfg = task.cfg
    call = (rec.get("model") or {}).get("call", "")
    m = re.search(r"calling (\w+\(.*?\))(?: \(which returns|\s*$)", call)
    if not m:
        return dict(confirmed=False, detail="could not parse the CrossHair counterexample: " + call[:200])
    code = (
        "import sys, ast, re\n"
        "sys.path.insert(0, %r)\n"
        "import importlib.util\n"
        "spec = importlib.util.spec_from_file_location('conds', %r)\n"
        "mod = importlib.util.module_from_spec(spec); spec.loader.exec_module(mod)\n"
        "fn = getattr(mod, %r)\n"
        "doc = fn.__doc__\n"
        "posts = [l.split('post:',1)[1].strip() for l in doc.splitlines() if 'post:' in l]\n"
        "raises = [l.split('raises:',1)[1].strip() for l in doc.splitlines() if 'raises:' in l]\n"
        "try:\n"
        "    _ = eval(%r, mod.__dict__)\n"
        "except Exception as e:\n"
        "    ok = any(type(e).__name__ in r for r in raises)\n"
        "    print('REPLAY', 'held' if ok else 'violated', 'raised', type(e).__name__, e); sys.exit(0)\n"
        "env = dict(mod.__dict__); env['_'] = _\n"
        "bad = [p for p in posts if not eval(p, env)]\n"
        "print('REPLAY', 'violated' if bad else 'held', 'returned', repr(_)[:200], bad)\n"
    ) % (VERIF, cfg["path"], cfg["fn"], m.group(1))
    p = subprocess.run([sys.executable, "-c", code], stdout=subprocess.PIPE, stderr=subprocess.STDOUT, text=True, env=_env(), timeout=300)
    line = [l for l in p.stdout.splitlines() if l.startswith("REPLAY")]
    if not line:
        return dict(confirmed=False, detail="replay crashed: " + p.stdout[-300:])
    return dict(confirmed=" violated " in line[0] + " ", detail=line[0] + " | " + m.group(1)[:300])
