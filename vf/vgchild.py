"""child of vf.vgreplay: run one harness concretely on the real code (under valgrind)"""
import importlib
import json
import sys


def main():
    spec = json.load(open(sys.argv[1]))
    prop = importlib.import_module("vf.props.%s" % spec["prop"].lower())
    t = [x for x in prop.tasks(spec["tier"]) if x.name == spec["task"]][0]
    from . import harness
    mods = prop.real_mods_for(t) if hasattr(prop, "real_mods_for") else prop.real_mods(t.real_mods)
    try:
        harness.run_real(t.fn, mods, t.cfg, spec["values"])
    except Exception as e:  # noqa
        print("VGCHILD-EXC", type(e).__name__, e)
    print("VGCHILD-DONE")


if __name__ == "__main__":
    main()
