"""ctypes bridge: the repository's Python wrappers call `libcider.<fn>(arr.ctypes.data_as(c_void_p), ..., c_int(n))`;
in the symbolic import context `libcider` is a FakeLib whose handlers run the *interpreted* C (clang IR of /repo's
current source) on the very arrays the wrapper passed (DESIGN.md 2.3 'The ctypes bridge')."""
import ctypes

import numpy as np

from .. import dag
from ..sym import S, ArrHandle, lift
from . import ir
from .interp import Interp, Obj, Ptr, REAL

_MODULES = {}
HANDLES = {}       # opaque integer handle -> Ptr (C pointers that travel through Python as c_void_p)
_NEXT = [0x7E0000000000]


def handle_of(p):
    for h, q in HANDLES.items():
        if q.obj is p.obj and q.off == p.off:
            return h
    _NEXT[0] += 64
    HANDLES[_NEXT[0]] = p
    return _NEXT[0]


FLOOR_HINTS = ()   # candidate integer parts for `(int) x` of a symbolic double inside bridged calls (each decided by the solver)
OMP_SCHED = "iter"  # "iter": one iteration per virtual thread (footprints); "chunks": the loop's own schedule on a team of OMP_NVT threads
UNINIT = []         # per interpreter: uninitialised heap doubles read in team-schedule mode (each became an unconstrained real)
OMP_NVT = None     # when set (C10 part B), every interpreter created through the bridge / ccall runs clang's -fopenmp IR in footprint mode


def new_interp(cfile, hybrid=False):
    m = module(cfile, openmp=OMP_NVT is not None)
    it = Interp(m, hybrid=hybrid)
    it.floor_hints = list(FLOOR_HINTS)
    if OMP_NVT is not None:
        from . import omp
        omp.attach(it, OMP_NVT, OMP_SCHED)
        if OMP_SCHED == "chunks":
            it.garbage_uninit = True
            UNINIT.append(it.uninit_reads)
    return it


def module(cfile, openmp=False):
    key = (cfile, openmp)
    if key not in _MODULES:
        _MODULES[key] = ir.Module(ir.emit(cfile, openmp=openmp))
    return _MODULES[key]


def _shares(a, b):
    return np.shares_memory(a, b)


class _Flat(object):
    """list-like view of a C-contiguous object ndarray holding S scalars, as DAG nodes"""

    def __init__(self, arr):
        if not arr.flags.c_contiguous:
            # a raw pointer sees the underlying memory: accept any axis permutation of a C-contiguous block (e.g. the F-ordered
            # (ngrids, nao) arrays PySCF hands around) and expose that block in memory order
            import numpy as _np
            order = sorted(range(arr.ndim), key=lambda k: -arr.strides[k])
            mem = arr.transpose(order)
            if not mem.flags.c_contiguous:
                raise ValueError("array passed through the FFI is not a permuted view of a contiguous block")
            arr = mem
        self.flat = arr.reshape(-1)
        if self.flat.size and not _shares(self.flat, arr):
            raise ValueError("array passed through the FFI could not be viewed flat without a copy")

    def __len__(self):
        return self.flat.shape[0]

    def __getitem__(self, i):
        return lift(self.flat[i])

    def __setitem__(self, i, v):
        self.flat[i] = S(v)


def to_arg(interp, a, name="arg"):
    if isinstance(a, ArrHandle):
        arr = a.arr
        if arr.dtype == object:
            return Ptr(Obj(name, _Flat(arr), 8, "buf", True), 0)
        return Ptr(REAL, arr.ctypes.data)
    if isinstance(a, (ctypes.c_int, ctypes.c_long, ctypes.c_size_t)):
        return int(a.value)
    if isinstance(a, ctypes.c_double):
        return _dbl(a.value)
    if isinstance(a, ctypes.c_void_p):
        if a.value in HANDLES:
            return HANDLES[a.value]
        return Ptr(REAL, a.value or 0)
    if isinstance(a, S):
        return a.e
    if isinstance(a, (int, np.integer)):
        return int(a)
    if isinstance(a, float):
        return _dbl(a)
    if a is None:
        return Ptr(REAL, 0)
    if isinstance(a, ctypes.Array):
        # arrays of numbers built by the wrapper (e.g. the extra kernel arguments) become exactly sized read-only objects,
        # so that a C read past their end is an out-of-bounds access instead of a silent read of neighbouring memory
        if a._type_ is ctypes.c_double:
            return Ptr(Obj(name + ".ctypes_doubles", [_dbl(v) for v in a], 8, "buf", False), 0)
        if a._type_ in (ctypes.c_int, ctypes.c_int32):
            return Ptr(Obj(name + ".ctypes_ints", [int(v) for v in a], 4, "buf", False), 0)
        return Ptr(REAL, ctypes.addressof(a))
    if isinstance(a, ctypes._Pointer):
        return Ptr(REAL, ctypes.cast(a, ctypes.c_void_p).value or 0)
    raise TypeError("cannot bridge FFI argument %r" % (a,))


def _dbl(x):
    from ..sym import float_to_fraction
    return dag.const(float_to_fraction(float(x)))


def install(ctx, libname, cfile, fnames, hybrid=True, stats=None, setup=None):
    """route calls to `libname.<fn>` in the symbolic context into the interpreter"""
    lib = ctx.load_library(libname)

    def make(fn):
        def handler(*args):
            it = new_interp(cfile, hybrid=hybrid)
            if setup is not None:
                setup(it)
            r = it.call(fn, [to_arg(it, a, "%s.arg%d" % (fn, k)) for k, a in enumerate(args)])
            if isinstance(r, Ptr):
                r = handle_of(r) if r.obj is not REAL else r.off
            if stats is not None:
                stats["instructions"] = stats.get("instructions", 0) + it.steps
                stats.setdefault("functions", set()).add(fn)
            return r
        return handler
    for fn in fnames:
        lib.handlers[fn] = make(fn)
