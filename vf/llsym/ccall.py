"""call a C function of the repository either in the symbolic IR interpreter ('sym' mode) or in the freshly
compiled shared library through ctypes ('real' mode) with the same argument description"""
import ctypes

import numpy as np

from . import bridge
from .interp import Interp, Obj, Ptr

LIBOF = {"mod_cider": "libmcider", "fft_wrapper": "libfft_wrapper", "numint_cider": "libnumint", "xc_utils": "libxc_utils"}
STATS = {"instructions": 0, "functions": set()}


def ccall(env, cfile, fn, args, floor_hints=()):
    """args: list of numpy arrays (float/object arrays are double*, int32 arrays are int*), python ints (int), python
    floats / S (double), or lists of arrays (double**)"""
    if env.sym:
        it = bridge.new_interp(cfile)
        it.floor_hints = list(floor_hints)
        a2 = []
        for k, a in enumerate(args):
            if isinstance(a, np.ndarray):
                if a.dtype == object:
                    a2.append(Ptr(Obj("%s.arg%d" % (fn, k), bridge._Flat(a), 8), 0))
                elif a.dtype == np.int32:
                    a2.append(Ptr(Obj("%s.arg%d" % (fn, k), _IntFlat(a), 4), 0))
                elif a.dtype.kind == "f":
                    a2.append(Ptr(Obj("%s.arg%d" % (fn, k), [bridge._dbl(v) for v in a.reshape(-1)], 8, writable=False), 0))
                else:
                    raise TypeError(a.dtype)
            elif isinstance(a, list):
                a2.append(Ptr(Obj("%s.arg%d" % (fn, k), [Ptr(Obj("%s.arg%d[%d]" % (fn, k, j), bridge._Flat(x), 8), 0) for j, x in enumerate(a)], 8), 0))
            elif isinstance(a, (int, np.integer)):
                a2.append(int(a))
            elif a is None:
                a2.append(None)
            else:
                from ..sym import lift
                a2.append(lift(a))
        r = it.call(fn, a2)
        STATS["instructions"] += it.steps
        STATS["functions"].add(cfile.split("/")[-1] + ":" + fn)
        return r
    from .. import replaylibs
    libname = LIBOF[cfile.split("/")[-2]]
    lib = np.ctypeslib.load_library(libname, replaylibs.ensure(with_fft=(libname == "libfft_wrapper")))
    f = getattr(lib, fn)
    a2 = []
    keep = []
    for a in args:
        if isinstance(a, np.ndarray):
            assert a.flags.c_contiguous
            a2.append(a.ctypes.data_as(ctypes.c_void_p))
        elif isinstance(a, list):
            arr = (ctypes.c_void_p * len(a))(*[x.ctypes.data for x in a])
            keep.append(arr)
            a2.append(arr)
        elif isinstance(a, (int, np.integer)):
            a2.append(ctypes.c_int(int(a)))
        elif a is None:
            a2.append(ctypes.c_void_p(0))
        else:
            a2.append(ctypes.c_double(float(a)))
    f.restype = None
    return f(*a2)


class _IntFlat(object):
    def __init__(self, arr):
        self.flat = arr.reshape(-1)

    def __len__(self):
        return self.flat.shape[0]

    def __getitem__(self, i):
        return int(self.flat[i])

    def __setitem__(self, i, v):
        self.flat[i] = int(v)
