"""FFTW contract model for the IR interpreter (DESIGN.md C20): the six entry points cider_fft.c uses, with the layout
rules of the FFTW manual section 4.4 (advanced interface: howmany / stride / dist, NULL embeds = logical sizes,
in-place r2c/c2r real arrays padded to 2*(n_last/2+1)).  fftw_execute computes the *unnormalised DFT* symbolically
(exact twiddle factors cos/sin(2 pi k/n) for n in {1,2,3,4,6}) from the addresses the contract assigns, reading every
batch before writing (in-place semantics), so wrong strides, distances, sizes or copies show up as wrong output terms
or as out-of-bounds accesses of the allocated arrays."""
import itertools
from fractions import Fraction

from .. import dag
from ..dag import ZERO, ONE, const
from .interp import MapObj, Obj, Ptr, Unsupported

PLANS = {}


def _twiddle(num, den):
    """(cos, sin) of 2 pi num/den, exact"""
    num %= den
    fr = Fraction(num, den)
    h = dag.rpow(const(3), Fraction(1, 2))
    half = const(Fraction(1, 2))
    table = {
        Fraction(0): (ONE, ZERO), Fraction(1, 4): (ZERO, ONE), Fraction(1, 2): (const(-1), ZERO), Fraction(3, 4): (ZERO, const(-1)),
        Fraction(1, 3): (const(Fraction(-1, 2)), dag.mul(half, h)), Fraction(2, 3): (const(Fraction(-1, 2)), dag.neg(dag.mul(half, h))),
        Fraction(1, 6): (half, dag.mul(half, h)), Fraction(5, 6): (half, dag.neg(dag.mul(half, h))),
        Fraction(1, 12): (dag.mul(half, h), half), Fraction(5, 12): (dag.neg(dag.mul(half, h)), half),
        Fraction(7, 12): (dag.neg(dag.mul(half, h)), dag.neg(half)), Fraction(11, 12): (dag.mul(half, h), dag.neg(half)),
    }
    if fr not in table:
        raise Unsupported("twiddle factor for 2 pi * %s" % fr)
    return table[fr]


def install(it):
    it.extern.update({
        "fftw_init_threads": lambda it, a: 1,
        "fftw_plan_with_nthreads": lambda it, a: None,
        "fftw_malloc": lambda it, a: Ptr(MapObj("fftw_malloc%d" % it.steps, a[0], "heap"), 0),
        "fftw_free": lambda it, a: None,
        "fftw_destroy_plan": lambda it, a: None,
        "fftw_plan_many_dft": lambda it, a: _plan(it, 0, a[0], a[1], a[2], a[3], a[5], a[6], a[7], a[9], a[10], a[11]),
        "fftw_plan_many_dft_r2c": lambda it, a: _plan(it, 1, a[0], a[1], a[2], a[3], a[5], a[6], a[7], a[9], a[10], -1),
        "fftw_plan_many_dft_c2r": lambda it, a: _plan(it, 2, a[0], a[1], a[2], a[3], a[5], a[6], a[7], a[9], a[10], +1),
        "fftw_execute": _execute,
    })


def _plan(it, kind, rank, nptr, howmany, inp, istride, idist, out, ostride, odist, sign):
    n = [it.load(Ptr(nptr.obj, nptr.off + 4 * i), "i32") for i in range(rank)]
    o = Obj("fftw_plan%d" % len(PLANS), [len(PLANS)], 8, "heap", False)
    PLANS[len(PLANS)] = dict(kind=kind, rank=rank, n=n, howmany=howmany, inp=inp, istride=istride, idist=idist, out=out, ostride=ostride, odist=odist, sign=sign)
    if istride <= 0 or ostride <= 0 or howmany <= 0 or any(x <= 0 for x in n):
        raise Unsupported("fftw plan with non-positive size/stride")
    return Ptr(o, 0)


def _lin(dims, idx):
    k = 0
    for d, i in zip(dims, idx):
        k = k * d + i
    return k


def _execute(it, a):
    p = PLANS[a[0].obj.data[0]]
    rank, n = p["rank"], p["n"]
    nh = list(n)
    nh[-1] = n[-1] // 2 + 1
    inplace = p["inp"].obj is p["out"].obj and p["inp"].off == p["out"].off
    rpad = list(n)
    if inplace:
        rpad[-1] = 2 * nh[-1]
    ntot_idx = list(itertools.product(*[range(d) for d in n]))

    def rd(base, off_elems, cplx):
        if cplx:
            q = Ptr(base.obj, base.off + 16 * off_elems)
            return it.load(q, "double"), it.load(Ptr(q.obj, q.off + 8), "double")
        return it.load(Ptr(base.obj, base.off + 8 * off_elems), "double"), ZERO

    X = []
    for b in range(p["howmany"]):
        x = {}
        for idx in ntot_idx:
            if p["kind"] == 0:
                x[idx] = rd(p["inp"], b * p["idist"] + _lin(n, idx) * p["istride"], True)
            elif p["kind"] == 1:
                x[idx] = rd(p["inp"], b * p["idist"] + _lin(rpad, idx) * p["istride"], False)
            else:
                if idx[-1] < nh[-1]:
                    x[idx] = rd(p["inp"], b * p["idist"] + _lin(nh, idx) * p["istride"], True)
                else:
                    k = tuple((n[d] - idx[d]) % n[d] for d in range(rank))
                    re, im = rd(p["inp"], b * p["idist"] + _lin(nh, k) * p["istride"], True)
                    x[idx] = (re, dag.neg(im))
        X.append(x)
    od = nh if p["kind"] == 1 else n
    for b in range(p["howmany"]):
        x = X[b]
        for k in itertools.product(*[range(d) for d in od]):
            sr, si = ZERO, ZERO
            for idx in ntot_idx:
                ph = sum(Fraction(idx[d] * k[d], n[d]) for d in range(rank))
                c, s = _twiddle(ph.numerator, ph.denominator)
                if p["sign"] < 0:
                    s = dag.neg(s)
                xr, xi = x[idx]
                sr = dag.add(sr, dag.sub(dag.mul(xr, c), dag.mul(xi, s)))
                si = dag.add(si, dag.add(dag.mul(xr, s), dag.mul(xi, c)))
            if p["kind"] == 2:
                it.store(Ptr(p["out"].obj, p["out"].off + 8 * (b * p["odist"] + _lin(rpad, k) * p["ostride"])), "double", sr)
            else:
                q = Ptr(p["out"].obj, p["out"].off + 16 * (b * p["odist"] + _lin(od, k) * p["ostride"]))
                it.store(q, "double", sr)
                it.store(Ptr(q.obj, q.off + 8), "double", si)
    return None


def dft(x_re, x_im, n, sign, axes_first):
    """reference: mathematically defined unnormalised DFT over the transform axes of a (re, im) pair of nested object arrays;
    used by the harness as the oracle.  x_*: numpy object arrays of S with the batch axis first (axes_first=True) or last"""
    import numpy as np
    from ..sym import S
    shape = x_re.shape
    nb = shape[0] if axes_first else shape[-1]
    out_re = np.empty(shape, dtype=object)
    out_im = np.empty(shape, dtype=object)
    for b in range(nb):
        for k in itertools.product(*[range(d) for d in n]):
            sr, si = ZERO, ZERO
            for j in itertools.product(*[range(d) for d in n]):
                ph = sum(Fraction(j[d] * k[d], n[d]) for d in range(len(n)))
                c, s = _twiddle(ph.numerator, ph.denominator)
                if sign < 0:
                    s = dag.neg(s)
                ij = ((b,) + j) if axes_first else (j + (b,))
                xr, xi = x_re[ij].e, x_im[ij].e
                sr = dag.add(sr, dag.sub(dag.mul(xr, c), dag.mul(xi, s)))
                si = dag.add(si, dag.add(dag.mul(xr, s), dag.mul(xi, c)))
            ik = ((b,) + k) if axes_first else (k + (b,))
            out_re[ik], out_im[ik] = S(sr), S(si)
    return out_re, out_im
