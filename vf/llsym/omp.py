"""OpenMP footprint mode for the IR interpreter (C10 part B).

clang -fopenmp lowers `#pragma omp parallel` to __kmpc_fork_call(microtask, shared...) and work-sharing loops to
__kmpc_for_static_init_* / __kmpc_dispatch_*.  Here a parallel region is executed by NVT *virtual threads*, one after the
other; in every work-shared loop virtual thread k receives exactly iteration k (none if the loop is shorter), so the logged
read/write sets are per-iteration footprints.  Two distinct iterations may run concurrently under *every* schedule and team
size, so the region is free of data races for all schedules iff no two virtual threads touch the same byte in the same barrier
phase with at least one write, unless both accesses are inside critical / reduction-combine sections.  Code outside the
work-shared loops is executed by every virtual thread (as by every real thread), so unsynchronised writes to shared memory
there are reported as well.  `single` is executed by virtual thread 0.

Second schedule model (`sched="chunks"`): a team of NVT virtual threads where the loop's own schedule kind and chunk size are
honoured - static: one contiguous block per thread (or round-robin chunks when a chunk size is given), dynamic/guided: chunk c goes
to thread c mod NVT, each thread taking its chunks in increasing order - which is one of the executions the OpenMP runtime may
produce.  A thread now runs several, non-adjacent chunks one after the other, so state that an iteration leaves behind in
thread-private variables (caches, `last value` shortcuts) reaches later iterations exactly as it would at run time; the reused
harness decides its value identities on that execution too."""
from .interp import MapObj, Obj, Ptr, REAL, Unsupported

STATE = None       # active OmpState (module global: one interpreter run at a time per process)
RACES = []         # conflicts found in this process since the last reset
REGIONS = []       # (microtask name, nvt, max trip count, accesses logged)


class OmpState(object):
    def __init__(self, nvt, sched="iter"):
        self.nvt = nvt
        self.sched = sched
        self.vt = 0
        self.in_region = False
        self.phase = 0
        self.protected = 0
        self.log = None
        self.max_trip = 0
        self.dyn = None
        self.fn = None

    def record(self, obj, off, size, kind, silent=False):
        if not self.in_region or obj is None:
            return
        key = ("REAL", 0) if obj is REAL else (getattr(obj, "serial", id(obj)), getattr(obj, "name", "?"))
        self.log.append((self.phase, self.vt, key, off, size, "S" if (kind == "W" and silent) else kind, self.protected > 0))


def reset():
    del RACES[:]
    del REGIONS[:]
    del SILENT[:]


def attach(it, nvt, sched="iter"):
    """enable footprint mode on an interpreter instance"""
    global STATE
    st = OmpState(nvt, sched)
    STATE = st
    it.omp = st
    ex = it.extern

    def fork_call(it, a):
        tgt = a[2]
        if not (isinstance(tgt, tuple) and tgt[0] == "fn"):
            raise Unsupported("__kmpc_fork_call with a non-constant microtask")
        fn, shared = tgt[1], list(a[3:])
        if st.in_region:
            raise Unsupported("nested parallel region")
        st.in_region, st.log, st.fn = True, [], fn
        trips_before = st.max_trip
        st.max_trip = 0
        phases = []
        try:
            for vt in range(st.nvt):
                st.vt, st.phase, st.protected, st.dyn = vt, 0, 0, None
                g, b = Obj("gtid", [vt], 4, "local"), Obj("btid", [vt], 4, "local")
                it.call(fn, [Ptr(g, 0), Ptr(b, 0)] + shared)
                phases.append(st.phase)
        finally:
            st.in_region = False
        if len(set(phases)) > 1:
            RACES.append(dict(region=fn, kind="barrier-mismatch", detail="virtual threads passed different numbers of barriers: %s" % phases))
        _analyse(st)
        REGIONS.append((fn, st.nvt, st.max_trip, len(st.log)))
        st.max_trip = max(st.max_trip, trips_before)
        st.vt = 0
        return None

    def static_init(it, a, width):
        ty = "i32" if width == 4 else "i64"
        plast, plb, pub, pstride, incr = a[3], a[4], a[5], a[6], a[7]
        lb, ub = it.load(plb, ty), it.load(pub, ty)
        trips = (ub - lb) // incr + 1 if (incr > 0 and ub >= lb) or (incr < 0 and ub <= lb) else 0
        st.max_trip = max(st.max_trip, trips)
        if st.sched == "chunks":
            T, kind, chunk = st.nvt, a[2], a[8]
            if kind == 33 and chunk >= 1:      # kmp_sch_static_chunked: clang's dispatch loop advances by the stride
                first = st.vt * chunk
                if first >= trips:
                    it.store(plb, ty, ub + incr)
                    it.store(pub, ty, ub)
                else:
                    it.store(plb, ty, lb + first * incr)
                    it.store(pub, ty, lb + (first + chunk - 1) * incr)
                it.store(pstride, ty, T * chunk * incr)
                it.store(plast, "i32", 1 if trips and ((trips - 1) // chunk) % T == st.vt else 0)
                return None
            block = -(-trips // T) if trips else 0
            first = st.vt * block
            if not trips or first >= trips:
                it.store(plb, ty, ub + incr)
                it.store(pub, ty, ub)
                it.store(plast, "i32", 0)
            else:
                last = min(first + block, trips) - 1
                it.store(plb, ty, lb + first * incr)
                it.store(pub, ty, lb + last * incr)
                it.store(plast, "i32", 1 if last == trips - 1 else 0)
            it.store(pstride, ty, incr * max(trips, 1))
            return None
        if st.vt < trips:
            it.store(plb, ty, lb + st.vt * incr)
            it.store(pub, ty, lb + st.vt * incr)
        else:
            # empty range that is also empty for unsigned induction variables: lower bound past the upper bound
            it.store(plb, ty, ub + incr)
            it.store(pub, ty, ub)
        it.store(plast, "i32", 1 if st.vt == trips - 1 else 0)
        it.store(pstride, ty, incr * max(trips, 1))
        return None

    def dispatch_init(it, a):
        lb, ub, stride = a[3], a[4], a[5]
        trips = (ub - lb) // stride + 1 if (stride > 0 and ub >= lb) or (stride < 0 and ub <= lb) else 0
        st.max_trip = max(st.max_trip, trips)
        st.dyn = [lb, ub, stride, trips, False]
        if st.sched == "chunks":
            chunk = a[6] if len(a) > 6 and isinstance(a[6], int) and a[6] >= 1 else 1
            st.dyn = [lb, ub, stride, trips, st.vt, chunk]
        return None

    def dispatch_next(it, a, width):
        ty = "i32" if width == 4 else "i64"
        plast, plb, pub, pst = a[2], a[3], a[4], a[5]
        if st.sched == "chunks":
            lb, ub, stride, trips, c, chunk = st.dyn
            first = c * chunk
            if first >= trips:
                return 0
            last = min(first + chunk, trips) - 1
            st.dyn[4] = c + st.nvt
            it.store(plb, ty, lb + first * stride)
            it.store(pub, ty, lb + last * stride)
            it.store(pst, ty, stride)
            it.store(plast, "i32", 1 if last == trips - 1 else 0)
            return 1
        lb, ub, stride, trips, served = st.dyn
        if served or st.vt >= trips:
            return 0
        st.dyn[4] = True
        it.store(plb, ty, lb + st.vt * stride)
        it.store(pub, ty, lb + st.vt * stride)
        it.store(pst, ty, stride)
        it.store(plast, "i32", 1 if st.vt == trips - 1 else 0)
        return 1

    def barrier(it, a):
        st.phase += 1
        return None

    def prot_in(it, a):
        st.protected += 1
        return 1

    def prot_out(it, a):
        st.protected -= 1
        return None

    ex.update({
        "__kmpc_fork_call": fork_call,
        "__kmpc_global_thread_num": lambda it, a: st.vt,
        "__kmpc_for_static_init_4": lambda it, a: static_init(it, a, 4), "__kmpc_for_static_init_4u": lambda it, a: static_init(it, a, 4),
        "__kmpc_for_static_init_8": lambda it, a: static_init(it, a, 8), "__kmpc_for_static_init_8u": lambda it, a: static_init(it, a, 8),
        "__kmpc_for_static_fini": lambda it, a: None,
        "__kmpc_dispatch_init_4": dispatch_init, "__kmpc_dispatch_init_4u": dispatch_init, "__kmpc_dispatch_init_8": dispatch_init, "__kmpc_dispatch_init_8u": dispatch_init,
        "__kmpc_dispatch_next_4": lambda it, a: dispatch_next(it, a, 4), "__kmpc_dispatch_next_4u": lambda it, a: dispatch_next(it, a, 4),
        "__kmpc_dispatch_next_8": lambda it, a: dispatch_next(it, a, 8), "__kmpc_dispatch_next_8u": lambda it, a: dispatch_next(it, a, 8),
        "__kmpc_dispatch_fini_4": lambda it, a: None, "__kmpc_dispatch_fini_8": lambda it, a: None,
        "__kmpc_barrier": barrier,
        "__kmpc_single": lambda it, a: 1 if st.vt == 0 else 0, "__kmpc_end_single": lambda it, a: None,
        "__kmpc_master": lambda it, a: 1 if st.vt == 0 else 0, "__kmpc_end_master": lambda it, a: None,
        "__kmpc_critical": prot_in, "__kmpc_end_critical": prot_out,
        "__kmpc_reduce_nowait": prot_in, "__kmpc_end_reduce_nowait": prot_out,
        "__kmpc_reduce": prot_in, "__kmpc_end_reduce": prot_out,
        "__kmpc_push_num_threads": lambda it, a: None,
        "omp_get_thread_num": lambda it, a: st.vt if st.in_region else 0,
        "omp_get_num_threads": lambda it, a: st.nvt if st.in_region else 1,
        "omp_get_max_threads": lambda it, a: st.nvt,
    })
    return st


SILENT = []       # shared locations that every thread overwrites with the value they already hold (formally racy, result-neutral)


def _analyse(st):
    by = {}
    for phase, vt, key, off, size, kind, prot in st.log:
        for b in range(off, off + size):
            by.setdefault((phase, key, b), []).append((vt, kind, prot))
    seen = set()
    for (phase, key, b), accs in by.items():
        vts = {v for v, _, _ in accs}
        if len(vts) < 2:
            continue
        if any(k == "S" for _, k, _ in accs) and not any(k == "W" for _, k, _ in accs):
            # only silent stores (the stored value equals the value already there): every interleaving leaves the same memory
            if (st.fn, key[1]) not in SILENT:
                SILENT.append((st.fn, key[1]))
            continue
        writers = [(v, p) for v, k, p in accs if k in ("W", "S")]
        if not writers:
            continue
        bad = None
        for v, k, p in accs:
            for w, wp in writers:
                if w != v and not (p and wp):
                    bad = (w, v, k)
                    break
            if bad:
                break
        if bad and (key, phase) not in seen:
            seen.add((key, phase))
            both = bad[2] in ("W", "S")
            RACES.append(dict(region=st.fn, kind="write-%s conflict" % ("write" if both else "read"), object=key[1], byte=b, phase=phase,
                              iterations=sorted(vts)[:4], detail="iterations/threads %d and %d access byte %d of %s in barrier phase %d (%s)" % (bad[0], bad[1], b, key[1], phase,
                                                                                                                                          "both write" if both else "one writes, one reads")))
