"""LLVM-14 textual IR: emission with clang and a small parser (functions, blocks, instructions, struct types,
global constant arrays).  DESIGN.md 2.3."""
import hashlib
import os
import re
import struct as pystruct
import subprocess
import tempfile

REPO = os.environ.get("VERIF_REPO", "/repo")
STUBS = os.path.join(os.path.dirname(os.path.dirname(os.path.dirname(os.path.abspath(__file__)))), "stubs", "include")

FLAGS = ["-O1", "-fno-builtin", "-fno-vectorize", "-fno-slp-vectorize", "-fno-unroll-loops", "-S", "-emit-llvm",
         "-fno-discard-value-names", "-w"]

EMITTED = {}     # path -> sha256 of the C source that was compiled (evidence)


def emit(cfile, openmp=False, extra=()):
    """compile /repo's current C source to textual IR in a temp file; returns the IR text"""
    src = os.path.join(REPO, cfile) if not os.path.isabs(cfile) else cfile
    with open(src, "rb") as f:
        EMITTED[src] = hashlib.sha256(f.read()).hexdigest()
    fd, out = tempfile.mkstemp(suffix=".ll", prefix="verif_ir_")
    os.close(fd)
    try:
        cmd = ["clang"] + FLAGS + (["-fopenmp"] if openmp else []) + ["-I" + STUBS, "-I" + os.path.dirname(src)] + list(extra) + [src, "-o", out]
        p = subprocess.run(cmd, stdout=subprocess.PIPE, stderr=subprocess.STDOUT, text=True)
        if p.returncode != 0:
            raise RuntimeError("clang failed: %s\n%s" % (" ".join(cmd), p.stdout[-2000:]))
        with open(out) as f:
            return f.read()
    finally:
        os.unlink(out)


def split_top(s, sep=","):
    out, depth, cur = [], 0, ""
    for ch in s:
        if ch in "([{<":
            depth += 1
        elif ch in ")]}>":
            depth -= 1
        if ch == sep and depth == 0:
            out.append(cur.strip())
            cur = ""
        else:
            cur += ch
    if cur.strip():
        out.append(cur.strip())
    return out


PRIM = {"i1": 1, "i8": 1, "i16": 2, "i32": 4, "i64": 8, "double": 8, "float": 4, "half": 2}


class Fn(object):
    def __init__(self, name, params, rettype):
        self.name, self.params, self.rettype = name, params, rettype
        self.blocks, self.order = {}, []


class Module(object):
    def __init__(self, text):
        self.structs = {}
        self.globals = {}      # name -> (type, initializer text)
        self.fns = {}
        self.declared = set()
        self._parse(text)
        self._layout = {}

    # ------------------------------------------------------------------ parsing
    def _parse(self, text):
        cur = None
        blk = None
        lines = []
        pending = None
        for line in text.split("\n"):     # join multi-line switch instructions
            if pending is not None:
                pending += " " + line.strip()
                if line.strip().startswith("]"):
                    lines.append(pending)
                    pending = None
                continue
            if line.lstrip().startswith("switch ") and line.rstrip().endswith("["):
                pending = line.rstrip()
                continue
            lines.append(line)
        for line in lines:
            if cur is None:
                m = re.match(r"(%[\w.]+) = type (.*)$", line)
                if m:
                    body = m.group(2).strip()
                    if body == "opaque":
                        self.structs[m.group(1)] = None
                    else:
                        self.structs[m.group(1)] = split_top(body.strip()[1:-1].strip()) if body.startswith("{") else split_top(body.strip()[2:-2])
                    continue
                m = re.match(r"(@[\w.$]+) = .*?(?:global|constant) (.*)$", line)
                if m:
                    self.globals[m.group(1)] = re.sub(r",\s*align \d+\s*$", "", m.group(2))
                    continue
                m = re.match(r"declare .*@([\w.$]+)\(", line)
                if m:
                    self.declared.add(m.group(1))
                    continue
                m = re.match(r"define .*?([\w%.*\[\] <>{},]+?) @([\w.$]+)\((.*)\)[^{]*\{\s*$", line)
                if m:
                    params = []
                    for p in split_top(m.group(3)):
                        toks = p.split()
                        if not toks or toks[0] == "...":
                            continue
                        params.append((_strip_attrs(p)[0], toks[-1]))
                    cur = Fn(m.group(2), params, m.group(1).split()[-1])
                    self.fns[cur.name] = cur
                    blk = None
                continue
            if line.startswith("}"):
                cur = None
                continue
            m = re.match(r"^([\w.\-$]+):", line)
            if m:
                blk = m.group(1)
                cur.blocks[blk] = []
                cur.order.append(blk)
                continue
            s = line.split(" ;")[0].strip() if not line.strip().startswith(";") else ""
            if not s:
                continue
            if blk is None:
                blk = "entry" if "entry" not in cur.blocks else "%0"
                cur.blocks[blk] = []
                cur.order.append(blk)
            cur.blocks[blk].append(Instr(s))

    # ------------------------------------------------------------------ type layout
    def size_align(self, t):
        t = t.strip()
        r = self._layout.get(t)
        if r is not None:
            return r
        if t.endswith("*"):
            r = (8, 8)
        elif t in PRIM:
            r = (PRIM[t], PRIM[t])
        elif t in self.structs:
            off, al = 0, 1
            for f in self.structs[t] or []:
                s, a = self.size_align(f)
                off = (off + a - 1) // a * a + s
                al = max(al, a)
            r = ((off + al - 1) // al * al, al)
        elif t.startswith("["):
            m = re.match(r"\[(\d+) x (.*)\]$", t)
            s, a = self.size_align(m.group(2))
            r = (int(m.group(1)) * s, a)
        elif t.startswith("{"):
            off, al = 0, 1
            for f in split_top(t[1:-1]):
                s, a = self.size_align(f)
                off = (off + a - 1) // a * a + s
                al = max(al, a)
            r = ((off + al - 1) // al * al, al)
        else:
            raise NotImplementedError("sizeof " + t)
        self._layout[t] = r
        return r

    def field(self, t, i):
        fields = self.structs[t] if t in self.structs else split_top(t[1:-1])
        off = 0
        for k, f in enumerate(fields):
            s, a = self.size_align(f)
            off = (off + a - 1) // a * a
            if k == i:
                return off, f
            off += s
        raise IndexError(i)

    def elem_type(self, t):
        m = re.match(r"\[(\d+) x (.*)\]$", t.strip())
        return m.group(2), int(m.group(1))


_ATTRS = {"noundef", "nonnull", "noalias", "nocapture", "readonly", "readnone", "writeonly", "signext", "zeroext", "inreg", "returned",
          "immarg", "nofree", "nest", "swiftself"}


def _strip_attrs(operand):
    """'double* nocapture noundef readonly %x' -> ('double*', '%x')"""
    mm = re.search(r"\b(bitcast|getelementptr inbounds|getelementptr) \(", operand)
    if mm:
        # constant-expression operand: keep the whole expression as the value token
        return operand[:mm.start()].strip(), operand[mm.start():].strip()
    toks = operand.split()
    val = toks[-1]
    ty = []
    for t in toks[:-1]:
        if t in _ATTRS or t.startswith("dereferenceable") or t.startswith("align") or t.startswith("byval") or t.startswith("sret"):
            continue
        ty.append(t)
    return " ".join(ty), val


_META = re.compile(r",\s*![\w.]+ !\d+")
_ALIGN = re.compile(r",\s*align \d+")
_ATTRNUM = re.compile(r"\s+#\d+$")
_FLAGSET = {"nsw", "nuw", "exact", "fast", "nnan", "ninf", "nsz", "arcp", "contract", "reassoc", "afn", "inbounds", "volatile", "tail", "notail", "musttail"}


class Instr(object):
    __slots__ = ("text", "dst", "op", "p")

    def __init__(self, s):
        s = _META.sub("", s)
        s = _ATTRNUM.sub("", s)
        self.text = s
        m = re.match(r"(%[\w.\-$]+) = (.*)$", s)
        if m:
            self.dst, rhs = m.group(1), m.group(2)
        else:
            self.dst, rhs = None, s
        toks = rhs.split()
        i = 0
        while toks[i] in ("tail", "notail", "musttail"):
            i += 1
        self.op = toks[i]
        self.p = self._parse(self.op, rhs)

    @staticmethod
    def _parse(op, rhs):
        rhs0 = rhs
        if op in ("add", "sub", "mul", "sdiv", "udiv", "srem", "urem", "shl", "ashr", "lshr", "and", "or", "xor",
                  "fadd", "fsub", "fmul", "fdiv", "frem"):
            body = rhs[len(op):]
            toks = [t for t in body.replace(",", " ").split() if t not in _FLAGSET]
            return (toks[0], toks[1], toks[2])
        if op == "fneg":
            toks = [t for t in rhs.split()[1:] if t not in _FLAGSET]
            return (toks[0], toks[1])
        if op in ("icmp", "fcmp"):
            toks = [t for t in rhs.replace(",", " ").split()[1:] if t not in _FLAGSET]
            return (toks[0], toks[1], toks[2], toks[3])
        if op in ("sext", "zext", "trunc", "sitofp", "uitofp", "fptosi", "fptoui", "fpext", "fptrunc", "bitcast", "ptrtoint", "inttoptr"):
            m = re.match(r"\w+ (.*) (\S+) to (.*)$", rhs)
            return (m.group(1).strip(), m.group(2), m.group(3).strip())
        if op == "phi":
            m = re.match(r"phi (.*?) (\[.*)$", rhs)
            ty = m.group(1)
            pairs = re.findall(r"\[\s*([^,\]]+?)\s*,\s*%([\w.\-$]+)\s*\]", m.group(2))
            return (ty, {b: v for v, b in pairs})
        if op == "br":
            toks = rhs.replace(",", " ").split()
            if toks[1] == "label":
                return (None, toks[2][1:], None)
            return (toks[2], toks[4][1:], toks[6][1:])
        if op == "switch":
            m = re.match(r"switch (\w+) (\S+), label %([\w.\-$]+) \[(.*)\]", rhs.replace("\n", " "))
            cases = re.findall(r"\w+ (-?\d+), label %([\w.\-$]+)", m.group(4))
            return (m.group(1), m.group(2), m.group(3), [(int(v), b) for v, b in cases])
        if op == "ret":
            toks = rhs.split()
            if toks[1] == "void":
                return (None, None)
            return (" ".join(toks[1:-1]), toks[-1])
        if op == "load":
            body = _ALIGN.sub("", rhs)[len("load"):].strip()
            if body.startswith("volatile "):
                body = body[9:]
            parts = split_top(body)
            return (parts[0].strip(), parts[1].split()[-1])
        if op == "store":
            body = _ALIGN.sub("", rhs)[len("store"):].strip()
            if body.startswith("volatile "):
                body = body[9:]
            parts = split_top(body)
            ty, val = _strip_attrs(parts[0])
            return (ty, val, parts[1].split()[-1])
        if op == "getelementptr":
            body = rhs[len("getelementptr"):].strip()
            if body.startswith("inbounds"):
                body = body[len("inbounds"):].strip()
            parts = split_top(body)
            base_ty = parts[0]
            bty, bval = _strip_attrs(parts[1])
            idx = []
            for p in parts[2:]:
                t, v = _strip_attrs(p)
                idx.append((t, v))
            return (base_ty, bval, idx)
        if op == "alloca":
            body = _ALIGN.sub("", rhs)
            parts = split_top(body[len("alloca"):].strip())
            n = None
            if len(parts) > 1:
                n = _strip_attrs(parts[1])
            return (parts[0], n)
        if op == "select":
            parts = split_top(rhs[len("select"):].strip())
            parts = [" ".join(t for t in p.split() if t not in _FLAGSET) for p in parts]
            c = _strip_attrs(parts[0])
            a = _strip_attrs(parts[1])
            b = _strip_attrs(parts[2])
            return (c[1], a[0], a[1], b[1])
        if op in ("call", "tail", "notail", "musttail"):
            m = re.search(r"call (.*?)@([\w.$]+)\((.*)\)$", rhs)
            if m is None:
                m2 = re.search(r"call (.*?)(%[\w.\-$]+)\((.*)\)$", rhs)   # indirect call
                pre, name, args = m2.group(1), m2.group(2), m2.group(3)
            else:
                pre, name, args = m.group(1), m.group(2), m.group(3)
            pre_t = [t for t in pre.split() if t not in _FLAGSET and t not in _ATTRS]
            rty = pre_t[0] if pre_t else "void"
            if "(" in pre:       # explicit function type: 'i32 (i8*, ...)'
                rty = pre.split("(")[0].split()[-1] if pre.split("(")[0].split() else rty
            ops = []
            for a in split_top(args):
                if a == "...":
                    continue
                ops.append(_strip_attrs(a))
            return (rty, name, ops)
        if op == "unreachable":
            return ()
        if op in ("extractvalue", "insertvalue", "extractelement", "insertelement", "shufflevector", "fence", "atomicrmw", "cmpxchg"):
            return (rhs,)
        raise NotImplementedError("instruction: " + rhs0)


def parse_double(tok):
    if tok.startswith("0x"):
        return pystruct.unpack(">d", bytes.fromhex(tok[2:].rjust(16, "0")))[0]
    return float(tok)


def global_doubles(module, name):
    """values of a global constant array of doubles / ints"""
    init = module.globals[name]
    m = re.match(r"\[(\d+) x (\w+)\] \[(.*)\]", init)
    if not m:
        raise NotImplementedError(init[:80])
    ty = m.group(2)
    vals = []
    for it in split_top(m.group(3)):
        v = it.split()[-1]
        vals.append(parse_double(v) if ty in ("double", "float") else int(v))
    return ty, vals
