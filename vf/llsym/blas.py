"""reference-BLAS semantics (column major) over DAG nodes for the Fortran entry points the C code calls"""
from .. import dag
from ..dag import ZERO
from .interp import Ptr


def _i(it, p):
    return it.load(p, "i32")


def _d(it, p):
    return it.load(p, "double")


def _c(it, p):
    v = it.load(p, "i8")
    return chr(v) if isinstance(v, int) else v


def _at(p, k):
    return Ptr(p.obj, p.off + 8 * k)


def dgemm_(it, a):
    ta, tb, m, n, k, alpha, A, lda, B, ldb, beta, C, ldc = a
    ta, tb = _c(it, ta).upper(), _c(it, tb).upper()
    m, n, k, lda, ldb, ldc = _i(it, m), _i(it, n), _i(it, k), _i(it, lda), _i(it, ldb), _i(it, ldc)
    alpha, beta = _d(it, alpha), _d(it, beta)
    if m < 0 or n < 0 or k < 0:
        raise ValueError("dgemm: negative dimension")
    if lda < max(1, m if ta == "N" else k) or ldb < max(1, k if tb == "N" else n) or ldc < max(1, m):
        raise ValueError("dgemm: leading dimension too small (lda=%d ldb=%d ldc=%d m=%d n=%d k=%d)" % (lda, ldb, ldc, m, n, k))
    for j in range(n):
        for i in range(m):
            acc = ZERO
            for l in range(k):
                x = it.load(_at(A, i + l * lda) if ta == "N" else _at(A, l + i * lda), "double")
                y = it.load(_at(B, l + j * ldb) if tb == "N" else _at(B, j + l * ldb), "double")
                acc = dag.add(acc, dag.mul(x, y))
            acc = dag.mul(alpha, acc)
            if beta is not ZERO:
                acc = dag.add(acc, dag.mul(beta, it.load(_at(C, i + j * ldc), "double")))
            it.store(_at(C, i + j * ldc), "double", acc)
    return None


def dgemv_(it, a):
    tr, m, n, alpha, A, lda, x, incx, beta, y, incy = a
    tr = _c(it, tr).upper()
    m, n, lda, incx, incy = _i(it, m), _i(it, n), _i(it, lda), _i(it, incx), _i(it, incy)
    alpha, beta = _d(it, alpha), _d(it, beta)
    leny, lenx = (m, n) if tr == "N" else (n, m)
    for i in range(leny):
        acc = ZERO
        for j in range(lenx):
            aij = it.load(_at(A, i + j * lda) if tr == "N" else _at(A, j + i * lda), "double")
            acc = dag.add(acc, dag.mul(aij, it.load(_at(x, j * incx), "double")))
        acc = dag.mul(alpha, acc)
        if beta is not ZERO:
            acc = dag.add(acc, dag.mul(beta, it.load(_at(y, i * incy), "double")))
        it.store(_at(y, i * incy), "double", acc)


def daxpy_(it, a):
    n, alpha, x, incx, y, incy = a
    n, incx, incy = _i(it, n), _i(it, incx), _i(it, incy)
    alpha = _d(it, alpha)
    for i in range(n):
        it.store(_at(y, i * incy), "double", dag.add(it.load(_at(y, i * incy), "double"), dag.mul(alpha, it.load(_at(x, i * incx), "double"))))


def dscal_(it, a):
    n, alpha, x, incx = a
    n, incx = _i(it, n), _i(it, incx)
    alpha = _d(it, alpha)
    for i in range(n):
        it.store(_at(x, i * incx), "double", dag.mul(alpha, it.load(_at(x, i * incx), "double")))


def ddot_(it, a):
    n, x, incx, y, incy = a
    n, incx, incy = _i(it, n), _i(it, incx), _i(it, incy)
    acc = ZERO
    for i in range(n):
        acc = dag.add(acc, dag.mul(it.load(_at(x, i * incx), "double"), it.load(_at(y, i * incy), "double")))
    return acc
