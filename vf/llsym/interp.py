"""Symbolic interpreter for clang's LLVM IR over the E1 expression DAG (DESIGN.md 2.3), value mode.

  * double values are DAG nodes (exact reals); llvm.fmuladd is unfused a*b+c; exp/log/sqrt/pow/atan/erf/tgamma... map to DAG atoms
  * integers are concrete Python ints (sizes, strides, offsets are fixed per run; the index layer with symbolic
    sizes is vf.llsym.addr)
  * memory = objects with an extent; every load/store is bounds-checked against the extent of the object the
    pointer was derived from (C18 obligation)
  * hybrid mode: addresses that do not fall into a registered symbolic buffer are read from the real process
    memory through ctypes (structs built by the freshly compiled library); never written
"""
import ctypes
import math
import os
import re
import struct
from fractions import Fraction

from .. import dag
from ..dag import E, ZERO, ONE, const
from ..sym import float_to_fraction
from . import ir


class OutOfBounds(Exception):
    pass


class Unsupported(Exception):
    pass


_SERIAL = [0]


class Obj(object):
    """a memory object: `data` is a list of cell values, `esize` bytes each"""

    def __init__(self, name, data, esize=8, kind="buf", writable=True):
        self.name, self.data, self.esize, self.kind, self.writable = name, data, esize, kind, writable
        _SERIAL[0] += 1
        self.serial = _SERIAL[0]
        self.reads = set()
        self.writes = set()

    @property
    def nbytes(self):
        return len(self.data) * self.esize


class MapObj(object):
    """byte-addressed object with heterogeneous cells (structs in allocas / malloc'd blocks)"""

    def __init__(self, name, nbytes, kind="local", zero=False):
        self.name, self.nbytes, self.kind, self.writable = name, nbytes, kind, True
        self.cells = {}       # byte offset -> (size, value)
        self.zero = zero
        self.esize = 1
        self.reads, self.writes = set(), set()
        _SERIAL[0] += 1
        self.serial = _SERIAL[0]


class Ptr(object):
    __slots__ = ("obj", "off")

    def __init__(self, obj, off):
        self.obj, self.off = obj, off     # off in bytes

    def __repr__(self):
        return "Ptr(%s+%s)" % (getattr(self.obj, "name", self.obj), self.off)


REAL = "REAL"     # pseudo object: absolute address in the process
_REAL_FMT = {"double": ("<d", True), "float": ("<f", True), "i32": ("<i", False), "i64": ("<q", False), "i8": ("<b", False),
             "i16": ("<h", False), "i64*": ("<Q", False)}


class _IoVec(ctypes.Structure):
    _fields_ = [("base", ctypes.c_void_p), ("len", ctypes.c_size_t)]


_LIBC = ctypes.CDLL(None, use_errno=True)
_LIBC.process_vm_readv.restype = ctypes.c_ssize_t
_LIBC.process_vm_readv.argtypes = [ctypes.c_int, ctypes.POINTER(_IoVec), ctypes.c_ulong, ctypes.POINTER(_IoVec), ctypes.c_ulong, ctypes.c_ulong]


def _safe_read(addr, n):
    """read n bytes of this process at an absolute address without faulting: None when the range is not mapped"""
    buf = ctypes.create_string_buffer(n)
    loc = _IoVec(ctypes.cast(buf, ctypes.c_void_p), n)
    rem = _IoVec(ctypes.c_void_p(addr), n)
    got = _LIBC.process_vm_readv(os.getpid(), ctypes.byref(loc), 1, ctypes.byref(rem), 1, 0)
    if got != n:
        return None
    return buf.raw


def lift_f(x):
    return const(float_to_fraction(float(x)))


class Interp(object):
    def __init__(self, module, max_steps=5_000_000, hybrid=False):
        self.m = module
        self.max_steps = max_steps
        self.steps = 0
        self.hybrid = hybrid
        self.regions = []          # hybrid: (start address, Obj) symbolic overlays over real memory
        self.extern = {}           # name -> python callable(interp, args) for external functions
        self.globals_obj = {}
        self.oob = []              # recorded out-of-bounds accesses (when not raising)
        self.raise_oob = True
        self.trace_calls = []
        self.garbage_uninit = False
        self.uninit_reads = []
        self.omp = None            # OmpState in footprint mode (vf/llsym/omp.py)

    # ------------------------------------------------------------------ helpers for harnesses
    def buf(self, name, values, esize=8, writable=True):
        return Obj(name, list(values), esize, "buf", writable)

    def overlay(self, address, obj):
        """hybrid mode: accesses in [address, address + nbytes) go to the symbolic object"""
        self.regions.append((address, obj))

    def ptr(self, obj, elem=0):
        return Ptr(obj, elem * obj.esize)

    # ------------------------------------------------------------------ value decoding
    def val(self, env, ty, tok):
        if tok[0] == "%":
            return env[tok]
        if tok[0] == "@":
            return self.global_ptr(tok)
        if tok.startswith("bitcast ("):
            mm = re.search(r"(@[\w.\-$]+) to ", tok)
            if mm:
                return self.global_ptr(mm.group(1))
        ty = ty.strip()
        if ty in ("double", "float"):
            return lift_f(ir.parse_double(tok))
        if tok in ("null", "undef", "poison", "zeroinitializer"):
            if ty.endswith("*"):
                return Ptr(REAL, 0) if self.hybrid else None
            if ty in ("double", "float"):
                return ZERO
            return 0
        if tok == "true":
            return True
        if tok == "false":
            return False
        return int(tok)

    def global_ptr(self, name):
        o = self.globals_obj.get(name)
        if o is None:
            init = self.m.globals.get(name)
            if init is None:
                if name[1:] in self.m.fns or name[1:] in self.m.declared:
                    return ("fn", name[1:])
                raise Unsupported("global " + name)
            mm = re.match(r"\[(\d+) x (\w+)\] \[", init)
            if mm:
                ty, vals = ir.global_doubles(self.m, name)
                if ty in ("double", "float"):
                    o = Obj(name, [lift_f(v) for v in vals], 8 if ty == "double" else 4, "global", False)
                else:
                    o = Obj(name, vals, ir.PRIM[ty], "global", False)
            elif init.startswith("[") and " c\"" in init:
                o = Obj(name, [0] * int(re.match(r"\[(\d+)", init).group(1)), 1, "global", False)
            else:
                mm = re.match(r"(double|i32|i64|float) (\S+)", init)
                if mm:
                    t = mm.group(1)
                    v = lift_f(ir.parse_double(mm.group(2))) if t in ("double", "float") else int(mm.group(2))
                    o = Obj(name, [v], ir.PRIM[t], "global", True)
                elif init.startswith("%struct.ident_t"):
                    o = MapObj(name, 24, "global", zero=True)       # OpenMP source-location descriptor: never dereferenced by the model
                elif re.match(r".*\* null", init):
                    o = Obj(name, [None], 8, "global", True)
                elif re.match(r"(%[\w.]+) zeroinitializer", init):
                    # a zero-initialised struct with static storage (e.g. a cached handle): byte-addressed, all zero
                    o = MapObj(name, self.m.size_align(re.match(r"(%[\w.]+) zeroinitializer", init).group(1))[0], "global", zero=True)
                else:
                    raise Unsupported("global initializer " + init[:60])
            self.globals_obj[name] = o
        return Ptr(o, 0)

    # ------------------------------------------------------------------ memory
    def _resolve(self, p, size):
        """-> (obj, index) for symbolic objects or (REAL, address)"""
        if p is None:
            raise OutOfBounds("null pointer dereference")
        if p.obj is REAL:
            a = p.off
            for start, o in self.regions:
                if start <= a < start + o.nbytes:
                    off = a - start
                    if off % o.esize or size != o.esize:
                        raise Unsupported("misaligned overlay access")
                    return o, off // o.esize
            return REAL, a
        o = p.obj
        off = p.off
        if isinstance(o, MapObj):
            if off < 0 or off + size > o.nbytes:
                msg = "%s: access of %d bytes at byte offset %d outside the %d-byte object" % (o.name, size, off, o.nbytes)
                if self.raise_oob:
                    raise OutOfBounds(msg)
                self.oob.append(msg)
                return None, None
            return o, off
        if off < 0 or off + size > o.nbytes:
            msg = "%s: access of %d bytes at byte offset %d outside the %d-byte object" % (o.name, size, off, o.nbytes)
            if self.raise_oob:
                raise OutOfBounds(msg)
            self.oob.append(msg)
            return None, None
        if off % o.esize or size != o.esize:
            if size < o.esize and off % size == 0:
                raise Unsupported("sub-element access on " + o.name)
            raise Unsupported("misaligned access on %s (off %d size %d esize %d)" % (o.name, off, size, o.esize))
        return o, off // o.esize

    def load(self, p, ty):
        size = self.m.size_align(ty)[0]
        o, i = self._resolve(p, size)
        if self.omp is not None:
            self.omp.record(o, i * (1 if (o is REAL or isinstance(o, MapObj) or o is None) else o.esize), size, "R")
        if o is None:
            return ZERO if ty in ("double", "float") else 0
        if o is REAL:
            return self._real_load(i, ty)
        if isinstance(o, MapObj):
            c = o.cells.get(i)
            if c is None:
                if o.zero:
                    return ZERO if ty in ("double", "float") else (Ptr(REAL, 0) if ty.endswith("*") and self.hybrid else (None if ty.endswith("*") else 0))
                if self.garbage_uninit and ty in ("double", "float"):
                    # an uninitialised heap double is whatever the allocator left there: an unconstrained real (team-schedule mode)
                    v = dag.var("uninit_%s_%d" % (o.name, i))
                    o.cells[i] = (size, v)
                    self.uninit_reads.append("%s+%d" % (o.name, i))
                    return v
                raise Unsupported("read of uninitialised bytes %s+%d" % (o.name, i))
            if c[0] != size:
                raise Unsupported("load of %d bytes from a %d-byte cell at %s+%d" % (size, c[0], o.name, i))
            return c[1]
        o.reads.add(i)
        v = o.data[i]
        if v is None:
            raise Unsupported("read of uninitialised cell %s[%d]" % (o.name, i))
        return v

    def store(self, p, ty, v):
        size = self.m.size_align(ty)[0]
        o, i = self._resolve(p, size)
        if self.omp is not None and o is not None and o is not REAL:
            old = (o.cells.get(i, (None, None))[1] if isinstance(o, MapObj) else o.data[i])
            same = old is v or (isinstance(old, (int, bool)) and isinstance(v, (int, bool)) and old == v)
            self.omp.record(o, i * (1 if isinstance(o, MapObj) else o.esize), size, "W", silent=same)
        if o is None:
            return
        if o is REAL:
            raise OutOfBounds("store to library-owned memory at 0x%x" % i)
        if not o.writable:
            raise OutOfBounds("store to read-only object " + o.name)
        if isinstance(o, MapObj):
            # overwrite any overlapping cells
            for k in [k for k, c in o.cells.items() if k < i + size and i < k + c[0] and k != i]:
                del o.cells[k]
            o.cells[i] = (size, v)
            return
        o.writes.add(i)
        o.data[i] = v

    def _real_load(self, addr, ty):
        if not self.hybrid:
            raise OutOfBounds("load from raw address")
        fmt = _REAL_FMT.get("i64*" if ty.endswith("*") else ty)
        if fmt is None:
            raise Unsupported("real load of " + ty)
        raw = _safe_read(addr, struct.calcsize(fmt[0]))
        if raw is None:
            # the page is not mapped: the real code would fault here too (reported like any other out-of-bounds access)
            raise OutOfBounds("load of %s from unmapped process address 0x%x" % (ty, addr))
        v = struct.unpack(fmt[0], raw)[0]
        if fmt[1]:
            return lift_f(v)
        if ty.endswith("*"):
            return Ptr(REAL, v)
        return v

    # ------------------------------------------------------------------ execution
    def call(self, name, args):
        fn = self.m.fns.get(name)
        if fn is None:
            return self.external(name, args)
        env = {}
        for (ty, pname), a in zip(fn.params, args):
            env[pname] = a
        cur, prev = fn.order[0], None
        blocks = fn.blocks
        while True:
            nxt = None
            for ins in blocks[cur]:
                self.steps += 1
                if self.steps > self.max_steps:
                    raise Unsupported("step budget exceeded in " + name)
                r = self.step(env, ins, prev)
                if r is None:
                    continue
                if r[0] == "br":
                    nxt = r[1]
                    break
                return r[1]
            if nxt is None:
                raise Unsupported("fell off block " + cur)
            prev, cur = cur, nxt

    def step(self, env, ins, prev):
        op, p, dst = ins.op, ins.p, ins.dst
        if op == "getelementptr":
            base_ty, bval, idx = p
            base = self.val(env, "ptr*", bval)
            t0, v0 = idx[0]
            i0 = self.val(env, t0, v0)
            off = i0 * self.m.size_align(base_ty)[0]
            cur = base_ty
            for t, v in idx[1:]:
                i = self.val(env, t, v)
                if cur in self.m.structs or cur.startswith("{"):
                    o, cur = self.m.field(cur, i)
                    off += o
                elif cur.startswith("["):
                    et, n = self.m.elem_type(cur)
                    off += i * self.m.size_align(et)[0]
                    cur = et
                else:
                    raise Unsupported("gep into " + cur)
            env[dst] = Ptr(base.obj, base.off + off)
            return
        if op == "load":
            env[dst] = self.load(self.val(env, "ptr*", p[1]), p[0])
            return
        if op == "store":
            self.store(self.val(env, "ptr*", p[2]), p[0], self.val(env, p[0], p[1]))
            return
        if op in ("fadd", "fsub", "fmul", "fdiv"):
            a, b = self.val(env, p[0], p[1]), self.val(env, p[0], p[2])
            if op == "fadd":
                env[dst] = dag.add(a, b)
            elif op == "fsub":
                env[dst] = dag.sub(a, b)
            elif op == "fmul":
                env[dst] = dag.mul(a, b)
            else:
                env[dst] = dag.div(a, b)
            return
        if op == "fneg":
            env[dst] = dag.neg(self.val(env, p[0], p[1]))
            return
        if op == "phi":
            ty, inc = p
            if prev not in inc:
                raise Unsupported("phi without incoming for " + str(prev))
            env[dst] = self.val(env, ty, inc[prev])
            return
        if op in ("add", "sub", "mul", "sdiv", "udiv", "srem", "urem", "shl", "ashr", "lshr", "and", "or", "xor"):
            a, b = self.val(env, p[0], p[1]), self.val(env, p[0], p[2])
            if isinstance(a, bool) or isinstance(b, bool):
                a, b = int(a), int(b)
                isb = p[0] == "i1"
            else:
                isb = False
            if op == "add":
                r = a + b
            elif op == "sub":
                r = a - b
            elif op == "mul":
                r = a * b
            elif op in ("sdiv", "udiv"):
                if b == 0:
                    raise OutOfBounds("integer division by zero")
                r = abs(a) // abs(b) * (1 if (a >= 0) == (b >= 0) else -1)
            elif op in ("srem", "urem"):
                if b == 0:
                    raise OutOfBounds("integer remainder by zero")
                r = abs(a) % abs(b) * (1 if a >= 0 else -1)
            elif op == "shl":
                r = a << b
            elif op in ("ashr", "lshr"):
                r = a >> b
            elif op == "and":
                r = a & b
            elif op == "or":
                r = a | b
            else:
                r = a ^ b
            bits = int(p[0][1:]) if p[0][0] == "i" else 64
            if bits < 64 or True:
                # two's complement wrap (reports signed overflow on nsw as it would be UB)
                lim = 1 << (bits - 1)
                if not (-lim <= r < lim) and bits > 1:
                    if "nsw" in ins.text:
                        raise OutOfBounds("signed integer overflow in " + ins.text)
                    r = (r + lim) % (1 << bits) - lim
            env[dst] = bool(r & 1) if isb else r
            return
        if op == "icmp":
            pred, ty, a, b = p
            x, y = self.val(env, ty, a), self.val(env, ty, b)
            if isinstance(x, Ptr) or isinstance(y, Ptr) or x is None or y is None:
                xa = (id(x.obj), x.off) if isinstance(x, Ptr) else (0, 0)
                ya = (id(y.obj), y.off) if isinstance(y, Ptr) else (0, 0)
                if isinstance(x, Ptr) and x.obj is REAL:
                    xa = (0, x.off)
                if isinstance(y, Ptr) and y.obj is REAL:
                    ya = (0, y.off)
                env[dst] = (xa == ya) if pred == "eq" else (xa != ya) if pred == "ne" else _cmp(pred, xa[1], ya[1])
                return
            if pred[0] == "u" and (x < 0 or y < 0):
                bits = int(ty[1:])
                x, y = x % (1 << bits), y % (1 << bits)
            env[dst] = _cmp(pred, int(x), int(y))
            return
        if op == "fcmp":
            pred, ty, a, b = p
            x, y = self.val(env, ty, a), self.val(env, ty, b)
            env[dst] = self.fcmp(pred, x, y)
            return
        if op == "br":
            c, t, f = p
            if c is None:
                return ("br", t)
            return ("br", t if self.val(env, "i1", c) else f)
        if op == "switch":
            ty, v, default, cases = p
            x = self.val(env, ty, v)
            for cv, blk in cases:
                if x == cv:
                    return ("br", blk)
            return ("br", default)
        if op == "ret":
            if p[0] is None:
                return ("ret", None)
            return ("ret", self.val(env, p[0], p[1]))
        if op in ("sext", "zext", "trunc", "bitcast", "fpext", "fptrunc", "ptrtoint", "inttoptr"):
            v = self.val(env, p[0], p[1])
            if op == "zext" and isinstance(v, bool):
                v = int(v)
            elif op == "zext" and isinstance(v, int) and v < 0:
                v = v % (1 << int(p[0][1:]))
            elif op == "sext" and isinstance(v, bool):
                v = -int(v)
            elif op == "trunc" and isinstance(v, int):
                bits = int(p[2][1:])
                if bits == 1:
                    v = bool(v & 1)
                else:
                    lim = 1 << (bits - 1)
                    v = (v + lim) % (1 << bits) - lim
            elif op == "ptrtoint":
                if isinstance(v, Ptr) and v.obj is REAL:
                    v = v.off
                else:
                    raise Unsupported("ptrtoint of symbolic pointer")
            elif op == "inttoptr":
                v = Ptr(REAL, v)
            env[dst] = v
            return
        if op in ("sitofp", "uitofp"):
            env[dst] = const(int(self.val(env, p[0], p[1])))
            return
        if op in ("fptosi", "fptoui"):
            v = self.val(env, p[0], p[1])
            if v.op != "const":
                f = dag.numeric(v) if dag.is_ground(v) else None
                if f is None:
                    # symbolic double -> int: accepted only if the harness's assumptions pin the integer part
                    from .. import sym
                    x = sym.S(v)
                    for n in getattr(self, "floor_hints", ()):
                        if n >= 0 and bool(x >= n) and bool(x < n + 1):
                            f = n
                            break
                    if f is None:
                        raise Unsupported("fptosi of a symbolic double whose integer part is not fixed by the assumptions")
                env[dst] = int(f)
            else:
                env[dst] = int(v.args[0])
            return
        if op == "select":
            c = self.val(env, "i1", p[0])
            env[dst] = self.val(env, p[1], p[2]) if c else self.val(env, p[1], p[3])
            return
        if op == "alloca":
            ty, n = p
            cnt = 1 if n is None else self.val(env, n[0], n[1])
            size = self.m.size_align(ty)[0]
            if ty in ir.PRIM or ty.endswith("*"):
                env[dst] = Ptr(Obj("alloca" + dst, [None] * cnt, size, "local"), 0)
            else:
                env[dst] = Ptr(MapObj("alloca" + dst, size * cnt, "local"), 0)
            return
        if op in ("call", "tail", "notail", "musttail"):
            rty, name, ops = p
            if name.startswith("llvm.lifetime") or name.startswith("llvm.dbg") or name.startswith("llvm.assume") or name.startswith("llvm.experimental.noalias"):
                return
            args = [self.val(env, t, v) for t, v in ops]
            if name[0] == "%":
                tgt = env[name]
                if isinstance(tgt, tuple) and tgt[0] == "fn":
                    name = tgt[1]
                else:
                    raise Unsupported("indirect call")
            r = self.call(name, args)
            if dst is not None:
                env[dst] = r
            return
        if op == "extractvalue":
            mm = re.match(r"extractvalue (.*) (%[\w.\-$]+), (\d+)$", p[0])
            env[dst] = env[mm.group(2)][int(mm.group(3))]
            return
        if op == "insertvalue":
            mm = re.match(r"insertvalue (\{.*?\}|%[\w.]+) (\S+), (\S+) (\S+), (\d+)$", p[0])
            agg = mm.group(2)
            base = list(env[agg]) if agg[0] == "%" else [None, None]
            base[int(mm.group(5))] = self.val(env, mm.group(3), mm.group(4))
            env[dst] = tuple(base)
            return
        if op == "unreachable":
            raise Unsupported("reached 'unreachable' (exit() after an error message)")
        raise Unsupported("instruction " + ins.text)

    def fcmp(self, pred, x, y):
        if pred == "uno":
            return False       # exact reals are never NaN
        if pred == "ord":
            return True
        d = dag.sub(x, y)
        if d.op == "const":
            v = d.args[0]
        elif dag.is_ground(d):
            v = dag.numeric(d)
        else:
            return self.sym_fcmp(pred, x, y)
        p = pred[1:] if pred[0] in "ou" and len(pred) == 3 else pred
        return {"eq": v == 0, "ne": v != 0, "gt": v > 0, "ge": v >= 0, "lt": v < 0, "le": v <= 0, "ord": True, "uno": False, "true": True, "false": False}[p]

    def sym_fcmp(self, pred, x, y):
        """comparison of symbolic doubles: delegated to the E1 path explorer (forks on feasibility)"""
        from .. import sym
        a, b = sym.S(x), sym.S(y)
        p = pred[1:] if len(pred) == 3 else pred
        if p == "gt":
            return bool(a > b)
        if p == "ge":
            return bool(a >= b)
        if p == "lt":
            return bool(a < b)
        if p == "le":
            return bool(a <= b)
        if p == "eq":
            return bool(a == b)
        if p == "ne":
            return bool(a != b)
        raise Unsupported("fcmp " + pred)

    # ------------------------------------------------------------------ externals
    def external(self, name, a):
        h = self.extern.get(name)
        if h is not None:
            return h(self, a)
        if name in ("exp", "log", "tanh", "erf", "sin", "cos", "sinh", "cosh", "expm1", "log1p"):
            return self._fn1(name, a[0])
        if name == "atan":
            if a[0] is ONE:
                return dag.mul(dag.PI, const(Fraction(1, 4)))
            return self._fn1("atan", a[0])
        if name in ("sqrt", "llvm.sqrt.f64"):
            return dag.rpow(a[0], Fraction(1, 2))
        if name == "cbrt":
            return dag.rpow(a[0], Fraction(1, 3))
        if name in ("fabs", "llvm.fabs.f64"):
            if dag.is_nonneg(a[0]):
                return a[0]
            return a[0] if self.fcmp("oge", a[0], ZERO) else dag.neg(a[0])
        if name in ("pow", "llvm.pow.f64"):
            b, e = a
            if e.op == "const":
                return dag.rpow(b, e.args[0])
            return dag.gpow(b, e)
        if name in ("llvm.powi.f64.i32", "llvm.powi.f64"):
            return dag.ipow(a[0], int(a[1]))
        if name == "llvm.fmuladd.f64" or name == "llvm.fma.f64" or name == "fma":
            return dag.add(dag.mul(a[0], a[1]), a[2])
        mm = re.match(r"llvm\.(u|s)(mul|add|sub)\.with\.overflow\.i(32|64)$", name)
        if mm:
            # {result, overflow flag}: exact integer arithmetic, the flag computed from the declared width
            bits = int(mm.group(3))
            x, y = int(a[0]), int(a[1])
            r = {"mul": x * y, "add": x + y, "sub": x - y}[mm.group(2)]
            lo, hi = (0, 2 ** bits - 1) if mm.group(1) == "u" else (-2 ** (bits - 1), 2 ** (bits - 1) - 1)
            ovf = not (lo <= r <= hi)
            if ovf:
                raise Unsupported("integer overflow in %s(%d, %d)" % (name, x, y))
            return (r, False)
        if name in ("llvm.smax.i32", "llvm.smax.i64", "llvm.umax.i32", "llvm.umax.i64"):
            if name.startswith("llvm.umax") and (a[0] < 0 or a[1] < 0):
                raise Unsupported("umax of negative values")
            return max(a[0], a[1])
        if name in ("llvm.smin.i32", "llvm.smin.i64", "llvm.umin.i32", "llvm.umin.i64"):
            if name.startswith("llvm.umin") and (a[0] < 0 or a[1] < 0):
                raise Unsupported("umin of negative values")
            return min(a[0], a[1])
        if name in ("llvm.abs.i32", "llvm.abs.i64"):
            return abs(a[0])
        if name in ("llvm.maxnum.f64", "fmax"):
            return a[0] if self.fcmp("oge", a[0], a[1]) else a[1]
        if name in ("llvm.minnum.f64", "fmin"):
            return a[0] if self.fcmp("ole", a[0], a[1]) else a[1]
        if name in ("floor", "llvm.floor.f64", "ceil", "llvm.ceil.f64"):
            if dag.is_ground(a[0]):
                f = dag.numeric(a[0])
                return const(math.floor(f) if "floor" in name else math.ceil(f))
            raise Unsupported("floor/ceil of a symbolic double")
        if name in ("tgamma", "lgamma"):
            if dag.is_ground(a[0]):
                return lift_f(math.gamma(dag.numeric(a[0])) if name == "tgamma" else math.lgamma(dag.numeric(a[0])))
            raise Unsupported(name + " of a symbolic double")
        if name == "creal":
            return a[0]
        if name == "cimag":
            return a[1]
        if name == "__muldc3":
            return (dag.sub(dag.mul(a[0], a[2]), dag.mul(a[1], a[3])), dag.add(dag.mul(a[0], a[3]), dag.mul(a[1], a[2])))
        if name in ("omp_get_num_threads", "omp_get_max_threads"):
            return 1        # serial semantics (the -fno-openmp IR): one thread; thread-count questions are C10's
        if name == "omp_get_thread_num":
            return 0
        if name in ("malloc", "calloc"):
            n = a[0] if name == "malloc" else a[0] * a[1]
            return Ptr(MapObj("heap%d" % self.steps, n, "heap", zero=(name == "calloc")), 0)
        if name == "free":
            return None
        if name in ("printf", "puts", "fprintf", "putchar"):
            return 0
        if name == "exit":
            raise Unsupported("exit() called")
        if name in ("memcpy", "memmove", "memset"):
            # the libc entry points (emitted when the length is not a compile-time constant): same semantics as the intrinsics, return dest
            self.external("llvm." + name + ".libc", a[:3])
            return a[0]
        if name.startswith("llvm.memset"):
            p, v, n = a[0], a[1], a[2]
            if v != 0:
                raise Unsupported("memset non-zero")
            if isinstance(p.obj, MapObj):
                if p.off < 0 or p.off + n > p.obj.nbytes:
                    raise OutOfBounds("memset past the end of " + p.obj.name)
                for k in [k for k in p.obj.cells if p.off <= k < p.off + n]:
                    del p.obj.cells[k]
                if not p.obj.zero:
                    for k in range(0, n, 8):
                        p.obj.cells[p.off + k] = (8, ZERO)
                return None
            o, i = self._resolve(Ptr(p.obj, p.off), p.obj.esize if p.obj is not REAL else 8)
            cnt = n // o.esize
            if i + cnt > len(o.data):
                raise OutOfBounds("memset past the end of " + o.name)
            for k in range(cnt):
                o.data[i + k] = ZERO if o.esize == 8 else 0
                o.writes.add(i + k)
            return None
        if name.startswith("llvm.memcpy") or name.startswith("llvm.memmove"):
            d, s, n = a[0], a[1], a[2]
            if isinstance(s.obj, MapObj):
                for k, c in sorted(s.obj.cells.items()):
                    if s.off <= k < s.off + n:
                        self.store(Ptr(d.obj, d.off + (k - s.off)), {8: "i64", 4: "i32", 1: "i8"}[c[0]] if not isinstance(c[1], dag.E) else "double", c[1])
                return None
            es = 8
            for k in range(n // es):
                v = self.load(Ptr(s.obj, s.off + k * es), "double" if True else "i64")
                self.store(Ptr(d.obj, d.off + k * es), "double", v)
            return None
        if name in ("omp_get_thread_num",):
            return 0
        if name in ("omp_get_num_threads", "omp_get_max_threads"):
            return 1
        if name in ("dgemm_", "dgemv_", "daxpy_", "dscal_", "ddot_"):
            from . import blas
            return getattr(blas, name)(self, a)
        raise Unsupported("external function " + name)

    def _fn1(self, name, x):
        if x.op == "const" and x.args[0] == 0:
            return ONE if name in ("exp", "cos", "cosh") else ZERO
        return dag.fn(name, x)


def _cmp(pred, x, y):
    return {"eq": x == y, "ne": x != y, "sgt": x > y, "sge": x >= y, "slt": x < y, "sle": x <= y,
            "ugt": x > y, "uge": x >= y, "ult": x < y, "ule": x <= y}[pred]
