"""C02, spline-plan link: the real NLDFSplinePlan._run_setup (ciderpress/dft/plans.py) builds, for every feature and for theta, a
table of cubic splines through the interpolation coefficients at a dense set of exponents.  At every knot a cubic spline returns the
value it was built from, so at the knots the spline plan must give exactly what the Gaussian plan gives for the *same feature*:

    NLDFSplinePlan._alpha_transform[i][k, q, 0]  ==  NLDFGaussianPlan.get_transformed_interpolation_terms(
                                                         NLDFGaussianPlan.get_interpolation_coefficients(a_k, i), i, fwd=True)[q]

Both plans run their real set-up and evaluation code.  Contract stubs: the coefficient routine cider_coefs_gto_gq/qg is an unknown
function of (feature id, extra arguments, alpha_q, exponent) - one fresh real per distinct argument tuple (what it computes is decided
on the C in the gto tasks) - and the Cholesky solve is an exact solve.  The settings carry two se_erf_rinv features with different
erf ratios, se, se_ar2 and theta, so a table built from another feature's arguments is a different term."""
import ctypes
from fractions import Fraction

import numpy as np

from .. import dag
from ..sym import S, ArrHandle, lift


def _settings(st):
    return st.NLDFSettingsVJ("MGGA", [1.0, 0.0, 0.03125], "one", ["se", "se_erf_rinv", "se_ar2", "se_erf_rinv"],
                             [[2.0, 0.0, 0.04], [1.5, 0.0, 0.04, 0.5], [1.0, 0.0, 0.04], [1.5, 0.0, 0.04, 4.0]])


class _Contract(object):
    """cider_coefs_gto_gq/qg(p, dp, arg_g, alphas, n, nalpha, feat_id, extra): p[g, q] (or [q, g]) = F(feat_id, extra, alphas[q], arg[g])"""

    def __init__(self, order):
        self.order, self.syms, self.calls = order, {}, []

    def __call__(self, p, dp, arg, alphas, n, na, feat_id, extra):
        n, na, feat_id = int(n.value), int(na.value), int(feat_id.value)
        ex = tuple(float(v) for v in extra) if isinstance(extra, ctypes.Array) else ()
        def vec(h, m):
            if isinstance(h, ArrHandle):
                return np.asarray(h.arr, dtype=object).ravel()
            return np.array([S(dag.const(Fraction(float(v)))) for v in (ctypes.c_double * m).from_address(h.value)], dtype=object)
        A, AL = vec(arg, n), vec(alphas, na)
        P, DP = p.arr, dp.arr
        self.calls.append((feat_id, ex))
        for g in range(n):
            for q in range(na):
                key = (feat_id, ex, lift(AL[q]), lift(A[g]))
                if key not in self.syms:
                    k = len(self.syms)
                    self.syms[key] = (S(dag.var("coef%d_f%d" % (k, feat_id))), S(dag.var("dcoef%d_f%d" % (k, feat_id))))
                idx = (g, q) if self.order == "gq" else (q, g)
                P[idx], DP[idx] = self.syms[key]


def h_spline_knots(env, order, nalpha=2, spline_size=3):
    plans, st = env.m.plans, env.m.settings
    s = _settings(st)
    old_solve = plans._stable_solve
    if env.sym:
        from ..npshim import gauss_solve
        from . import common
        lib = common.ctx().load_library("libmcider")
        saved = {k: lib.handlers.get(k) for k in ("cider_coefs_gto_gq", "cider_coefs_gto_qg")}
        con = _Contract(order)
        lib.handlers["cider_coefs_gto_gq"] = lib.handlers["cider_coefs_gto_qg"] = con
        plans._stable_solve = lambda a, b: gauss_solve(np.asarray(a, dtype=object), np.asarray(b, dtype=object))
    try:
        a0, lam = env.const(Fraction(1, 4)), env.const(2)
        ok, sp = env.attempt("spline_plan_setup_returns", lambda: plans.NLDFSplinePlan(s, 1, a0, lam, nalpha, coef_order=order, spline_size=spline_size))
        if not ok:
            return
        ok, gp = env.attempt("gaussian_plan_setup_returns", lambda: plans.NLDFGaussianPlan(s, 1, a0, lam, nalpha, coef_order=order))
        if not ok:
            return
        idx = np.arange(0, spline_size).astype(np.float64) * (nalpha - 1) / (spline_size - 1)
        dense = sp.get_q2a(idx)
        nset = s.num_feat_param_sets
        env.check("one_table_per_feature_plus_theta", len(sp._alpha_transform) == nset + 1, "%d tables for %d features" % (len(sp._alpha_transform), nset))
        for i in list(range(nset)) + [-1]:
            tab = sp._alpha_transform[i]
            env.check("table_shape_i%d" % i, np.shape(tab) == (spline_size, nalpha, 4), str(np.shape(tab)))
            for k in range(spline_size - 1):
                a_k = np.ascontiguousarray(np.asarray(dense)[k:k + 1]) if not env.sym else dense[k:k + 1].copy()
                p, _ = gp.get_interpolation_coefficients(a_k, i=i)
                t = gp.get_transformed_interpolation_terms(p, i=i, fwd=True, inplace=False)
                t = np.asarray(t, dtype=object if env.sym else float).reshape(-1)
                for q in range(nalpha):
                    env.equal("feature%d_knot%d_q%d_spline_value_is_the_gaussian_plan_coefficient" % (i, k, q), tab[k, q, 0], t[q])
    finally:
        plans._stable_solve = old_solve
        if env.sym:
            for k, v in saved.items():
                if v is None:
                    lib.handlers.pop(k, None)
                else:
                    lib.handlers[k] = v
