"""C02, spline-plan link: the real NLDFSplinePlan._run_setup (ciderpress/dft/plans.py) builds, for every feature and for theta, a
table of cubic splines through the interpolation coefficients at a dense set of exponents.  At every knot a cubic spline returns the
value it was built from, so at the knots the spline plan must give exactly what the Gaussian plan gives for the *same feature*:

    NLDFSplinePlan._alpha_transform[i][k, q, 0]  ==  NLDFGaussianPlan.get_transformed_interpolation_terms(
                                                         NLDFGaussianPlan.get_interpolation_coefficients(a_k, i), i, fwd=True)[q]

Both plans run their real set-up and evaluation code.  Contract stubs: the coefficient routine cider_coefs_gto_gq/qg is an unknown
function of (feature id, extra arguments, alpha_q, exponent) - one fresh real per distinct argument tuple (what it computes is decided
on the C in the gto tasks) - and the Cholesky solve is an exact solve.  The settings carry two se_erf_rinv features with different
erf ratios, se, se_ar2 and theta, so a table built from another feature's arguments is a different term."""
import ctypes
from fractions import Fraction

import numpy as np

from .. import dag
from ..sym import S, ArrHandle, lift


def _settings(st):
    return st.NLDFSettingsVJ("MGGA", [1.0, 0.0, 0.03125], "one", ["se", "se_erf_rinv", "se_ar2", "se_erf_rinv"],
                             [[2.0, 0.0, 0.04], [1.5, 0.0, 0.04, 0.5], [1.0, 0.0, 0.04], [1.5, 0.0, 0.04, 4.0]])


class _Contract(object):
    """cider_coefs_gto_gq/qg(p, dp, arg_g, alphas, n, nalpha, feat_id, extra): p[g, q] (or [q, g]) = F(feat_id, extra, alphas[q], arg[g])"""

    def __init__(self, order):
        self.order, self.syms, self.calls = order, {}, []

    def __call__(self, p, dp, arg, alphas, n, na, feat_id, extra):
        n, na, feat_id = int(n.value), int(na.value), int(feat_id.value)
        ex = tuple(float(v) for v in extra) if isinstance(extra, ctypes.Array) else ()
        def vec(h, m):
            if isinstance(h, ArrHandle):
                return np.asarray(h.arr, dtype=object).ravel()
            return np.array([S(dag.const(Fraction(float(v)))) for v in (ctypes.c_double * m).from_address(h.value)], dtype=object)
        A, AL = vec(arg, n), vec(alphas, na)
        P, DP = p.arr, dp.arr
        self.calls.append((feat_id, ex))
        for g in range(n):
            for q in range(na):
                key = (feat_id, ex, lift(AL[q]), lift(A[g]))
                if key not in self.syms:
                    k = len(self.syms)
                    self.syms[key] = (S(dag.var("coef%d_f%d" % (k, feat_id))), S(dag.var("dcoef%d_f%d" % (k, feat_id))))
                idx = (g, q) if self.order == "gq" else (q, g)
                P[idx], DP[idx] = self.syms[key]


def h_spline_knots(env, order, nalpha=2, spline_size=3):
    plans, st = env.m.plans, env.m.settings
    s = _settings(st)
    old_solve = plans._stable_solve
    if env.sym:
        from ..npshim import gauss_solve
        from . import common
        lib = common.ctx().load_library("libmcider")
        saved = {k: lib.handlers.get(k) for k in ("cider_coefs_gto_gq", "cider_coefs_gto_qg")}
        con = _Contract(order)
        lib.handlers["cider_coefs_gto_gq"] = lib.handlers["cider_coefs_gto_qg"] = con
        plans._stable_solve = lambda a, b: gauss_solve(np.asarray(a, dtype=object), np.asarray(b, dtype=object))
    try:
        a0, lam = env.const(Fraction(1, 4)), env.const(2)
        ok, sp = env.attempt("spline_plan_setup_returns", lambda: plans.NLDFSplinePlan(s, 1, a0, lam, nalpha, coef_order=order, spline_size=spline_size))
        if not ok:
            return
        ok, gp = env.attempt("gaussian_plan_setup_returns", lambda: plans.NLDFGaussianPlan(s, 1, a0, lam, nalpha, coef_order=order))
        if not ok:
            return
        idx = np.arange(0, spline_size).astype(np.float64) * (nalpha - 1) / (spline_size - 1)
        dense = sp.get_q2a(idx)
        nset = s.num_feat_param_sets
        env.check("one_table_per_feature_plus_theta", len(sp._alpha_transform) == nset + 1, "%d tables for %d features" % (len(sp._alpha_transform), nset))
        for i in list(range(nset)) + [-1]:
            tab = sp._alpha_transform[i]
            env.check("table_shape_i%d" % i, np.shape(tab) == (spline_size, nalpha, 4), str(np.shape(tab)))
            for k in range(spline_size - 1):
                a_k = np.ascontiguousarray(np.asarray(dense)[k:k + 1]) if not env.sym else dense[k:k + 1].copy()
                p, _ = gp.get_interpolation_coefficients(a_k, i=i)
                t = gp.get_transformed_interpolation_terms(p, i=i, fwd=True, inplace=False)
                t = np.asarray(t, dtype=object if env.sym else float).reshape(-1)
                for q in range(nalpha):
                    env.equal("feature%d_knot%d_q%d_spline_value_is_the_gaussian_plan_coefficient" % (i, k, q), tab[k, q, 0], t[q])
    finally:
        plans._stable_solve = old_solve
        if env.sym:
            for k, v in saved.items():
                if v is None:
                    lib.handlers.pop(k, None)
                else:
                    lib.handlers[k] = v


# ---------------------------------------------------------------------------------------------------------------------------------
def h_contrib_layout(env, ifeat_ids=(0, 3, 6, 7), has_vj=False):
    """ConvolutionCollection.__init__ (ciderpress/dft/lcao_convolutions.py) hands the C library one array of contribution ids; the
    orbital-to-grid routines read the output columns in *blocked* order: n0 scalar columns, then the l-1 column of every vector
    feature (column n0 + i feeds fill_l1_coeff for feature i), then the l+1 column of every vector feature (columns n0 + n1 + i,
    `offset_orb = n0 + n1` in LCAOInterpolator.conv2spline).  Decided as facts on the real constructor: the array that reaches
    generate_convolution_collection has that order for two vector features, and n0, n1, num_out agree with it."""
    lc = env.m.lcao_convolutions
    got = {}
    if env.sym:
        from . import common
        lib = common.ctx().load_library("libmcider")
        saved = {k: lib.handlers.get(k) for k in ("generate_convolution_collection",)}     # (the no-op destructor handler stays)

        def gen(ccl, a_in, a_out, alphas, norms, ids, nalpha, nids, vj):
            n = int(nids.value)
            if isinstance(ids, ArrHandle):
                got["ids"] = [int(v) for v in np.asarray(ids.arr).ravel()[:n]]
            else:
                got["ids"] = list((ctypes.c_int32 * n).from_address(ids.value)) if n else []
        lib.handlers["generate_convolution_collection"] = gen
        lib.handlers["free_convolution_collection"] = lambda *a: None
        atco = type("A", (), {"atco_c_ptr": ctypes.c_void_p(0), "nao": 3})()
        alphas, norms = np.array([0.5, 1.0]), np.array([1.0, 1.0])
    else:
        from . import c05
        W = c05._real_world()
        atco, alphas, norms = W["atco"], W["alphas"], (np.pi / (2 * W["alphas"])) ** -0.75
    try:
        ok, ccl = env.attempt("constructor_returns", lambda: lc.ConvolutionCollection(atco, atco, alphas, norms, has_vj=has_vj, ifeat_ids=list(ifeat_ids)))
    finally:
        if env.sym:
            for k, v in saved.items():
                if v is None:
                    lib.handlers.pop(k, None)
                else:
                    lib.handlers[k] = v
    if not ok:
        return
    ids = got.get("ids") if env.sym else [int(v) for v in ccl._icontrib_ids]
    scal = [f for f in ifeat_ids if isinstance(lc.IFEAT_ID_TO_CONTRIB[f], int)]
    vec = [f for f in ifeat_ids if not isinstance(lc.IFEAT_ID_TO_CONTRIB[f], int)]
    n0, n1 = len(scal) + (len(alphas) if has_vj else 0), len(vec)
    want = [lc.IFEAT_ID_TO_CONTRIB[f] for f in scal] + [lc.IFEAT_ID_TO_CONTRIB[f][0] for f in vec] + [lc.IFEAT_ID_TO_CONTRIB[f][1] for f in vec]
    env.check("ids_reach_C_in_blocked_order", ids == want, "C receives %r, the interpolation routines assume %r" % (ids, want))
    env.check("n0", ccl.n0 == n0, "%r vs %r" % (ccl.n0, n0))
    env.check("n1", ccl.n1 == n1, "%r vs %r" % (ccl.n1, n1))
    env.check("nbeta_is_n0_plus_2n1", ccl.nbeta == n0 + 2 * n1, "%r" % (ccl.nbeta,))


def h_generator_theta(env, version, level, rho_mult, plan_kind, ng=2):
    """what the generator hands to the convolution chain: the real LCAONLDFGenerator.get_features over the real plan
    (get_rho_tuple, get_interpolation_arguments, get_function_to_convolve) must pass theta_q(r) = p_q(arg(r)) * w(r) * n(r) for
    rho_mult = 'one' and p_q(arg(r)) * w(r) * n(r) * a_theta(r) for rho_mult = 'expnt' - the documented function with the *exponent*
    a_theta, whatever the plan's interpolation argument is (the exponent for a Gaussian plan, a knot index Q(a) for a spline plan: an
    uninterpreted differentiable Q here) - at the grid position the index map assigns.  Contract stubs as in C01-L3 (interpolation
    coefficients = leaf functions, convolution chain = recorder returning zeros)."""
    from fractions import Fraction
    from .. import stubs
    from . import c01_l2, c01_l3
    plan, s = c01_l2.make_plan(env, version, level, rho_mult, 1, "gq")
    if plan_kind == "spline":
        Q = stubs.LeafFn(env, "interp_index", 1)

        def gia(rho_tuple, i=-1):
            a, da = plan.eval_feat_exp(rho_tuple, i=i)
            q = a.copy()
            for idx in np.ndindex(*a.shape):
                q[idx] = Q.val([a[idx]])
                for d in da:
                    d[idx] = d[idx] * Q.grad([a[idx]], 0)
            return q, da
        plan._get_interpolation_arguments = gia
    perm = tuple(reversed(range(ng)))
    gen, M, w = c01_l3._make_generator(env, plan, s, ng, perm)
    seen = {}
    real_fwd = gen._perform_fwd_convolution

    def rec(theta_gq, grad_mode=False):
        seen["theta"] = theta_gq.copy()
        return real_fwd(theta_gq, grad_mode=grad_mode)
    gen._perform_fwd_convolution = rec
    nrho = 5 if level == "MGGA" else 4
    rho = env.arr("rho", (nrho, ng), lo="-8", hi="8")
    for g in range(ng):
        env.assume(rho[0, g] > env.const(Fraction(1, 10 ** 6)))
        if nrho == 5:
            env.assume(rho[4, g] >= 0)
    env.eps_zero()
    ok, _ = env.attempt("get_features_returns", lambda: gen.get_features(rho.copy(), spin=0))
    if not ok:
        return
    env.check("convolution_was_called", "theta" in seen)
    if "theta" not in seen:
        return
    theta = seen["theta"]
    tup = plan.get_rho_tuple(rho.copy())
    a0 = plan.eval_feat_exp(tup, i=-1)[0]
    arg = plan.get_interpolation_arguments(plan.get_rho_tuple(rho.copy()), i=-1)[0]
    for g in range(ng):
        pos = perm[g]
        ag = np.array([arg[g]], dtype=object if env.sym else float)
        p = plan.get_interpolation_coefficients(ag, i=-1)[0]
        f = rho[0, g] * (a0[g] if rho_mult == "expnt" else 1)
        for q in range(plan.nalpha):
            env.equal("theta_point%d_q%d_is_coefficient_times_documented_function" % (g, q), theta[pos, q], p[0, q] * f * w[pos])
