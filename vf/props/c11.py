"""C11 - mapped (fast) evaluators reproduce the Gaussian-process predictive function.

The repository's wrappers RBFEvaluator / AntisymRBFEvaluator / SpinRBFEvaluator are executed unchanged; their
FFI call lands in a symbolic interpreter running clang's LLVM IR of /repo's current model_utils.c (E2).  The
result is compared with the Python kernel sum  f(x) = sum_a k(x, x_a) alpha_a  computed by the real (symbolic)
kernels module, and the returned gradient with its mechanical derivative.  The linear mapping is checked
against the linear kernel sum.  Spline accuracy (numba `interpolation`) is not applicable."""
from fractions import Fraction

import numpy as np

from ..run import Task
from . import common

PROP_ID = "C11"
sym_mods = common.sym_mods
real_mods = common.real_mods
replay = common.generic_replay

CFILE = "ciderpress/lib/mod_cider/model_utils.c"
CFUNCS = ["evaluate_se_kernel", "evaluate_se_kernel_antisym", "evaluate_se_kernel_spin", "evaluate_se_kernel_spin_v2"]
STATS = {}


def _install():
    from ..llsym import bridge
    bridge.install(common.ctx(), "libmcider", CFILE, CFUNCS, hybrid=True, stats=STATS)


def _arr(env, a):
    return np.array(a, dtype=object if env.sym else float)


def h_rbf(env, kind, n=1, nctrl=2, ntot=3):
    """RBFEvaluator through the FFI vs the Python kernel"""
    xe, K = env.m.xc_evaluator, env.m.kernels
    X1 = env.arr("X1", (n, ntot), lo="-4", hi="4")
    Xc = env.arr("Xc", (nctrl, ntot), lo="-4", hi="4")
    al = env.arr("alpha", (nctrl,), lo="-4", hi="4")
    ls = env.arr("l", (ntot,), "pos", lo="1/8", hi="8")
    if kind == "full":
        idx = list(range(ntot))
        kern = K.DiffRBF(length_scale=ls.copy())
    elif kind == "const*full":
        idx = list(range(ntot))
        kern = K.DiffConstantKernel(env.par("c", "pos", hi="8")) * K.DiffRBF(length_scale=ls.copy())
    elif kind == "const*subset_slice":
        idx = [0, 1]
        kern = K.DiffConstantKernel(env.par("c", "pos", hi="8")) * K.SubsetRBF(slice(0, 2), length_scale=ls[:2].copy())
    elif kind == "const*subset_slice_open":
        idx = [1, 2]
        kern = K.DiffConstantKernel(env.par("c", "pos", hi="8")) * K.SubsetRBF(slice(1, None), length_scale=ls[1:].copy())
    elif kind == "const*subset_slice_step":
        idx = [0, 2]
        kern = K.DiffConstantKernel(env.par("c", "pos", hi="8")) * K.SubsetRBF(slice(0, None, 2), length_scale=_arr(env, [ls[0], ls[2]]))
    elif kind == "const*subset_list":
        idx = [2, 0]
        kern = K.DiffConstantKernel(env.par("c", "pos", hi="8")) * K.SubsetRBF([2, 0], length_scale=_arr(env, [ls[2], ls[0]]))
    elif kind == "const*subset_perm":        # an index list that reorders ALL features: same width as the input, different columns
        idx = [2, 0, 1]
        kern = K.DiffConstantKernel(env.par("c", "pos", hi="8")) * K.SubsetRBF([2, 0, 1], length_scale=_arr(env, [ls[2], ls[0], ls[1]]))
    else:
        raise ValueError(kind)
    nsub = len(idx)
    ok, ev = env.attempt("constructor_returns", lambda: xe.RBFEvaluator(kern, _arr(env, Xc[:, idx]), al.copy()))
    if not ok:
        return
    r0, d0 = env.arr("r0", (n,)), env.arr("d0", (n, nsub))
    res, dres = r0.copy(), d0.copy()
    ok, _ = env.attempt("call_returns", lambda: ev(X1.copy(), res, dres))
    if not ok:
        return
    kk = kern(X1.copy(), Xc.copy())
    for g in range(n):
        f = sum((kk[g, a] * al[a] for a in range(nctrl)), env.const(0))
        env.equal("value_equals_python_kernel_sum_%d" % g, res[g] - r0[g], f)
        for j, col in enumerate(idx):
            env.deriv("gradient_%d_col%d" % (g, col), f, ("X1", (g, col)), dres[g, j] - d0[g, j])
    # default buffers (the call every user makes): must stay inside the arrays the wrapper itself allocates
    ok, out2 = env.attempt("call_with_default_buffers_returns", lambda: ev(X1.copy()))
    if ok:
        for g in range(n):
            env.equal("default_buffers_value_%d" % g, out2[0][g], res[g] - r0[g])
    env.attempt("wrong_res_shape_rejected", lambda: ev(X1.copy(), env.zeros((n + 1,)), dres), expect=ValueError)
    env.attempt("wrong_dres_shape_rejected", lambda: ev(X1.copy(), res, env.zeros((n, nsub + 1))), expect=ValueError)


def h_antisym(env, n=1, nctrl=2):
    xe, K = env.m.xc_evaluator, env.m.kernels
    nf = 3
    X1 = env.arr("X1", (n, nf), lo="-4", hi="4")
    Xc = env.arr("Xc", (nctrl, nf), lo="-4", hi="4")
    al = env.arr("alpha", (nctrl,), lo="-4", hi="4")
    ls = env.arr("l", (nf - 1,), "pos", lo="1/8", hi="8")
    c = env.par("c", "pos", hi="8")
    kern = K.DiffConstantKernel(c) * K.DiffAntisymRBF(length_scale=ls.copy())
    ev = xe.AntisymRBFEvaluator(kern, Xc.copy(), al.copy())
    r0, d0 = env.arr("r0", (n,)), env.arr("d0", (n, nf))
    res, dres = r0.copy(), d0.copy()
    ev(X1.copy(), res, dres)
    kk = kern(X1.copy(), Xc.copy())
    for g in range(n):
        f = sum((kk[g, a] * al[a] for a in range(nctrl)), env.const(0))
        env.equal("value_equals_python_kernel_sum_%d" % g, res[g] - r0[g], f)
        for j in range(nf):
            env.deriv("gradient_%d_%d" % (g, j), f, ("X1", (g, j)), dres[g, j] - d0[g, j])


def _spin_f(env, kern, X1, Xc, al, g, nctrl):
    """POL-mode kernel of DFTKernel: kaa*kbb + kab*kba"""
    kaa, kbb = kern(X1[0].copy(), Xc[0].copy()), kern(X1[1].copy(), Xc[1].copy())
    kab, kba = kern(X1[0].copy(), Xc[1].copy()), kern(X1[1].copy(), Xc[0].copy())
    return sum(((kaa[g, a] * kbb[g, a] + kab[g, a] * kba[g, a]) * al[a] for a in range(nctrl)), env.const(0))


def h_spin(env, n=1, nctrl=2, nf=2):
    xe, K = env.m.xc_evaluator, env.m.kernels
    X1 = env.arr("X1", (2, n, nf), lo="-4", hi="4")
    Xc = env.arr("Xc", (2, nctrl, nf), lo="-4", hi="4")
    al = env.arr("alpha", (nctrl,), lo="-4", hi="4")
    ls = env.arr("l", (nf,), "pos", lo="1/8", hi="8")
    c = env.par("c", "pos", hi="8")
    kern = K.DiffConstantKernel(c) * K.DiffRBF(length_scale=ls.copy())
    ev = xe.SpinRBFEvaluator(kern, Xc.copy(), al.copy())
    r0, d0 = env.arr("r0", (n,)), env.arr("d0", (2, n, nf))
    res, dres = r0.copy(), d0.copy()
    ev(X1.copy(), res, dres)
    for g in range(n):
        f = _spin_f(env, kern, X1, Xc, al, g, nctrl)
        env.equal("value_equals_POL_kernel_sum_%d" % g, res[g] - r0[g], f)
        for s in range(2):
            for j in range(nf):
                env.deriv("gradient_s%d_%d_%d" % (s, g, j), f, ("X1", (s, g, j)), dres[s, g, j] - d0[s, g, j])
    # default buffers: the evaluator allocates res / dres itself; they must have one entry per sample (the C routine writes n of them)
    ok, out = env.attempt("call_with_default_buffers_returns", lambda: ev(X1.copy()))
    if ok:
        r2, d2 = out
        env.check("default_value_buffer_has_one_entry_per_sample", np.shape(r2) == (n,) and np.shape(d2) == (2, n, nf), "%s %s for %d samples" % (np.shape(r2), np.shape(d2), n))
        if np.shape(r2) == (n,):
            for g in range(n):
                env.equal("default_buffers_value_%d" % g, r2[g], res[g] - r0[g])


def h_spin_v2_raw(env, n=1, nctrl=2):
    """evaluate_se_kernel_spin_v2 (interleaved spin layout) called directly on symbolic buffers"""
    nf = 2
    X = env.arr("X", (n, 2, nf), lo="-4", hi="4")         # [point][spin][feature]
    Xc = env.arr("Xc", (nctrl, 2, nf), lo="-4", hi="4")
    al = env.arr("alpha", (nctrl,), lo="-4", hi="4")
    ex = env.arr("e", (nf,), "pos", lo="1/8", hi="8")
    out = env.zeros((n,))
    outd = env.zeros((n, 2, nf))
    if env.sym:
        from ..llsym import bridge
        from ..llsym.interp import Interp, Obj, Ptr
        it = bridge.new_interp(CFILE)
        mk = lambda nm, a: Ptr(Obj(nm, bridge._Flat(a), 8), 0)
        it.call("evaluate_se_kernel_spin_v2", [mk("out", out), mk("outd", outd), mk("xin", X.copy()), mk("xctrl", Xc.copy()), mk("actrl", al.copy()), mk("exps", ex.copy()), n, nctrl, nf])
        STATS["instructions"] = STATS.get("instructions", 0) + it.steps
    else:
        import ctypes
        from .. import replaylibs
        lib = np.ctypeslib.load_library("libmcider", replaylibs.ensure())
        p = lambda a: a.ctypes.data_as(ctypes.c_void_p)
        Xa, Xca, ala, exa = [np.ascontiguousarray(a) for a in (X, Xc, al, ex)]
        lib.evaluate_se_kernel_spin_v2(p(out), p(outd), p(Xa), p(Xca), p(ala), p(exa), ctypes.c_int(n), ctypes.c_int(nctrl), ctypes.c_int(nf))
    for g in range(n):
        f = env.const(0)
        for a in range(nctrl):
            def se(x, y):
                return sum((ex[j] * (x[j] - y[j]) * (x[j] - y[j]) for j in range(nf)), env.const(0))
            aa, bb, ab, ba = se(X[g, 0], Xc[a, 0]), se(X[g, 1], Xc[a, 1]), se(X[g, 0], Xc[a, 1]), se(X[g, 1], Xc[a, 0])
            e1, e2 = -(aa + bb), -(ab + ba)
            f = f + al[a] * ((e1.exp() if env.sym else np.exp(e1)) + (e2.exp() if env.sym else np.exp(e2)))
        env.equal("value_%d" % g, out[g], f)
        for s in range(2):
            for j in range(nf):
                env.deriv("gradient_s%d_%d_%d" % (s, g, j), f, ("X", (g, s, j)), outd[g, s, j])


def h_linear(env):
    K, mt = env.m.kernels, env.m.map_tools
    N, nc = 3, 2
    Xc = env.arr("Xc", (nc, N), lo="-4", hi="4")
    al = env.arr("alpha", (nc,), lo="-4", hi="4")
    x = env.arr("x", (1, N), lo="-4", hi="4")
    kern = K.DiffLinearKernel()
    ev = mt.get_mapped_gp_evaluator_linear(kern, Xc.copy(), al.copy()) if False else None
    # the mapping takes X with one column per weight: X (nctrl? , N) and alpha of size N in the repo's convention
    X = env.arr("Xt", (N, N), lo="-4", hi="4")
    a2 = env.arr("a2", (N,), lo="-4", hi="4")
    ev = mt.get_mapped_gp_evaluator_linear(kern, X.copy(), a2.copy())
    res, dres = ev(x.copy())
    f = sum((kern(x.copy(), X.copy())[0, a] * a2[a] for a in range(N)), env.const(0))
    env.equal("linear_map_equals_kernel_sum", res[0], f)
    for j in range(N):
        env.deriv("linear_map_gradient_%d" % j, f, ("x", (0, j)), dres[0, j])


def _map_stubs(mt):
    """interpolation.splines (numba) is replaced by recorders: UCGrid(*dims) -> the dims, filter_cubic(grid, f) -> f.
    Contract used: the natural cubic spline built from f interpolates f at every grid node."""
    saved = (mt.UCGrid, mt.filter_cubic)
    mt.UCGrid = lambda *dims: tuple(dims)
    mt.filter_cubic = lambda grid, f: f
    return saved


def _kernel_for_map(env, K, kind, ls):
    """returns (kernel, ntot)"""
    sc = env.arr("s", (3,), "pos", lo="1/8", hi="8")
    if kind == "srbf0*sarbf_tail":        # the layout of kernel_plans/arbf_exchange.py
        return K.SubsetRBF(slice(0, 1), length_scale=_arr(env, ls[:1])) * K.SubsetARBF(slice(1, None), order=2, length_scale=_arr(env, ls[1:3]), scale=sc), 3
    if kind == "sarbf_tail":
        return K.SubsetARBF(slice(1, None), order=2, length_scale=_arr(env, ls[1:3]), scale=sc), 3
    if kind == "sarbf_list":
        return K.SubsetARBF([0, 2], order=2, length_scale=_arr(env, [ls[0], ls[2]]), scale=sc), 3
    if kind == "srbf_last*sarbf_head":
        return K.SubsetRBF(slice(2, 3), length_scale=_arr(env, ls[2:3])) * K.SubsetARBF(slice(0, 2), order=2, length_scale=_arr(env, ls[0:2]), scale=sc), 3
    if kind == "sarbf_order1_tail":
        return K.SubsetARBF(slice(1, None), order=1, length_scale=_arr(env, ls[1:3]), scale=sc[:2].copy()), 3
    if kind == "addrq_tail":
        return K.SubsetAddRQ(slice(1, None), order=2, length_scale=_arr(env, ls[1:3]), scale=sc, alpha=env.const(2)), 3
    if kind == "addllrbf_tail":
        return K.SubsetAddLLRBF(slice(1, None), order=2, length_scale=_arr(env, ls[1:3]), scale=sc, alpha=env.const(2)), 3
    if kind == "const*rbf":               # get_mapped_gp_evaluator_simple: a constant times a plain RBF over all features
        return K.DiffConstantKernel(env.par("c0", "pos", lo="1/8", hi="8")) * K.DiffRBF(length_scale=_arr(env, ls[:2])), 2
    if kind == "const*srbf_list":
        return K.DiffConstantKernel(env.par("c0", "pos", lo="1/8", hi="8")) * K.SubsetRBF([2, 0], length_scale=_arr(env, [ls[2], ls[0]])), 3
    raise ValueError(kind)


def h_map_additive(env, kind, nctrl=2, mapper="additive", ctrl="symbolic"):
    """get_mapped_gp_evaluator_additive: the spline grids cover the bounds of the features they are evaluated on, and at every
    tensor-grid node  const + sum_t scale_t * f_t[node]  equals the GP predictive function  sum_a k(x_node, x_a) alpha_a"""
    import contextlib
    import io
    K, td, mt = env.m.kernels, env.m.td, env.m.map_tools
    lsq = [Fraction(1, 2), Fraction(3, 4), Fraction(5, 4)]
    ls = [env.const(q) for q in lsq]
    bounds = [(Fraction(0), Fraction(1)), (Fraction(-1), Fraction(1)), (Fraction(1, 2), Fraction(5, 2))]
    flist = td.FeatureList([td.UMap(i, env.const(Fraction(1, 4)), bounds=(env.const(b[0]), env.const(b[1]))) for i, b in enumerate(bounds)])
    kern, ntot = _kernel_for_map(env, K, kind, ls)
    if ctrl == "clustered":
        # concrete control points well inside the feature bounds: the grids must still span the bounds (the evaluator is used on the
        # whole bounded feature domain), and concrete values keep any arithmetic the mapper does on them out of the path explorer
        vals = [[Fraction(2, 5), Fraction(1, 10), Fraction(6, 5)], [Fraction(3, 5), Fraction(-1, 5), Fraction(8, 5)], [Fraction(1, 2), Fraction(0), Fraction(7, 5)]]
        Xc = env.zeros((nctrl, ntot))
        for a in range(nctrl):
            for j in range(ntot):
                Xc[a, j] = env.const(vals[a][j])
    else:
        Xc = env.arr("Xc", (nctrl, ntot), lo="-4", hi="4")
    al = env.arr("alpha", (nctrl,), lo="-4", hi="4")
    saved = _map_stubs(mt)
    try:
        with contextlib.redirect_stdout(io.StringIO()):
            fn_ = mt.get_mapped_gp_evaluator_additive if mapper == "additive" else mt.get_mapped_gp_evaluator_simple
            ok, out = env.attempt("mapper_returns", lambda: fn_(kern, Xc.copy(), al.copy(), flist, max_ngrid=3))
    finally:
        mt.UCGrid, mt.filter_cubic = saved
    if not ok:
        return
    scale, ind_sets, grids, fsets = out[:4]
    const = out[4] if len(out) > 4 else env.const(0)
    env.check("one_scale_per_term", len(scale) == len(ind_sets) == len(grids) == len(fsets), "%d %d %d %d" % (len(scale), len(ind_sets), len(grids), len(fsets)))
    if not (len(scale) == len(ind_sets) == len(grids) == len(fsets)):
        return
    nodes = {}
    grids_ok = True
    for t, (inds, gd) in enumerate(zip(ind_sets, grids)):
        for p, i in enumerate(inds):
            i = int(i)
            lo, hi, ng = gd[p]
            env.equal("term%d_dim%d_grid_lower_is_feature%d_lower_bound" % (t, p, i), lo + env.const(0), env.const(bounds[i][0]))
            env.equal("term%d_dim%d_grid_upper_is_feature%d_upper_bound" % (t, p, i), hi + env.const(0), env.const(bounds[i][1]))
            env.check("term%d_dim%d_ngrid" % (t, p), int(ng) == 3, str(ng))
            grids_ok = grids_ok and abs(float(lo) - float(bounds[i][0])) < 1e-12 and abs(float(hi) - float(bounds[i][1])) < 1e-12 and int(ng) == 3
            nodes[i] = [bounds[i][0] + (bounds[i][1] - bounds[i][0]) * Fraction(k, 2) for k in range(3)]
    if not grids_ok:
        return      # the node positions assumed below are not the ones the mapper used; the failed grid obligations above say so
    mapped = sorted(nodes)
    x = env.arr("x", (1, ntot), lo="-4", hi="4")       # coordinates the kernel ignores stay symbolic
    import itertools as _it
    for combo in _it.product(range(3), repeat=len(mapped)):
        xn = x.copy()
        for i, k in zip(mapped, combo):
            xn[0, i] = env.const(nodes[i][k])
        f = sum((kern(xn.copy(), Xc.copy())[0, a] * al[a] for a in range(nctrl)), env.const(0))
        g = const + env.const(0)
        for t, inds in enumerate(ind_sets):
            idx = tuple(combo[mapped.index(int(i))] for i in inds)
            g = g + scale[t] * fsets[t][idx]
        env.equal("node_%s_value_equals_kernel_sum" % "".join(map(str, combo)), g, f)


def h_k0_for_mapping(env, name):
    """get_k0_for_mapping(X, Y, l)[a, j] is the one-dimensional factor of the kernel between X[a] and grid node Y[j]"""
    K = env.m.kernels
    ls = env.arr("l", (1,), "pos", lo="1/8", hi="8")
    kw = dict(alpha=env.const(2)) if name != "DiffARBFV2" else {}
    kern = getattr(K, name)(order=1, length_scale=ls.copy(), scale=_arr(env, [env.const(0), env.const(1)]), **kw)
    X = env.arr("X", (2,), lo="-4", hi="4")
    Y = env.arr("Y", (2,), lo="-4", hi="4")
    k0 = kern.get_k0_for_mapping(X.copy(), Y.copy(), ls[0])
    for a in range(2):
        for j in range(2):
            full = kern(_arr(env, [[X[a]]]), _arr(env, [[Y[j]]]))[0, 0]      # order-1 kernel with scale (0, 1) in one dimension = the factor
            env.equal("k0_%d_%d_is_kernel_factor" % (a, j), k0[a, j], full)


def tasks(tier):
    out = []
    kinds = ["full", "const*full", "const*subset_slice", "const*subset_slice_open", "const*subset_slice_step", "const*subset_list", "const*subset_perm"]
    for kind in kinds:
        out.append(Task("rbf/%s" % kind, h_rbf, dict(kind=kind), mods="kernels", max_paths=16))
    if tier == "thorough":
        out.append(Task("rbf/full/n2", h_rbf, dict(kind="const*full", n=2, nctrl=2), mods="kernels"))
        out.append(Task("spin/n2", h_spin, dict(n=2), mods="kernels"))
    out.append(Task("antisym", h_antisym, {}, mods="kernels"))
    out.append(Task("spin", h_spin, {}, mods="kernels"))
    # smallest sizes: stay decidable when the C gains data-dependent branches (every branch multiplies the paths and puts a quadratic
    # condition into every query; at nf = nctrl = 2 such queries time out)
    out.append(Task("spin/smallest", h_spin, dict(n=1, nctrl=1, nf=1), mods="kernels", max_paths=64))
    out.append(Task("rbf/const*full/smallest", h_rbf, dict(kind="const*full", n=1, nctrl=1, ntot=1), mods="kernels", max_paths=64))
    out.append(Task("spin/n3", h_spin, dict(n=3), mods="kernels"))
    out.append(Task("spin_v2_raw", h_spin_v2_raw, {}, mods="kernels"))
    out.append(Task("linear", h_linear, {}, mods="kernels"))
    mk = ["srbf0*sarbf_tail", "sarbf_tail", "srbf_last*sarbf_head", "addrq_tail"]
    if tier == "thorough":
        mk += ["sarbf_list", "sarbf_order1_tail", "addllrbf_tail"]
    for kind in mk:
        out.append(Task("map_additive/%s" % kind, h_map_additive, dict(kind=kind), mods="kernels"))
    for kind in ("const*rbf", "const*srbf_list"):
        out.append(Task("map_simple/%s" % kind, h_map_additive, dict(kind=kind, mapper="simple"), mods="kernels"))
    out.append(Task("map_additive/srbf0*sarbf_tail/clustered_control_points", h_map_additive, dict(kind="srbf0*sarbf_tail", ctrl="clustered"), mods="kernels"))
    out.append(Task("map_simple/const*rbf/clustered_control_points", h_map_additive, dict(kind="const*rbf", mapper="simple", ctrl="clustered"), mods="kernels"))
    for name in ("DiffARBFV2", "DiffAddLLRBF", "DiffAddRQ"):
        out.append(Task("k0_for_mapping/%s" % name, h_k0_for_mapping, dict(name=name), mods="kernels"))
    return out


def prepare(tier):
    m = sym_mods("kernels")
    m.kernels, m.xc_evaluator
    _install()
    with common.ctx():
        import interpolation.splines  # noqa: F401  (real module; only imported by map_tools)
    m.__getattr__("ciderpress.models.kernel_plans.map_tools")
    m.map_tools = getattr(m, "ciderpress.models.kernel_plans.map_tools")


def extra_evidence(results):
    from ..llsym import ir
    return dict(ir_sources_sha256={k.replace("/repo/", ""): v for k, v in ir.EMITTED.items()}, c_functions_interpreted=CFUNCS)


META = dict(
    explanation="the Python wrappers are executed symbolically and their FFI call runs clang's LLVM IR of model_utils.c in a symbolic interpreter "
                "(exact reals, bounds-checked buffers); z3 decides equality with the Python kernel sum and its mechanical gradient",
    functions=['ciderpress/models/kernel_plans/map_tools.py: get_mapped_gp_evaluator_simple (map_simple/*)', "ciderpress/dft/xc_evaluator.py: RBFEvaluator/AntisymRBFEvaluator/SpinRBFEvaluator.__init__/__call__",
               "ciderpress/lib/mod_cider/model_utils.c (clang -O1 IR): evaluate_se_kernel, evaluate_se_kernel_antisym, evaluate_se_kernel_spin, evaluate_se_kernel_spin_v2, _evaluate_se, _add_deriv",
               "ciderpress/models/kernels.py: DiffRBF, SubsetRBF, DiffAntisymRBF, DiffConstantKernel, DiffProduct, DiffLinearKernel (oracle side)",
               "ciderpress/models/kernel_plans/map_tools.py: get_mapped_gp_evaluator_linear"],
    bounds=dict(n="1 (2 thorough)", nctrl=2, nfeat="2-3", index_sets="all columns; slice(0,2); slice(1,None); slice(0,None,2) of 3 columns", loops="fully unrolled at these sizes"),
    stubs=["FFI: ctypes bridge into the IR interpreter; double = exact real, llvm.fmuladd unfused, exp = DAG atom"],
    assumptions=["spline-mapped evaluators: spline interpolation error is numerical analysis over numba code: not applicable", "OpenMP pragmas ignored here (C10)"],
)
