"""C04 / C09-style history at the libxc wrapper layer: ciderpress/lib/xc_utils/libxc_baselines.c (get_lda/gga/mgga_baseline) is
interpreted from clang's IR with libxc itself as a contract: xc_func_init(p, id, nspin) binds (id, nspin) to the object p points
to, and xc_*_exc_vxc(p, ...) writes, point by point, uninterpreted functions named after the (id, nspin) bound to p of that
point's inputs in libxc's layout for that nspin (nspin densities, 2 nspin - 1 sigmas, nspin taus).  Property decided: a call made
after other calls (other nspin, other functional) returns what the same call returns on a fresh library - the wrapper keeps no
state that leaks from one call into the next.  Concrete replays load two private copies of the freshly compiled libxc_utils."""
import os

import numpy as np

from ..run import Task
from . import common

CFILE = "ciderpress/lib/xc_utils/libxc_baselines.c"
_NS = {1: (1, 1, 1), 2: (2, 3, 2)}      # per point: rho, sigma, tau entries


def _interp(env):
    from ..llsym import ir
    from ..llsym.interp import Interp
    from .. import dag, replaylibs
    inc = os.path.join(replaylibs.PYSCF_DEPS, "include")
    it = Interp(ir.Module(ir.emit(CFILE, extra=["-I" + inc])))
    bound = []          # (object, offset, fn_id, nspin): strong references, looked up by identity

    def init(itp, a):
        p, fid, ns = a[0], int(a[1]), int(a[2])
        bound[:] = [b for b in bound if not (b[0] is p.obj and b[1] == p.off)] + [(p.obj, p.off, fid, ns)]
        return 0

    def lookup(p):
        for o, off, fid, ns in bound:
            if o is p.obj and off == p.off:
                return fid, ns
        raise RuntimeError("libxc functional used before xc_func_init")

    def run(kind):
        def h(itp, a):
            from ..llsym.interp import Ptr
            fid, ns = lookup(a[0])
            npt = int(a[1])
            nr, nsg, nt_ = _NS[ns]
            if kind == "lda":
                ins, outs = [(a[2], nr)], [(a[3], 1, "exc"), (a[4], nr, "vrho")]
            elif kind == "gga":
                ins, outs = [(a[2], nr), (a[3], nsg)], [(a[4], 1, "exc"), (a[5], nr, "vrho"), (a[6], nsg, "vsigma")]
            else:
                ins, outs = [(a[2], nr), (a[3], nsg), (a[5], nt_)], [(a[6], 1, "exc"), (a[7], nr, "vrho"), (a[8], nsg, "vsigma"), (a[10], nt_, "vtau")]
            for i in range(npt):
                args = []
                for p, w in ins:
                    for c in range(w):
                        args.append(itp.load(Ptr(p.obj, p.off + 8 * (i * w + c)), "double"))
                for p, w, nm in outs:
                    for c in range(w):
                        itp.store(Ptr(p.obj, p.off + 8 * (i * w + c)), "double", dag.uf("xc%d_ns%d_%s%d" % (fid, ns, nm, c), args))
            return None
        return h
    it.extern["xc_func_init"] = init
    it.extern["xc_func_set_dens_threshold"] = lambda itp, a: None
    it.extern["xc_func_end"] = lambda itp, a: None
    it.extern["xc_lda_exc_vxc"] = run("lda")
    it.extern["xc_gga_exc_vxc"] = run("gga")
    it.extern["xc_mgga_exc_vxc"] = run("mgga")
    return it


def _expected(env, kind, fid, ns, npt, rho, sig, tau):
    from .. import dag
    from ..sym import S, lift
    nr, nsg, nt_ = _NS[ns]
    out = {}
    for i in range(npt):
        args = [lift(rho[i * nr + c]) for c in range(nr)]
        if kind != "lda":
            args += [lift(sig[i * nsg + c]) for c in range(nsg)]
        if kind == "mgga":
            args += [lift(tau[i * nt_ + c]) for c in range(nt_)]
        widths = dict(exc=1, vrho=nr, vsigma=nsg if kind != "lda" else 0, vtau=nt_ if kind == "mgga" else 0)
        for nm, w in widths.items():
            for c in range(w):
                out[(nm, i, c)] = S(dag.uf("xc%d_ns%d_%s%d" % (fid, ns, nm, c), args))
    return out


def _call_sym(env, it, kind, fid, ns, npt, rho, sig, tau, thr):
    from ..llsym import bridge
    from ..llsym.interp import Obj, Ptr
    nr, nsg, nt_ = _NS[ns]
    mk = lambda nm, a: Ptr(Obj(nm, bridge._Flat(a), 8), 0)
    exc, vrho, vsig, vtau = env.zeros((npt,)), env.zeros((npt * nr,)), env.zeros((npt * nsg,)), env.zeros((npt * nt_,))
    from ..sym import lift
    t = lift(thr)
    if kind == "lda":
        it.call("get_lda_baseline", [fid, ns, npt, mk("rho", rho.copy()), mk("exc", exc), mk("vrho", vrho), t])
    elif kind == "gga":
        it.call("get_gga_baseline", [fid, ns, npt, mk("rho", rho.copy()), mk("sigma", sig.copy()), mk("exc", exc), mk("vrho", vrho), mk("vsigma", vsig), t])
    else:
        it.call("get_mgga_baseline", [fid, ns, npt, mk("rho", rho.copy()), mk("sigma", sig.copy()), mk("tau", tau.copy()), mk("exc", exc), mk("vrho", vrho), mk("vsigma", vsig), mk("vtau", vtau), t])
    return dict(exc=exc, vrho=vrho, vsigma=vsig, vtau=vtau)


_FID = {"lda": 1, "gga": 130, "mgga": 263}     # LDA_X, GGA_C_PBE, MGGA_X_SCAN


def _call_real(lib, kind, fid, ns, npt, rho, sig, tau):
    import ctypes
    nr, nsg, nt_ = _NS[ns]
    p = lambda a: a.ctypes.data_as(ctypes.c_void_p)
    exc, vrho, vsig, vtau = np.zeros(npt), np.zeros(npt * nr), np.zeros(npt * nsg), np.zeros(npt * nt_)
    r, s, t = [np.ascontiguousarray(np.asarray(a, dtype=float)) for a in (rho, sig, tau)]
    ci, cd = ctypes.c_int, ctypes.c_double
    if kind == "lda":
        lib.get_lda_baseline(ci(fid), ci(ns), ci(npt), p(r), p(exc), p(vrho), cd(1e-15))
    elif kind == "gga":
        lib.get_gga_baseline(ci(fid), ci(ns), ci(npt), p(r), p(s), p(exc), p(vrho), p(vsig), cd(1e-15))
    else:
        lib.get_mgga_baseline(ci(fid), ci(ns), ci(npt), p(r), p(s), p(t), p(exc), p(vrho), p(vsig), p(vtau), cd(1e-15))
    return dict(exc=exc, vrho=vrho, vsigma=vsig, vtau=vtau)


def _private_copy(tag):
    """a copy of the freshly compiled libxc_utils.so under another name: dlopen gives it its own static data"""
    import ctypes
    import shutil
    import tempfile
    from .. import replaylibs
    d = replaylibs.ensure()
    dst = os.path.join(tempfile.mkdtemp(prefix="verif_xc_"), "libxc_utils_%s.so" % tag)
    shutil.copy(os.path.join(d, "libxc_utils.so"), dst)
    return ctypes.CDLL(dst), os.path.dirname(dst)


def h_wrapper_history(env, kind, first_ns, second_ns, other_first=False):
    """first a call with (functional, first_ns) - or with another functional when other_first - then the call under test with
    (functional, second_ns): its outputs equal those of the same call on a fresh library"""
    npt = 1
    fid = _FID[kind]
    nr, nsg, nt_ = _NS[second_ns]
    rho = env.arr("rho", (npt * nr,), "pos", lo="1/16", hi="4")
    sig = env.arr("sig", (npt * nsg,), "pos", lo="1/16", hi="4")
    tau = env.arr("tau", (npt * nt_,), "pos", lo="1", hi="8")
    n1 = _NS[first_ns]
    rho1 = env.arr("rho1", (npt * n1[0],), "pos", lo="1/16", hi="4")
    sig1 = env.arr("sig1", (npt * n1[1],), "pos", lo="1/16", hi="4")
    tau1 = env.arr("tau1", (npt * n1[2],), "pos", lo="1", hi="8")
    fid1 = {"lda": 1, "gga": 101, "mgga": 202}[kind] if other_first else fid      # LDA_X / GGA_X_PBE / MGGA_X_TPSS as the "other" functional
    if env.sym:
        it = _interp(env)
        ok, _ = env.attempt("first_call_returns", lambda: _call_sym(env, it, kind, fid1, first_ns, npt, rho1, sig1, tau1, 0))
        if not ok:
            return
        ok, got = env.attempt("second_call_returns", lambda: _call_sym(env, it, kind, fid, second_ns, npt, rho, sig, tau, 0))
        if not ok:
            return
        want = _expected(env, kind, fid, second_ns, npt, rho, sig, tau)
        for (nm, i, c), w in sorted(want.items()):
            width = dict(exc=1, vrho=nr, vsigma=nsg, vtau=nt_)[nm]
            env.equal("second_call_%s_%d_%d_as_on_a_fresh_library" % (nm, i, c), got[nm][i * width + c], w)
        return
    import shutil
    lib_a, da = _private_copy("hist")
    lib_b, db = _private_copy("fresh")
    try:
        _call_real(lib_a, kind, fid1, first_ns, npt, rho1, sig1, tau1)
        got = _call_real(lib_a, kind, fid, second_ns, npt, rho, sig, tau)
        want = _call_real(lib_b, kind, fid, second_ns, npt, rho, sig, tau)
    finally:
        shutil.rmtree(da, ignore_errors=True)
        shutil.rmtree(db, ignore_errors=True)
    env.attempt("first_call_returns", lambda: None)
    env.attempt("second_call_returns", lambda: None)
    widths = dict(exc=1, vrho=nr, vsigma=nsg if kind != "lda" else 0, vtau=nt_ if kind == "mgga" else 0)
    for nm, w in sorted(widths.items()):
        for i in range(npt):
            for c in range(w):
                env.equal("second_call_%s_%d_%d_as_on_a_fresh_library" % (nm, i, c), got[nm][i * w + c], want[nm][i * w + c])


def tasks(tier):
    out = []
    for kind in ("gga", "lda", "mgga") if tier == "thorough" else ("gga", "lda"):
        for a, b in ((1, 2), (2, 1)):
            out.append(Task("libxc_wrapper_history/%s/nspin%d_then_nspin%d" % (kind, a, b), h_wrapper_history, dict(kind=kind, first_ns=a, second_ns=b), mods="numint"))
        out.append(Task("libxc_wrapper_history/%s/other_functional_then_nspin2" % kind, h_wrapper_history, dict(kind=kind, first_ns=2, second_ns=2, other_first=True), mods="numint"))
    return out
