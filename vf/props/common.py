"""Shared module sets: the same attribute names resolve to the symbolically loaded copy ('sym') or to
the unmodified installed module ('real')."""
import importlib

from ..loader import SymContext

_CTX = None
_SYM = {}
_REAL = {}

# attribute -> module path; only pure-Python modules here (C-backed ones go through replaylibs)
PURE = {
    "td": "ciderpress.dft.transform_data",
    "fn": "ciderpress.dft.feat_normalizer",
    "settings": "ciderpress.dft.settings",
    "kernels": "ciderpress.models.kernels",
}
# modules that call load_library at import time: symbolic copies get a FakeLib, real copies need built libs
CDEP = {
    "baselines": "ciderpress.dft.baselines",
    "plans": "ciderpress.dft.plans",
    "xc_evaluator": "ciderpress.dft.xc_evaluator",
    "xc_evaluator2": "ciderpress.dft.xc_evaluator2",
    "model_utils": "ciderpress.dft.model_utils",
    "numint": "ciderpress.pyscf.numint",
    "dft_kernel": "ciderpress.models.dft_kernel",
    "train": "ciderpress.models.train",
}


class Mods(object):
    def __init__(self, loader):
        self._loader = loader

    def __getattr__(self, k):
        if k.startswith("_"):
            raise AttributeError(k)
        m = self._loader(k)
        setattr(self, k, m)
        return m


def ctx():
    global _CTX
    if _CTX is None:
        _CTX = SymContext(prefixes=("ciderpress",))
    return _CTX


def _sym_load(k):
    path = PURE.get(k) or CDEP.get(k) or k
    return ctx().imp(path)


def _real_load(k):
    path = PURE.get(k) or CDEP.get(k) or k
    if k not in PURE:
        from .. import replaylibs
        replaylibs.ensure()
    return importlib.import_module(path)


def sym_mods(key="dft"):
    if key not in _SYM:
        _SYM[key] = Mods(_sym_load)
    return _SYM[key]


def real_mods(key="dft"):
    if key not in _REAL:
        _REAL[key] = Mods(_real_load)
    return _REAL[key]


def generic_replay(task, rec):
    """default replay: run the task's harness in 'real' mode at the model and evaluate the obligation"""
    from .. import harness
    name = rec["name"]
    assert name.startswith(task.name + "/"), (name, task.name)
    obl = name[len(task.name) + 1:]
    return harness.replay_obligation(task.fn, real_mods(task.real_mods), task.cfg, rec["model_float"], obl)
