"""Shared module sets: the same attribute names resolve to the symbolically loaded copy ('sym') or to
the unmodified installed module ('real')."""
import importlib

from ..loader import SymContext

_CTX = None
_SYM = {}
_REAL = {}

# attribute -> module path; only pure-Python modules here (C-backed ones go through replaylibs)
PURE = {
    "td": "ciderpress.dft.transform_data",
    "fn": "ciderpress.dft.feat_normalizer",
    "settings": "ciderpress.dft.settings",
    "kernels": "ciderpress.models.kernels",
}
# modules that call load_library at import time: symbolic copies get a FakeLib, real copies need built libs
CDEP = {
    "baselines": "ciderpress.dft.baselines",
    "plans": "ciderpress.dft.plans",
    "xc_evaluator": "ciderpress.dft.xc_evaluator",
    "xc_evaluator2": "ciderpress.dft.xc_evaluator2",
    "model_utils": "ciderpress.dft.model_utils",
    "numint": "ciderpress.pyscf.numint",
    "dft_kernel": "ciderpress.models.dft_kernel",
    "train": "ciderpress.models.train",
    "map_tools": "ciderpress.models.kernel_plans.map_tools",
    "lcao_convolutions": "ciderpress.dft.lcao_convolutions",
    "lcao_nldf_generator": "ciderpress.dft.lcao_nldf_generator",
    "lcao_interpolation": "ciderpress.dft.lcao_interpolation",
    "sdmx": "ciderpress.pyscf.sdmx",
    "nldf_convolutions": "ciderpress.pyscf.nldf_convolutions",
    "grids_indexer": "ciderpress.dft.grids_indexer",
    "gen_cider_grid": "ciderpress.pyscf.gen_cider_grid",
}


class Mods(object):
    def __init__(self, loader):
        self._loader = loader

    def __getattr__(self, k):
        if k.startswith("_"):
            raise AttributeError(k)
        m = self._loader(k)
        setattr(self, k, m)
        return m


def ctx():
    global _CTX
    if _CTX is None:
        _CTX = SymContext(prefixes=("ciderpress",), extra_modules=("sklearn.gaussian_process.kernels",))
        _CTX.post_hooks["sklearn.gaussian_process.kernels"] = _patch_sklearn
    return _CTX


def _patch_sklearn(mod):
    """scipy.spatial.distance helpers used by scikit-learn's kernels: textbook definitions on object arrays"""
    import numpy as np
    from ..sym import S, SArr
    from ..dag import ZERO

    def cdist(XA, XB, metric="euclidean"):
        if metric != "sqeuclidean":
            raise ValueError("Unknown Distance Metric: %s" % metric)
        XA, XB = np.asarray(XA), np.asarray(XB)
        if XA.ndim != 2 or XB.ndim != 2:
            raise ValueError("XA and XB must be 2-dimensional arrays")
        out = np.empty((XA.shape[0], XB.shape[0]), dtype=object).view(SArr)
        for i in range(XA.shape[0]):
            for j in range(XB.shape[0]):
                acc = S(ZERO)
                for k in range(XA.shape[1]):
                    d = XA[i, k] - XB[j, k]
                    acc = acc + d * d
                out[i, j] = acc
        return out

    def pdist(X, metric="euclidean"):
        d = cdist(X, X, metric)
        n = d.shape[0]
        out = np.empty((n * (n - 1) // 2,), dtype=object).view(SArr)
        k = 0
        for i in range(n):
            for j in range(i + 1, n):
                out[k] = d[i, j]
                k += 1
        return out

    def squareform(v):
        v = np.asarray(v)
        if v.ndim == 2:
            n = v.shape[0]
            return np.array([v[i, j] for i in range(n) for j in range(i + 1, n)], dtype=object).view(SArr)
        m = len(v)
        n = int(round((1 + (1 + 8 * m) ** 0.5) / 2))
        out = np.empty((n, n), dtype=object).view(SArr)
        out[...] = S(ZERO)
        k = 0
        for i in range(n):
            for j in range(i + 1, n):
                out[i, j] = out[j, i] = v[k]
                k += 1
        return out

    def _check_length_scale(X, length_scale):
        ls = np.squeeze(np.asarray(length_scale, dtype=object))
        if np.ndim(ls) > 1:
            raise ValueError("length_scale cannot be of dimension greater than 1")
        if np.ndim(ls) == 1 and X.shape[1] != ls.shape[0]:
            raise ValueError("Anisotropic kernel must have the same number of dimensions as data (%d!=%d)" % (ls.shape[0], X.shape[1]))
        return ls.view(SArr) if isinstance(ls, np.ndarray) else ls

    mod.cdist, mod.pdist, mod.squareform, mod._check_length_scale = cdist, pdist, squareform, _check_length_scale


def _sym_load(k):
    path = PURE.get(k) or CDEP.get(k) or k
    return ctx().imp(path)


def _real_load(k):
    path = PURE.get(k) or CDEP.get(k) or k
    if k not in PURE:
        from .. import replaylibs
        replaylibs.ensure()
    return importlib.import_module(path)


def sym_mods(key="dft"):
    if key not in _SYM:
        _SYM[key] = Mods(_sym_load)
        _SYM[key]._ctx = ctx()
    return _SYM[key]


def real_mods(key="dft"):
    if key not in _REAL:
        _REAL[key] = Mods(_real_load)
    return _REAL[key]


def generic_replay(task, rec):
    """default replay: run the task's harness in 'real' mode at the model and evaluate the obligation"""
    from .. import harness
    name = rec["name"]
    assert name.startswith(task.name + "/"), (name, task.name)
    obl = name[len(task.name) + 1:]
    return harness.replay_obligation(task.fn, real_mods(task.real_mods), task.cfg, rec["model_float"], obl)
