"""C01 - the XC matrix is the derivative of the XC energy, decided link by link (DESIGN.md 4/C01).

L1  point-wise assembly      eval_xc_cider and everything it orchestrates (this file, l1.py)
L2  plan level               NLDFAuxiliaryPlan.eval_rho_full / eval_vxc_full (c01_l2.py)
L5  matrix assembly          nr_rks / nr_uks / nr_rks_nldf / nr_uks_nldf (c01_l5.py)
L4  operator adjointness     = C05
The composition is the chain rule; each link assumes the contracts the other links / leaf properties
(C12, C04, C05) prove."""
import numpy as np

from ..run import Task
from . import common, l1

PROP_ID = "C01"
sym_mods = common.sym_mods
real_mods = common.real_mods
replay = common.generic_replay


def h_l1(env, slmode, nspin, mode, version, layout, nevals=1, slxc_type="HF", mul="GGA_X_PBE", add=None, two_kernels=False, ngrids=1):
    fs = l1.build_settings(env, slmode, layout)
    rho, nldf, sdmx = l1.inputs(env, fs, nspin, physical=True, ngrids=ngrids)
    env.eps_zero()
    ni = l1.make_numint(env, fs, nspin, mode, version, nevals=nevals, slxc_type=slxc_type, mul=mul, add=add, two_kernels=two_kernels)
    ok, out = env.attempt("eval_xc_cider_returns", lambda: l1.call(env, ni, rho, nldf, sdmx, nspin))
    if not ok:
        return
    exc, vxc, vn, vs = out
    env.check("shapes", np.shape(exc) == (ngrids,) and np.shape(vxc) == np.shape(rho), "%s %s" % (np.shape(exc), np.shape(vxc)))
    for g in range(ngrids):
        n = sum((rho[s, 0, g] for s in range(nspin)), env.const(0))
        E = exc[g] * n
        for s in range(nspin):
            for c in range(rho.shape[1]):
                for g2 in range(ngrids):
                    if g2 != g and c > 0:
                        continue
                    if g2 == g:
                        env.deriv("vxc_s%d_c%d_g%d" % (s, c, g), E, ("rho", (s, c, g)), vxc[s, c, g])
                    else:
                        env.deriv("locality_g%d_wrt_rho_s%d_g%d" % (g, s, g2), E, ("rho", (s, c, g2)), env.const(0))
            if vn is not None:
                for i in range(vn.shape[1]):
                    env.deriv("vxc_nldf_s%d_f%d_g%d" % (s, i, g), E, ("nldf", (s, i, g)), vn[s, i, g])
            if vs is not None:
                for i in range(vs.shape[1]):
                    env.deriv("vxc_sdmx_s%d_f%d_g%d" % (s, i, g), E, ("sdmx", (s, i, g)), vs[s, i, g])


def _l1_tasks(tier):
    out = []
    quick = [
        ("npa", 1, "SEP", 1, "sl+nldf"), ("npa", 2, "SEP", 1, "sl+nldf"), ("nst", 2, "NPOL", 1, "sl+nldf"),
        ("npa", 2, "POL", 1, "sl"), ("npa", 1, "POL", 1, "sl+sdmx"),
        ("npa", 1, "SEP", 2, "sl+nldf"), ("npa", 2, "SEP", 2, "sl+sdmx"), ("nst", 2, "NPOL", 2, "sl"),
        ("ns", 1, "SEP", 1, "sl+nldf"), ("np", 2, "NPOL", 1, "sl"),
        ("npa", 1, "SEP", 1, "sl+nlof"), ("npa", 2, "SEP", 1, "sl+nlof_d"),
    ]
    if tier == "quick":
        cfgs = quick
    else:
        cfgs = []
        for slmode in ("npa", "nst", "np", "ns"):
            for nspin in (1, 2):
                for mode in ("SEP", "NPOL", "POL"):
                    for version in (1, 2):
                        for layout in ("sl", "sl+nldf", "sl+sdmx", "sl+nlof", "sl+nlof_d", "sl+nldf+sdmx"):
                            if layout in ("sl+nlof", "sl+nlof_d", "sl+nldf+sdmx") and (slmode not in ("npa",) or mode == "POL"):
                                continue
                            cfgs.append((slmode, nspin, mode, version, layout))
    for slmode, nspin, mode, version, layout in cfgs:
        out.append(Task("L1/%s/nspin%d/%s/v%d/%s" % (slmode, nspin, mode, version, layout), h_l1,
                        dict(slmode=slmode, nspin=nspin, mode=mode, version=version, layout=layout), mods="numint", max_paths=128))
    extra = [dict(slmode="npa", nspin=2, mode="SEP", version=1, layout="sl+nldf", nevals=2, two_kernels=True, add=True),
             dict(slmode="npa", nspin=1, mode="SEP", version=2, layout="sl+nldf", slxc_type="GGA", add="GGA_C_PBE"),
             dict(slmode="npa", nspin=2, mode="NPOL", version=1, layout="sl", slxc_type="MGGA", add=True),
             # exactly two grid points with nspin = 1 (a block size at which `dfdX1.shape[0] == 2` used to be mistaken for the POL layout)
             dict(slmode="npa", nspin=1, mode="NPOL", version=1, layout="sl", ngrids=2),
             dict(slmode="np", nspin=1, mode="SEP", version=2, layout="sl", ngrids=2)]
    if tier == "thorough":
        extra += [dict(slmode="nst", nspin=2, mode="SEP", version=2, layout="sl+nldf", slxc_type="LDA", mul="MGGA_X_R2SCAN", add="GGA_C_PBE", two_kernels=True),
                  dict(slmode="npa", nspin=1, mode="SEP", version=1, layout="sl+nldf", ngrids=2)]
    for k, cfg in enumerate(extra):
        out.append(Task("L1/extra%d/%s/nspin%d/%s/v%d/%s" % (k, cfg["slmode"], cfg["nspin"], cfg["mode"], cfg["version"], cfg["layout"]), h_l1, cfg,
                        mods="numint", max_paths=128))
    return out


def tasks(tier):
    out = _l1_tasks(tier)
    try:
        from . import c01_l2
        out += c01_l2.tasks(tier)
    except ImportError:
        pass
    from . import c01_l3
    out += c01_l3.tasks(tier)
    from . import c01_sdmx
    for n0, n1, ns in [(1, 0, 1), (2, 2, 2)] + ([(1, 2, 1), (2, 0, 2), (0, 1, 2), (2, 1, 2)] if tier == "thorough" else []):
        out.append(Task("L2s/SDMXBasePlan/n0=%d,n1=%d/nspin%d" % (n0, n1, ns), c01_sdmx.h_sdmx_plan, dict(n0=n0, n1=n1, nspin=ns), mods="numint"))
    for kind in ("SADMPlan", "SDMXIntPlan"):
        out.append(Task("L2s/%s" % kind, c01_sdmx.h_sdmx_plan_variant, dict(kind=kind), mods="numint"))
    from . import c01_occd
    out += c01_occd.tasks(tier)
    out.append(Task("L3s/EXXSphGenerator/no_l1", c01_sdmx.h_sdmx_generator, {}, mods="numint", timeout_ms=120000))
    out.append(Task("L3s/EXXSphGenerator/no_l1/two_density_matrices", c01_sdmx.h_sdmx_generator, dict(nfeat=1, nset=2), mods="numint", timeout_ms=120000))
    try:
        from . import c01_l5
        out += c01_l5.tasks(tier)
    except ImportError:
        pass
    return out


def prepare(tier):
    m = sym_mods()
    m.td, m.fn, m.settings, m.plans, m.baselines, m.xc_evaluator, m.xc_evaluator2, m.numint, m.lcao_nldf_generator
    sym_mods("numint").sdmx
    from ..llsym import bridge
    from ..llsym.ccall import STATS
    bridge.install(common.ctx(), "libmcider", "ciderpress/lib/mod_cider/fast_sdmx.c", ["SDMXcontract_ao_to_bas", "SDMXcontract_ao_to_bas_bwd"], hybrid=True, stats=STATS)


META = dict(
    explanation="symbolic execution of the real orchestration code link by link; the returned energy term is differentiated "
                "mechanically and z3 decides equality with the returned potentials on every path",
    functions=['ciderpress/pyscf/sdmx.py: EXXSphGenerator.get_features / get_vxc_ with two density matrices in one call (L3s/*/two_density_matrices)', 'ciderpress/pyscf/numint.py: nr_rks / nr_uks (thorough: *_nldf) with an SDMX generator stub (L5/*/with_sdmx)', 'ciderpress/dft/plans.py: SemilocalPlan.get_occd, _fill_occd_npa_/_nst_, FracLaplPlan.get_occd, SemilocalPlan2.get_vxc (L2o)', "ciderpress/dft/plans.py: SDMXBasePlan.get_features / get_vxc (L2s); ciderpress/pyscf/sdmx.py: EXXSphGenerator.get_features, get_vxc_, _contract_ao_to_bas(_bwd), "
               "_contract_ao_to_bas_helper, _contract_ao_to_bas_single_, _eval_crho_potential + fast_sdmx.c SDMXcontract_ao_to_bas(_bwd) interpreted (L3s)",
               "ciderpress/pyscf/numint.py: CiderNumIntMixin.eval_xc_cider", "ciderpress/dft/plans.py: SemilocalPlan.get_feat/get_vxc, FracLaplPlan.get_feat/get_vxc, "
               "get_rho_tuple_with_grad_cross, vxc_tuple_to_array", "ciderpress/dft/settings.py: get_s2, ds2, get_alpha, dalpha",
               "ciderpress/dft/xc_evaluator(2).py: MappedXC(2).__call__, MappedDFTKernel(2).__call__, KernelEvalBase(2).*"],
    bounds=dict(grid_points="1 (2 in one thorough configuration)", nspin="1, 2", spin_modes="SEP, NPOL, POL", semilocal_modes="npa, nst, np, ns",
                layouts="sl; sl+2 nldf; sl+1 sdmx; sl+fractional-Laplacian (two settings incl. nd1 != nk1); sl+nldf+sdmx", xmix="symbolic in [-2, 2]",
                region="rho > 1e-6, tau > tau_W (clamps inactive; the clamped sides are C08)"),
    stubs=["feature maps, normaliser list, evaluators, native baselines, libxc, PySCF eval_xc_eff: contract stubs (vf.stubs) whose contracts are the "
           "statements proved by C12 / C04 leaf harnesses"],
    assumptions=["float64 as exact reals; 1e-16 regularisers = 0", "interior of libxc and PySCF trusted (v = d(n exc)/d.)",
                 "end-to-end statement = chain rule over links L1, L2, L3(L4 = C05), L5"],
)
