"""C08 - vanishing or extreme densities never give non-finite or spurious contributions (over the reals).

(i) For every partial operation (division, root, log) in the *outputs* of the real formulas - feature maps,
normalisers, s^2/alpha and their derivatives, length-scale exponents, native baselines, and the assembled
eval_xc_cider - z3 shows the argument cannot leave the domain anywhere in the admissible region
(rho >= 0 incl. exact zero and both sides of every cutoff, sigma >= 0, tau >= 0, regularisers at 1e-16).
(ii) Where the model's own comparison puts a point below rhocut, the machine-learned energy and all its
derivatives are the constant 0.  IEEE overflow/denormal behaviour is not applicable (DESIGN.md 4/C08)."""
from fractions import Fraction

import numpy as np

from ..run import Task
from . import common, l1
from .c12 import map_spec, REAL_PARAMS, ROLE_DOM, ROLE_HI, _mk_norm

PROP_ID = "C08"
sym_mods = common.sym_mods
real_mods = common.real_mods
replay = common.generic_replay


def h_map(env, cls):
    td = env.m.td
    C = getattr(td, cls)
    idxn, parn = map_spec(C)
    nx = len(idxn)
    x = env.arr("x", (nx, 1), "real", lo="-1e12", hi="1e12")
    ps = [env.par(p, "real" if p in REAL_PARAMS else "pos", lo=("-1e6" if p in REAL_PARAMS else None), hi="1e6") for p in parn]
    roles = ROLE_DOM.get(cls, {})
    his = ROLE_HI.get(cls, {})
    for r, n_ in enumerate(idxn):
        if roles.get(n_, "nonneg") == "nonneg":
            env.assume(x[r, 0] >= 0)
        if n_ in his:
            env.assume(x[r, 0] <= env.const(Fraction(his[n_])))
    if cls == "V2Map":
        # V2Map's own denominator 1 + b (a x_i - x_j) requires x_j <= a x_i (its documented use: x_j, x_i exponents ratio)
        env.assume(x[1, 0] <= 2 * x[0, 0])
    env.eps_real()
    m = C(*range(nx), *ps)
    y = env.zeros((1,))
    m.fill_feat_(y, x.copy())
    dfdx = env.zeros((nx, 1))
    dy = env.arr("dy", (1,), lo="-1e6", hi="1e6")
    m.fill_deriv_(dfdx, dy.copy(), x.copy())
    env.finite("value_finite", [y])
    env.finite("derivative_finite", [dfdx])


def h_normlist(env, slmode):
    fn = env.m.fn
    layout = [None, None, None, "DensityNormalizer", "GeneralNormalizer", "InhomogeneityNormalizer"]
    nfeat = len(layout)
    X = env.arr("X", (1, nfeat, 1), "real", lo="-1e12", hi="1e12")
    for i in range(3):
        env.assume(X[0, i, 0] >= 0)
    env.eps_real()
    norms = [None if c is None else _mk_norm(env, fn, c, tag="n%d_" % i) for i, c in enumerate(layout)]
    nl = fn.FeatNormalizerList(norms, slmode)
    XN = nl.get_normalized_feature_vector(X.copy())
    df = env.arr("df", (1, nfeat, 1), lo="-1e6", hi="1e6")
    dX = nl.get_derivative_wrt_unnormed_features(X.copy(), df.copy())
    env.finite("normalised_finite", [XN])
    env.finite("backward_finite", [dX])


def h_sl(env, nspin):
    st = env.m.settings
    rho, sig, tau = env.arr("rho", (1,), "nonneg", hi="1e12"), env.arr("sig", (1,), "nonneg", hi="1e24"), env.arr("tau", (1,), "nonneg", hi="1e18")
    a0, gm, tm = env.par("a0", "pos", hi="100"), env.par("gm", "nonneg", hi="100"), env.par("tm", "nonneg", hi="100")
    env.assume(a0 > tm * env.const("1.2") * 16)     # keeps B = a0 - tau_fac > 0 (documented use: small tau_mul); not needed for finiteness
    env.eps_real()
    env.finite("s2", [st.get_s2(rho.copy(), sig.copy())])
    env.finite("ds2", list(st.ds2(rho.copy(), sig.copy())))
    env.finite("alpha", [st.get_alpha(rho.copy(), sig.copy(), tau.copy())])
    env.finite("dalpha", list(st.dalpha(rho.copy(), sig.copy(), tau.copy())))
    rc = env.const(Fraction(1, 10 ** 10))
    env.finite("exponent_mgga", list(st.get_cider_exponent(rho.copy(), sig.copy(), tau.copy(), a0=a0, grad_mul=gm, tau_mul=tm, rhocut=rc, nspin=nspin)))
    env.finite("exponent_gga", list(st.get_cider_exponent_gga(rho.copy(), sig.copy(), a0=a0, grad_mul=gm, rhocut=rc, nspin=nspin)))
    env.finite("dtauw", list(st.dtauw(rho.copy(), sig.copy())))


def h_clamped_leaves(env):
    """below ALPHA_TOL the semilocal ingredients s^2 and alpha are clamped to exactly 0, so their derivative routines must return
    exactly 0 there too: anything else is a contribution to the potential from a feature that does not move"""
    st = env.m.settings
    rho, sig, tau = env.arr("rho", (1,), "nonneg", hi="1"), env.arr("sig", (1,), "nonneg", hi="1e24"), env.arr("tau", (1,), "nonneg", hi="1e18")
    env.assume(rho[0] < env.const(Fraction(1, 10 ** 10)))
    env.eps_real()
    env.equal("s2_clamped_to_zero", st.get_s2(rho.copy(), sig.copy())[0], 0)
    env.equal("alpha_clamped_to_zero", st.get_alpha(rho.copy(), sig.copy(), tau.copy())[0], 0)
    for nm, d in zip(("rho", "sigma"), st.ds2(rho.copy(), sig.copy())):
        env.equal("ds2_d%s_zero_where_s2_is_clamped" % nm, d[0], 0)
    for nm, d in zip(("rho", "sigma", "tau"), st.dalpha(rho.copy(), sig.copy(), tau.copy())):
        env.equal("dalpha_d%s_zero_where_alpha_is_clamped" % nm, d[0], 0)


def h_clamped_exponent(env, level, nspin):
    """below rhocut the length-scale exponent is the constant it has at rhocut with sigma = tau = 0, so every derivative the routine
    returns must be exactly 0 there (a non-zero one is a potential contribution from a point the functional does not depend on)"""
    st = env.m.settings
    rho, sig, tau = env.arr("rho", (1,), "nonneg", hi="1"), env.arr("sig", (1,), "nonneg", hi="1e24"), env.arr("tau", (1,), "nonneg", hi="1e18")
    a0, gm, tm = env.par("a0", "pos", hi="100"), env.par("gm", "pos", hi="100"), env.par("tm", "pos", hi="100")
    rc = env.par("rhocut", "pos", lo="1/1000000000000", hi="1/1000")
    env.assume(rho[0] < rc)
    env.eps_real()
    if level == "MGGA":
        out = st.get_cider_exponent(rho.copy(), sig.copy(), tau.copy(), a0=a0, grad_mul=gm, tau_mul=tm, rhocut=rc, nspin=nspin)
        ref = st.get_cider_exponent(rho.copy() * 0 + rc, sig.copy() * 0, tau.copy() * 0, a0=a0, grad_mul=gm, tau_mul=tm, rhocut=rc, nspin=nspin)
        names = ("rho", "sigma", "tau")
    else:
        out = st.get_cider_exponent_gga(rho.copy(), sig.copy(), a0=a0, grad_mul=gm, rhocut=rc, nspin=nspin)
        ref = st.get_cider_exponent_gga(rho.copy() * 0 + rc, sig.copy() * 0, a0=a0, grad_mul=gm, rhocut=rc, nspin=nspin)
        names = ("rho", "sigma")
    env.equal("exponent_is_its_value_at_the_cutoff", out[0][0], ref[0][0])
    for nm, d in zip(names, out[1:]):
        env.equal("d_exponent_d%s_zero_below_rhocut" % nm, d[0], 0)


def h_baseline(env, name, nspin):
    bl = env.m.baselines
    X = env.arr("X", (nspin, 4, 1), "nonneg", hi="1e12")
    env.eps_real()
    e, de = bl.BASELINE_CODES[name](X.copy())
    env.finite("e_finite", [e])
    env.finite("dedx_finite", [de])


def h_assembled(env, slmode, nspin, mode, version, layout, rhocut0=False):
    """whole non-negative domain through the real eval_xc_cider: finite outputs and exact zeros below rhocut (rhocut0: the supported
    setting rhocut = 0, no model-level cutoff, where only the code's own regularisers keep the energy per particle finite)"""
    fs = l1.build_settings(env, slmode, layout)
    rho, nldf, sdmx = l1.inputs(env, fs, nspin, physical=False)
    rc = env.const(0) if rhocut0 else env.par("rhocut", "pos", lo="1/1000000000000", hi="1/1000")
    env.eps_real()
    ni = l1.make_numint(env, fs, nspin, mode, version, xmix=env.const(1), rhocut=rc, add=None)
    exc, vxc, vn, vs = l1.call(env, ni, rho, nldf, sdmx, nspin)
    env.finite("exc_finite", [exc])
    env.finite("vxc_finite", [vxc] + ([vn] if vn is not None else []) + ([vs] if vs is not None else []))
    below = [bool(rho[s, 0, 0] * nspin < rc) for s in range(nspin)] if mode == "SEP" else \
        [bool(sum((rho[s, 0, 0] for s in range(nspin)), env.const(0)) * (nspin if False else 1) * (2 if nspin == 1 and False else 1) < rc)] * nspin
    if mode != "SEP":
        tot = sum((rho[s, 0, 0] * nspin for s in range(nspin)), env.const(0))   # X0T density feature is nspin * rho_s
        if version == 1:
            below = [bool(tot < rc)] * nspin
        else:
            below = [bool(sum((rho[s, 0, 0] for s in range(nspin)), env.const(0)) < rc)] * nspin
    elif version == 2:
        below = [bool(rho[s, 0, 0] < rc) for s in range(nspin)]
    if all(below):
        env.zero("ml_energy_zero_below_cut", exc[0])
        for s in range(nspin):
            for c in range(vxc.shape[1]):
                env.zero("vxc_zero_below_cut_s%d_c%d" % (s, c), vxc[s, c, 0])
            if vn is not None:
                for i in range(vn.shape[1]):
                    env.zero("vnldf_zero_below_cut_s%d_f%d" % (s, i), vn[s, i, 0])


def h_kernel_cut(env, mode, nspin, baseline, version=1):
    """the real MappedDFTKernel.__call__ with a *real* native baseline (multiplicative) over the whole non-negative domain, both
    sides of a symbolic positive rhocut: every division / root that survives into the returned energy density and derivative has
    its argument inside the domain.  A value that is non-finite at vanishing density and is then *overwritten* by the cutoff mask is
    not an output; one that is *multiplied* by a 0/1 mask still is (0 * (1/0) keeps its division in the term).  libxc itself is a
    total function by contract (it thresholds the density); the spin-scaling code around it (get_sigma / get_dsigma) is real."""
    from . import c04
    from .. import stubs
    xe, bl = env.m.xc_evaluator, env.m.baselines
    X = env.arr("X", (nspin, c04.N0, 1), "nonneg", hi="1e12")
    rc = env.par("rhocut", "pos", lo="1/1000000000000", hi="1/1000")
    env.eps_real()
    lda, gga, mgga = stubs.make_abs_libxc(env)
    mk = xe.MappedDFTKernel(c04._evals(env, mode, 1), c04._featlist(env), mode, bl.BASELINE_CODES[baseline], None)
    with c04._Patch(bl, get_libxc_lda_baseline=lda, get_libxc_gga_baseline=gga, get_libxc_mgga_baseline=mgga):
        ok, out = env.attempt("call_returns", lambda: mk(X.copy(), rhocut=rc))
    if not ok:
        return
    res, dres = out
    env.finite("energy_density_finite", [res[0]])
    env.finite("derivative_finite", [dres[s_, i, 0] for s_ in range(nspin) for i in range(c04.N0)])


def tasks(tier):
    td = sym_mods().td
    out = []
    for C in td.ALL_CLASSES:
        out.append(Task("map/%s" % C.__name__, h_map, dict(cls=C.__name__), max_paths=600))
    for slmode in ("npa", "nst", "np", "ns"):
        out.append(Task("normlist/%s" % slmode, h_normlist, dict(slmode=slmode), max_paths=64))
    for nspin in (1, 2):
        out.append(Task("semilocal/nspin%d" % nspin, h_sl, dict(nspin=nspin), max_paths=2048))
    out.append(Task("semilocal/clamped_leaves", h_clamped_leaves, {}, max_paths=64))
    for level in ("MGGA", "GGA"):
        for nspin in (1, 2):
            out.append(Task("semilocal/clamped_exponent/%s/nspin%d" % (level, nspin), h_clamped_exponent, dict(level=level, nspin=nspin), max_paths=64))
    for name in ["ZERO", "ONE", "LDA_X", "NLDA_X_DAMP", "GGA_X_PBE", "GGA_X_CHACHIYO", "RHO"]:
        for nspin in (1, 2):
            out.append(Task("baseline/%s/nspin%d" % (name, nspin), h_baseline, dict(name=name, nspin=nspin)))
    kc = [("NPOL", 2, "GGA_C_PBE"), ("POL", 2, "GGA_C_PBE"), ("SEP", 2, "GGA_X_PBE"), ("NPOL", 1, "GGA_C_PBE"), ("SEP", 1, "LDA_X"), ("NPOL", 2, "GGA_X_CHACHIYO")]
    if tier == "thorough":
        kc += [(m, ns, b) for m in ("SEP", "NPOL", "POL") for ns in (1, 2) for b in ("LDA_X", "NLDA_X_DAMP", "GGA_X_PBE", "GGA_X_CHACHIYO", "GGA_C_PBE", "RHO") if (m, ns, b) not in kc]
    for m, ns, b in kc:
        out.append(Task("kernel_cut/%s/nspin%d/%s" % (m, ns, b), h_kernel_cut, dict(mode=m, nspin=ns, baseline=b), mods="numint", max_paths=512))
    cfgs = [("npa", 1, "SEP", 1, "sl+nldf"), ("npa", 2, "SEP", 1, "sl"), ("nst", 2, "NPOL", 1, "sl+nldf"), ("npa", 1, "SEP", 2, "sl")]
    if tier == "thorough":
        cfgs += [("np", 2, "SEP", 1, "sl+nldf"), ("ns", 1, "NPOL", 1, "sl"), ("npa", 2, "POL", 1, "sl"), ("npa", 2, "SEP", 2, "sl+sdmx"), ("nst", 1, "NPOL", 2, "sl")]
    for sm, ns, m, v, lay in [("npa", 1, "SEP", 1, "sl"), ("npa", 2, "NPOL", 1, "sl")]:
        out.append(Task("assembled_rhocut0/%s/nspin%d/%s/v%d/%s" % (sm, ns, m, v, lay), h_assembled, dict(slmode=sm, nspin=ns, mode=m, version=v, layout=lay, rhocut0=True),
                        mods="numint", max_paths=4096))
    for sm, ns, m, v, lay in cfgs:
        out.append(Task("assembled/%s/nspin%d/%s/v%d/%s" % (sm, ns, m, v, lay), h_assembled, dict(slmode=sm, nspin=ns, mode=m, version=v, layout=lay),
                        mods="numint", max_paths=4096))
    return out


def prepare(tier):
    m = sym_mods()
    m.td, m.fn, m.settings, m.plans, m.baselines, m.xc_evaluator, m.xc_evaluator2, m.numint


META = dict(
    explanation="symbolic execution over the whole non-negative domain; for every division/root/log node in the output terms z3 "
                "decides whether its argument can leave the domain under the path condition; below-cutoff zeros decided as term identities",
    functions=['ciderpress/dft/settings.py: get_s2 / ds2 / get_alpha / dalpha below ALPHA_TOL (semilocal/clamped_leaves)', 'ciderpress/dft/xc_evaluator.py: MappedDFTKernel.__call__ with the real native baselines incl. ciderpress/dft/baselines.py get_sigma, get_dsigma, get_gga_c (kernel_cut/*; libxc total by contract)', "ciderpress/dft/transform_data.py: all map classes", "ciderpress/dft/feat_normalizer.py: FeatNormalizerList + 3 normaliser classes",
               "ciderpress/dft/settings.py: get_s2, ds2, get_alpha, dalpha, dtauw, get_cider_exponent(_gga)", "ciderpress/dft/baselines.py: native baselines",
               "ciderpress/pyscf/numint.py: eval_xc_cider (assembled, whole domain)"],
    bounds=dict(domain="rho in [0, 1e12] incl. 0 and both sides of 1e-10/rhocut/ALPHA_TOL, sigma in [0, 1e24], tau in [0, 1e18], EPS = 1e-16", sample_points=1,
                rhocut="symbolic in [1e-12, 1e-3]"),
    stubs=["assembled harness: leaves by contract (uninterpreted functions are total: their finiteness is their leaf harness)"],
    assumptions=["reals, not IEEE: overflow to inf for huge gradients, denormals and NaN propagation are NOT decided (no faithful QF_FP encoding of pow/exp/log)",
                 "V2Map restricted to x_j <= 2 x_i (its own denominator is otherwise not sign-definite)",
                 "intermediate non-finite values that are overwritten by a mask before being returned are not outputs"],
)
