"""Shared harness for the point-wise assembly (DESIGN.md C01-L1): the real
CiderNumIntMixin.eval_xc_cider -> SemilocalPlan/FracLaplPlan -> normaliser list -> MappedXC(2) ->
MappedDFTKernel(2) -> get_vxc chain, with leaves as contract stubs.  Used by C01, C07, C08, C09."""
from fractions import Fraction

import numpy as np

from .. import stubs

LAYOUTS = {
    # name: (nldf kind, nlof kind, sdmx kind)
    "sl": (None, None, None),
    "sl+nldf": ("vj2", None, None),
    "sl+sdmx": (None, None, "sdmx1"),
    "sl+nlof": (None, "fl", None),
    "sl+nlof_d": (None, "fl_d", None),
    "sl+nldf+sdmx": ("vj2", None, "sdmx1"),
}


def build_settings(env, slmode, layout):
    st = env.m.settings
    nldf_k, nlof_k, sdmx_k = LAYOUTS[layout]
    sl = st.SemilocalSettings(slmode)
    kw = {}
    if nldf_k == "vj2":
        if sl.level == "MGGA":
            kw["nldf_settings"] = st.NLDFSettingsVJ("MGGA", [1.0, 0.0, 0.03125], "one", ["se", "se_ar2"], [[2.0, 0.0, 0.04], [1.0, 0.0, 0.03]])
        else:
            kw["nldf_settings"] = st.NLDFSettingsVJ("GGA", [1.0, 0.03125], "one", ["se", "se_ar2"], [[2.0, 0.04], [1.0, 0.03]])
    if nlof_k == "fl":
        kw["nlof_settings"] = st.FracLaplSettings([0.0, 0.5], 2, 1, [(-1, 0), (0, 0)])
    if nlof_k == "fl_d":
        # nd1 != nk1 and ndd > 0: exercises the F^d vector cache and the trailing dd features
        kw["nlof_settings"] = st.FracLaplSettings([0.0, 0.5], 1, 1, [(0, 0)], nd1=2, ld_dots=[(1, 1), (-1, 0)], ndd=1)
    if sdmx_k == "sdmx1":
        kw["sdmx_settings"] = st.SDMXSettings([1])
    fs = st.FeatureSettings(sl_settings=sl, **kw)
    return fs


class Bundle(object):
    pass


def make_numint(env, fs, nspin, mode, version, nevals=1, slxc_type="HF", mul="GGA_X_PBE", add=None, two_kernels=False,
                norm_stub=True, rhocut=None, xmix=None):
    """returns an object exposing the real eval_xc_cider, and the list of patches to keep active"""
    numint = env.m.numint
    plans = env.m.plans
    td = env.m.td
    nfeat = fs.nfeat
    nsl = fs.sl_settings.nfeat
    if norm_stub:
        fs.normalizers = stubs.make_abs_normlist(env, nfeat, slmode=fs.sl_settings.mode, identity=tuple(range(min(3, nsl))))
    # feature maps: y0 reads s2-like feature, y1 reads two sl features, the others read one non-local feature each (+ density)
    maps = [stubs.make_abs_map(env, "y0", [1]), stubs.make_abs_map(env, "y1", [1, nsl - 1])]
    for i in range(nsl, nfeat):
        maps.append(stubs.make_abs_map(env, "y%d" % (i - nsl + 2), [i, 1] if i % 2 else [i]))
    n1 = len(maps)
    pol = mode == "POL"

    def kernel(tag):
        fl = td.FeatureList(list(maps))
        evs = [stubs.make_abs_eval(env, "F%s%d" % (tag, k), n1, pol=pol) for k in range(nevals)]
        if version == 1:
            return env.m.xc_evaluator.MappedDFTKernel(evs, fl, mode, stubs.make_abs_baseline(env, "M" + tag, nfeat_used=min(nfeat, 3)),
                                                     stubs.make_abs_baseline(env, "A" + tag, nfeat_used=min(nfeat, 3)) if add else None)
        return env.m.xc_evaluator2.MappedDFTKernel2(evs, fl, mode, mul, add if add else None)
    ks = [kernel("a")] + ([kernel("b")] if two_kernels else [])
    if version == 1:
        mlxc = env.m.xc_evaluator.MappedXC(ks, fs)
    else:
        mlxc = env.m.xc_evaluator2.MappedXC2(ks, fs)
    slf = stubs.LeafFn(env, "ESL_%s_ns%d" % (slxc_type, nspin), nspin * {"LDA": 1, "GGA": 4, "MGGA": 5}.get(slxc_type, 1))

    class NI(numint.CiderNumIntMixin):
        def __init__(s):
            s.mlxc = mlxc
            s.slxc = "slxc"
            s.xmix = xmix if xmix is not None else env.par("xmix", "real", lo="-2", hi="2")
            s.rhocut = rhocut if rhocut is not None else env.const(Fraction(1, 10 ** 9))
            s.sl_plan = plans.SemilocalPlan(fs.sl_settings, nspin)
            s.fl_plan = plans.FracLaplPlan(fs.nlof_settings, nspin)

        def _xc_type(s, code):
            return slxc_type

        def eval_xc_eff(s, xc_code, rho, deriv=1, omega=None, xctype=None, verbose=None):
            # contract of PySCF's eval_xc_eff: exc per particle, vxc = d(n exc)/d rho components
            r = rho if rho.ndim == 3 else rho[None]
            ns, nv, ng = r.shape
            exc = env.zeros((ng,))
            v = env.zeros(r.shape)
            for g in range(ng):
                args = [r[a, c, g] for a in range(ns) for c in range(nv)]
                n = sum((r[a, 0, g] for a in range(ns)), env.const(0))
                exc[g] = slf.val(args)
                k = 0
                for a in range(ns):
                    for c in range(nv):
                        v[a, c, g] = n * slf.grad(args, k) + (exc[g] if c == 0 else 0)
                        k += 1
            return exc, (v if rho.ndim == 3 else v[0]), None, None

    return NI()


class _Patch(object):
    def __init__(self, mod, **kw):
        self.mod, self.kw, self.old = mod, kw, {}

    def __enter__(self):
        for k, v in self.kw.items():
            self.old[k] = getattr(self.mod, k)
            setattr(self.mod, k, v)

    def __exit__(self, *a):
        for k, v in self.old.items():
            setattr(self.mod, k, v)


def libxc_patch(env):
    lda, gga, mgga = stubs.make_abs_libxc(env)
    return _Patch(env.m.baselines, get_libxc_lda_baseline=lda, get_libxc_gga_baseline=gga, get_libxc_mgga_baseline=mgga)


def inputs(env, fs, nspin, physical=True, ngrids=1):
    """symbolic density data (nspin, 5 + nlof rows, ngrids) and non-local raw features"""
    nrow = 5 + (fs.nlof_settings.nrho if not fs.nlof_settings.is_empty else 0)
    rho = env.arr("rho", (nspin, nrow, ngrids), "real", lo="-64", hi="64")
    for s in range(nspin):
        for g in range(ngrids):
            env.assume(rho[s, 0, g] >= 0)
            env.assume(rho[s, 4, g] >= 0)
            if physical:
                # above every cutoff, and tau >= tau_W (alpha clamp inactive): the derivative identity region
                env.assume(rho[s, 0, g] > env.const(Fraction(1, 10 ** 6)))
                g2 = rho[s, 1, g] ** 2 + rho[s, 2, g] ** 2 + rho[s, 3, g] ** 2
                env.assume(8 * rho[s, 0, g] * rho[s, 4, g] > g2)
    nldf = None if fs.nldf_settings.is_empty else env.arr("nldf", (nspin, fs.nldf_settings.nfeat, ngrids), "nonneg", hi="64")
    sdmx = None if fs.sdmx_settings.is_empty else env.arr("sdmx", (nspin, fs.sdmx_settings.nfeat, ngrids), "real", lo="-64", hi="64")
    return rho, nldf, sdmx


def call(env, ni, rho, nldf, sdmx, nspin):
    r = rho.copy() if nspin == 2 else rho[0].copy()
    nf = None if nldf is None else (nldf.copy() if nspin == 2 else nldf[0].copy())
    sf = None if sdmx is None else (sdmx.copy() if nspin == 2 else sdmx[0].copy())
    with libxc_patch(env):
        exc, (vxc, vn, vs) = ni.eval_xc_cider("", r, nf, sf)[:2]
    if nspin == 1:
        vxc = vxc[None]
        vn = None if vn is None else (vn if vn.ndim == 3 else vn[None])
        vs = None if vs is None else (vs if vs.ndim == 3 else vs[None])
    return exc, vxc, vn, vs
