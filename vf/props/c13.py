"""C13 - uniform-electron-gas reference values match computed features.

E1 on settings.py / plans.py / feat_normalizer.py / transform_data.py with a symbolic uniform density
rho = 2 u^6 (u > 0, so that every fractional power of rho is a polynomial in u) and symbolic
exponent parameters.  The oracle for the NLDF entries is the *documented* kernel of
docs/features/nldf.rst integrated with the single trusted lemma
    int r^{2m} exp(-c r^2) d^3r = pi^{3/2} (2m+1)!! / (2^m c^{m+3/2}).
"""
from fractions import Fraction

import numpy as np

from ..run import Task
from . import common

PROP_ID = "C13"
sym_mods = common.sym_mods
real_mods = common.real_mods
replay = common.generic_replay


def _rho(env):
    u = env.par("u", "pos", lo="1/8", hi="8")
    return 2 * u ** 6, u


def _pi(env):
    return env.m.settings.np.pi if env.sym else np.pi


def _cfc(env):
    pi = _pi(env)
    return env.const(Fraction(3, 10)) * (3 * pi * pi) ** env.const(Fraction(2, 3))


def _doc_expnt(env, A, rho):
    """documented exponent at the UEG point (grad = 0, tau = tau0): a = pi (n/2)^(2/3) A"""
    return _pi(env) * (rho / 2) ** env.const(Fraction(2, 3)) * A


def _gauss_moment(env, m, c):
    """int r^{2m} exp(-c r^2) d^3 r"""
    pi = _pi(env)
    dfact = {0: 1, 1: 3, 2: 15}[m]
    return pi ** env.const(Fraction(3, 2)) * dfact / (2 ** m * c ** m * c ** env.const(Fraction(3, 2)))


def h_semilocal(env, mode, nspin=1):
    st, plans = env.m.settings, env.m.plans
    rho, u = _rho(env)
    env.eps_zero()
    sl = st.SemilocalSettings(mode)
    plan = plans._BaseSemilocalPlan(sl, nspin)
    r = env.zeros((nspin, 1)) + rho / nspin
    sig = env.zeros((nspin, 1))
    tau = env.zeros((nspin, 1)) + _cfc(env) * rho ** env.const(Fraction(5, 3)) / nspin * (nspin ** env.const(Fraction(2, 3)) if False else 1)
    if nspin == 2:
        # per-spin uniform gas: each channel is the UEG of density rho (spin-scaling n_s -> 2 n_s)
        tau = env.zeros((nspin, 1)) + _cfc(env) * rho ** env.const(Fraction(5, 3)) / 2
    feat = plan.get_feat(r, sig, tau if sl.level == "MGGA" else None)
    ueg = sl.ueg_vector(rho)
    env.check("length", len(ueg) == sl.nfeat == feat.shape[1])
    for s in range(nspin):
        for i in range(sl.nfeat):
            env.equal("feat%d_spin%d" % (i, s), feat[s, i, 0], ueg[i])


def h_expnt(env, level, nspin=1):
    st = env.m.settings
    rho, u = _rho(env)
    a0, gm, tm = env.par("a0", "pos"), env.par("gm", "nonneg"), env.par("tm", "nonneg")
    env.eps_zero()
    r = env.zeros((1,)) + rho
    s = env.zeros((1,))
    doc = _doc_expnt(env, a0, rho)
    if level == "MGGA":
        t = env.zeros((1,)) + _cfc(env) * rho ** env.const(Fraction(5, 3))
        a = st.get_cider_exponent(r, s, t, a0=a0, grad_mul=gm, tau_mul=tm, rhocut=env.const(0), nspin=1)[0]
        env.equal("mgga_exponent_at_ueg", a[0], doc)
        env.equal("_get_ueg_expnt", st._get_ueg_expnt(a0, tm, rho), doc)
    else:
        a = st.get_cider_exponent_gga(r, s, a0=a0, grad_mul=gm, rhocut=env.const(0), nspin=1)[0]
        env.equal("gga_exponent_at_ueg", a[0], doc)


I_KERNEL = {   # spec -> (power of a, m) :  k(a, r) = a^p r^{2m} exp(-a r^2)
    "se": (0, 0), "se_r2": (0, 1), "se_apr2": (1, 1), "se_ap": (1, 0), "se_ap2r2": (2, 1),
}
J_KERNEL = {"se": (0, 0), "se_ar2": (1, 1), "se_a2r4": (2, 2)}


def _params(env, level, tag):
    a0, gm = env.par(tag + "a0", "pos"), env.par(tag + "gm", "nonneg")
    if level == "MGGA":
        return [a0, gm, env.par(tag + "tm", "nonneg")]
    return [a0, gm]


def _dummy(level):
    return [1.0, 0.0, 0.03125] if level == "MGGA" else [1.0, 0.03125]


def h_nldf(env, version, level, rho_mult, specs, l1=()):
    st = env.m.settings
    rho, u = _rho(env)
    theta = _params(env, level, "th_")
    env.eps_zero()
    # constructor validation wants python floats: build with placeholders, then install the symbolic parameters
    if version == "i":
        s = st.NLDFSettingsVI(level, _dummy(level), rho_mult, list(specs), ["se_grad", "se_rvec"][:len(l1)], [(-1, 0)][:len(l1)])
        fps = []
    elif version == "j":
        s = st.NLDFSettingsVJ(level, _dummy(level), rho_mult, list(specs), [_dummy(level) + ([0.5] if sp == "se_erf_rinv" else []) for sp in specs])
        fps = [_params(env, level, "f%d_" % k) + ([env.par("f%d_erf" % k, "pos")] if sp == "se_erf_rinv" else []) for k, sp in enumerate(specs)]
    else:
        s = st.NLDFSettingsVK(level, _dummy(level), rho_mult, [_dummy(level) for _ in specs], "exponential")
        fps = [_params(env, level, "f%d_" % k) for k, sp in enumerate(specs)]
    s.theta_params = theta
    s.feat_params = fps
    ok, vec = env.attempt("ueg_vector_returns", lambda: s.ueg_vector(rho))
    if not ok:
        return
    env.check("length", len(vec) == s.nfeat == len(s.get_feat_usps()), "%d %d" % (len(vec), s.nfeat))
    a_th = _doc_expnt(env, theta[0], rho)
    b = 1 if rho_mult == "one" else a_th
    for k, sp in enumerate(specs):
        if version == "i":
            if sp == "se_lapl":
                integ = 4 * (a_th ** 2) * _gauss_moment(env, 1, a_th) - 2 * a_th * _gauss_moment(env, 0, a_th)
            else:
                p, m = I_KERNEL[sp]
                integ = a_th ** p * _gauss_moment(env, m, a_th)
        elif version == "j":
            a_i = _doc_expnt(env, fps[k][0], rho)
            if sp == "se_erf_rinv":
                # kernel exp(-a_i r^2) * sqrt(pi) erf(b r) / (2 b r) with b^2 = erf_mul * a_i (-> exp(-a_i r^2) for b -> 0; the form
                # the C coefficient routines expand).  Lemma: int_0^inf r exp(-c r^2) erf(b r) dr = b / (2 c sqrt(b^2 + c)), hence
                # int exp(-c r^2) sqrt(pi) erf(b r) / (2 b r) d^3r = pi^(3/2) / (c sqrt(c + b^2)) with c = a_i + a_theta
                c = a_i + a_th
                integ = _pi(env) ** env.const(Fraction(3, 2)) / (c * (c + fps[k][-1] * a_i) ** env.const(Fraction(1, 2)))
            else:
                p, m = J_KERNEL[sp]
                integ = a_i ** p * _gauss_moment(env, m, a_i + a_th)
        else:
            a_i = _doc_expnt(env, fps[k][0], rho)
            x = -env.const(Fraction(3, 2)) * a_th / a_i
            damp = x.exp() if env.sym else np.exp(x)
            integ = _gauss_moment(env, 0, a_i) * damp
        env.equal("entry%d_%s" % (k, sp), vec[k], rho * b * integ)
    for k in range(len(l1)):
        env.equal("l1_entry%d_is_zero" % k, vec[len(specs) + k], 0)


def h_fraclapl(env, lo="-1/4", hi="1"):
    """FracLaplSettings.ueg_vector against the plane-wave integral (1/pi^2) int_0^kf k^(2+2s) dk = kf^(3+2s) / (pi^2 (3+2s)) for a
    symbolic s; scipy's Gamma function (only reachable through the helper _get_fl_ueg) is an uninterpreted function here"""
    st = env.m.settings
    if env.sym:
        from .. import dag
        from ..sym import S, lift
        real_gamma = st.gamma_func
        st.gamma_func = lambda x: S(dag.uf("Gamma", (lift(x),))) if isinstance(x, S) else real_gamma(x)
    try:
        rho, u = _rho(env)
        s_ = env.par("s", "real", lo=lo, hi=hi)
        env.eps_zero()
        fl = st.FracLaplSettings([0.5, 1.0], 1, 1, [(-1, 0)])
        fl.slist = [s_, 1.0]
        ok, vec = env.attempt("ueg_vector_returns", lambda: fl.ueg_vector(rho))
        if not ok:
            return
        pi = _pi(env)
        kf = (3 * pi * pi * rho) ** env.const(Fraction(1, 3))
        want = kf ** (3 + 2 * s_) / (pi * pi * (3 + 2 * s_))
        env.equal("fraclapl_l0", vec[0], want)
        env.equal("fraclapl_l1_zero", vec[1], 0)
        env.check("length", len(vec) == fl.nfeat)
    finally:
        if env.sym:
            st.gamma_func = real_gamma


def h_normalizer_ueg(env, cls, inh_ueg=0):
    """normaliser's reported UEG factor equals fill_fwd at the UEG point (x = 1).  The inhomogeneity
    variable of a uniform gas is 0 in the GGA modes (5/3 s^2, or the reduced gradient) and 1 in the
    meta-GGA modes (alpha + 5/3 s^2 = 1, tau/tau_ueg = 1) - FeatNormalizerList._get_rho_and_inh."""
    fn = env.m.fn
    from .c12 import _mk_norm
    rho, u = _rho(env)
    env.eps_zero()
    n = _mk_norm(env, fn, cls)
    x = env.zeros((1,)) + 1
    r = env.zeros((1,)) + rho
    inh = env.zeros((1,)) + inh_ueg
    xn = n.fill_fwd(x, r, inh)
    env.equal("get_ueg_equals_fill_fwd", n.get_ueg(rho), xn[0])


def h_settings_normed(env, kind):
    """FeatureSettings.ueg_vector(with_normalizers=True) equals the normalised computed UEG vector, and
    recommended normalisers map every non-local UEG feature to the documented constant"""
    st, fn = env.m.settings, env.m.fn
    rho, u = _rho(env)
    env.eps_zero()
    sl = st.SemilocalSettings("npa")
    if kind == "vj":
        nl = st.NLDFSettingsVJ("MGGA", [1.0, 0.0, 0.03125], "one", ["se", "se_ar2"], [[2.0, 0.0, 0.04], [1.0, 0.0, 0.03]])
        fs = st.FeatureSettings(sl_settings=sl, nldf_settings=nl)
    elif kind == "vi":
        nl = st.NLDFSettingsVI("MGGA", [1.0, 0.0, 0.03125], "one", ["se_ap", "se_r2"], ["se_grad"], [(0, 0), (-1, 0)])
        fs = st.FeatureSettings(sl_settings=sl, nldf_settings=nl)
    elif kind == "sdmx":
        fs = st.FeatureSettings(sl_settings=sl, sdmx_settings=st.SDMXGSettings([0, 1, 2], 2))
    else:
        fs = st.FeatureSettings(sl_settings=sl, nlof_settings=st.FracLaplSettings([0.0, 0.5], 2, 1, [(-1, 0), (0, 0)]))
    fs.assign_reasonable_normalizer()
    raw = fs.ueg_vector(rho)
    normed = fs.ueg_vector(rho, with_normalizers=True)
    env.check("lengths", len(raw) == len(normed) == fs.nfeat == fs.normalizers.nfeat)
    X = env.zeros((1, fs.nfeat, 1))
    for i in range(fs.nfeat):
        X[0, i, 0] = raw[i]
    XN = fs.normalizers.get_normalized_feature_vector(X)
    for i in range(fs.nfeat):
        env.equal("normed_entry%d_%s" % (i, type(fs.normalizers[i]).__name__), XN[0, i, 0], normed[i])


def h_vmap_heg(env):
    td = env.m.td
    heg, g = env.par("heg", "pos"), env.par("gamma", "pos")
    c = td.get_vmap_heg_value(heg, g)
    m = td.VMap(0, g, scale=env.const(1), center=env.const(0))
    x = env.zeros((1, 1)) + heg
    y = env.zeros((1,))
    m.fill_feat_(y, x)
    env.equal("vmap_at_heg", y[0], c)
    m2 = td.VMap(0, g, scale=env.const(1), center=c)
    y2 = env.zeros((1,))
    m2.fill_feat_(y2, x)
    env.equal("centred_vmap_is_zero_at_heg", y2[0], 0)


def h_sdmx_tables(env):
    """the SDMX constants are hard-coded numbers: only mutual consistency between the tables is decidable"""
    st = env.m.settings
    s1 = st.SDMXSettings([0, 1, 2]).ueg_const
    g1 = st.SDMXGSettings([0, 1, 2], 3).ueg_const
    full = st.SDMXFullSettings({1.0: ([0, 1, 2], [3, 3, 0, 0])})._get_ueg_const()
    for n in range(3):
        env.check("sdmx_vs_full_n%d" % n, abs(float(s1[n]) - float(full[(1.0, n, False)])) < 1e-11, "%r %r" % (s1[n], full[(1.0, n, False)]))
        env.check("sdmxg_vs_full_d_n%d" % n, abs(float(g1[3 + n]) - float(full[(1.0, n, True)])) < 1e-11, "%r %r" % (g1[3 + n], full[(1.0, n, True)]))
        env.check("sdmxg_vs_sdmx_n%d" % n, abs(float(g1[n]) - float(s1[n])) < 1e-11)
    sadm = st.SADMSettings("smooth").ueg_const
    env.check("sadm_smooth_vs_sdmx_n1", abs(float(sadm) - float(s1[1])) < 1e-9, "%r %r" % (sadm, s1[1]))
    rho, u = _rho(env)
    v = st.SDMXSettings([0, 1, 2]).ueg_vector(rho)
    for n in range(3):
        env.equal("sdmx_power_n%d" % n, v[n], s1[n] * rho ** (1 + env.const(Fraction(n, 3))))
    # every ordered selection of distinct powers and every number of gradient / l=1 terms: the constant reported at a position is the
    # constant of the *power* stored there, with the documented density power,
    # and the recommended normaliser is its reciprocal with the opposite power
    import itertools
    # (the canonical-order tables g1 were tied to the independent SDMXFullSettings table above, to 1e-11; exact terms below)
    H0 = {n: g1[n] for n in range(3)}
    Hd = {n: g1[3 + n] for n in range(3)}
    close = lambda a, b: abs(float(a) - float(b)) < 1e-11
    for r in (1, 2, 3):
        for pows in itertools.permutations(range(3), r):
            pows = list(pows)
            tag = "".join(map(str, pows))
            for ndt in range(r + 1):
                for cls, args, n1 in ((st.SDMXGSettings, (ndt,), 0),) + tuple((st.SDMXG1Settings, (ndt, k1), k1) for k1 in range(1, r + 1)):
                    obj = cls(list(pows), *args)
                    name = "%s[%s]%s" % (cls.__name__, tag, "".join("_%d" % a for a in args))
                    want = [H0[n] for n in pows] + [Hd[n] for n in pows[:ndt]]
                    wpow = pows + pows[:ndt]
                    uc = list(obj.ueg_const)
                    env.check("ueg_const/%s" % name, len(uc) == len(want) and all(close(a, b) for a, b in zip(uc, want)), "%r vs %r" % (uc, want))
                    vec = obj.ueg_vector(rho)
                    env.check("ueg_vector_length/%s" % name, len(vec) == obj.nfeat, "%d vs nfeat %d" % (len(vec), obj.nfeat))
                    for k, (c, n) in enumerate(zip(want, wpow)):
                        if k < len(vec):
                            env.equal("ueg_vector/%s/%d" % (name, k), vec[k], c * rho ** (1 + env.const(Fraction(n, 3))))
                    for k in range(len(want), len(vec)):
                        env.equal("ueg_vector/%s/%d_l1_term_vanishes" % (name, k), vec[k], env.const(0))
                    norms = obj.get_reasonable_normalizer()
                    env.check("normalizer_count/%s" % name, len(norms) == obj.nfeat, "%d vs nfeat %d" % (len(norms), obj.nfeat))
                    wn = want + want[:n1]
                    wp = wpow + pows[:n1]
                    for k, (c, n) in enumerate(zip(wn, wp)):
                        if k < len(norms):
                            env.check("normalizer/%s/%d" % (name, k), close(norms[k].const, 1.0 / float(c)) and close(norms[k].power, -1 - n / 3.0), "const %r power %r; expected %r %r" % (norms[k].const, norms[k].power, 1.0 / float(c), -1 - n / 3.0))
            if r >= 1:
                for k1 in range(0, r + 1):
                    obj = st.SDMX1Settings(list(pows), k1) if k1 else st.SDMXSettings(list(pows))
                    name = "%s[%s]_%d" % (type(obj).__name__, tag, k1)
                    uc = list(obj.ueg_const)
                    env.check("ueg_const/%s" % name, all(close(a, H0[n]) for a, n in zip(uc, pows)) and len(uc) == r, "%r" % (uc,))
                    vec = obj.ueg_vector(rho)
                    env.check("ueg_vector_length/%s" % name, len(vec) == obj.nfeat, "%d vs nfeat %d" % (len(vec), obj.nfeat))


def h_repeat(env, kind):
    """the reported UEG vector and the recommended normalisers do not depend on what was called before
    (repeat call on the same object, then a fresh object of the same class)"""
    st = env.m.settings
    rho, u = _rho(env)
    env.eps_zero()

    def mk():
        if kind == "sdmxfull":
            return st.SDMXFullSettings({1.0: ([0, 1, 2], [3, 3, 0, 0]), 1.5: ([0, 1, 2], [3, 2, 0, 0]), 2.0: ([0, 1], [2, 1, 0, 0])})
        if kind == "sdmxg":
            return st.SDMXGSettings([0, 1, 2], 2)
        if kind == "vi":
            return st.NLDFSettingsVI("MGGA", [1.0, 0.0, 0.03125], "one", ["se_ap", "se_r2"], ["se_grad"], [(0, 0)])
        return st.NLDFSettingsVJ("MGGA", [1.0, 0.0, 0.03125], "expnt", ["se", "se_ar2"], [[2.0, 0.0, 0.04], [1.0, 0.0, 0.03]])
    a = mk()
    n0 = [x.get_ueg(rho) if x is not None else 1 for x in a.get_reasonable_normalizer()]
    v1 = list(a.ueg_vector(rho))
    v2 = list(a.ueg_vector(rho))
    v3 = list(a.ueg_vector(rho * 3))
    v4 = list(a.ueg_vector(rho))
    n1 = [x.get_ueg(rho) if x is not None else 1 for x in a.get_reasonable_normalizer()]
    b = mk()
    v5 = list(b.ueg_vector(rho))
    n2 = [x.get_ueg(rho) if x is not None else 1 for x in b.get_reasonable_normalizer()]
    env.check("lengths", len(v1) == len(v2) == len(v4) == len(v5) == a.nfeat == len(n0) == len(n1) == len(n2))
    for i in range(len(v1)):
        env.equal("second_call_entry%d" % i, v2[i], v1[i])
        env.equal("after_other_density_entry%d" % i, v4[i], v1[i])
        env.equal("fresh_object_entry%d" % i, v5[i], v1[i])
        env.equal("normalizer_before_vs_after_entry%d" % i, n1[i], n0[i])
        env.equal("normalizer_fresh_object_entry%d" % i, n2[i], n0[i])


def tasks(tier):
    out = []
    for kind in ("sdmxfull", "sdmxg", "vi", "vj"):
        out.append(Task("repeat/%s" % kind, h_repeat, dict(kind=kind)))
    for mode in ("nst", "npa", "ns", "np"):
        out.append(Task("semilocal/%s" % mode, h_semilocal, dict(mode=mode)))
        if tier == "thorough":
            out.append(Task("semilocal/%s/nspin2" % mode, h_semilocal, dict(mode=mode, nspin=2)))
    for level in ("MGGA", "GGA"):
        out.append(Task("exponent/%s" % level, h_expnt, dict(level=level)))
    i_specs = ["se", "se_r2", "se_apr2", "se_ap", "se_ap2r2", "se_lapl"]
    j_specs = ["se", "se_ar2", "se_a2r4", "se_erf_rinv"]
    for level in ("MGGA", "GGA"):
        for rm in ("one", "expnt"):
            out.append(Task("nldf/i/%s/%s" % (level, rm), h_nldf, dict(version="i", level=level, rho_mult=rm, specs=i_specs, l1=(0,))))
            out.append(Task("nldf/j/%s/%s" % (level, rm), h_nldf, dict(version="j", level=level, rho_mult=rm, specs=j_specs)))
            out.append(Task("nldf/k/%s/%s" % (level, rm), h_nldf, dict(version="k", level=level, rho_mult=rm, specs=["se", "se"])))
    out.append(Task("fraclapl", h_fraclapl, {}, max_paths=64))
    out.append(Task("fraclapl/s>1", h_fraclapl, dict(lo="17/16", hi="3"), max_paths=64))
    for cls in ("ConstantNormalizer", "DensityNormalizer", "InhomogeneityNormalizer", "GeneralNormalizer"):
        out.append(Task("normalizer_ueg/%s/gga_modes" % cls, h_normalizer_ueg, dict(cls=cls, inh_ueg=0)))
        out.append(Task("normalizer_ueg/%s/mgga_modes" % cls, h_normalizer_ueg, dict(cls=cls, inh_ueg=1)))
    for kind in ("vj", "vi", "sdmx", "nlof"):
        out.append(Task("normed_vector/%s" % kind, h_settings_normed, dict(kind=kind)))
    out.append(Task("vmap_heg", h_vmap_heg, {}))
    out.append(Task("sdmx_tables", h_sdmx_tables, {}))
    return out


def prepare(tier):
    m = sym_mods()
    m.td, m.fn, m.settings, m.plans


META = dict(
    explanation="symbolic execution of the settings/plan/normaliser code at a symbolic uniform density; z3 decides equality of "
                "the reported UEG vector with the computed features and with the documented closed-form integrals",
    functions=['ciderpress/dft/settings.py: SDMXSettings / SDMX1Settings / SDMXGSettings / SDMXG1Settings ueg_const, ueg_vector, get_reasonable_normalizer for every ordered selection of powers (sdmx_tables)', "ciderpress/dft/settings.py: SemilocalSettings.ueg_vector, get_cider_exponent(_gga), _get_ueg_expnt, NLDFSettingsVI/VJ/VK.ueg_vector, "
               "_ueg_rho_mult, FracLaplSettings.ueg_vector, SDMX*Settings.ueg_const/ueg_vector, FeatureSettings.ueg_vector/assign_reasonable_normalizer, get_s2, get_alpha",
               "ciderpress/dft/plans.py: _BaseSemilocalPlan.get_feat", "ciderpress/dft/feat_normalizer.py: *.get_ueg, fill_fwd, FeatNormalizerList.get_normalized_feature_vector/ueg_vector",
               "ciderpress/dft/transform_data.py: get_vmap_heg_value, VMap.fill_feat_"],
    bounds=dict(density="rho = 2u^6, u in [1/8, 8] symbolic", parameters="a0>0, grad_mul>=0, tau_mul>=0, erf_mul>0 symbolic",
                specs="all version-i l=0 specs, all j specs, k; GGA and MGGA; rho_mult one/expnt"),
    stubs=["load_library -> FakeLib (no C code is reached)"],
    assumptions=["Gaussian moment lemma int r^2m exp(-c r^2) d3r = pi^(3/2)(2m+1)!!/(2^m c^(m+3/2)) is trusted",
                 "SDMX constants are hard-coded numerical integrals: only table consistency (1e-11) and the density power are decided",
                 "se_erf_rinv: kernel exp(-a_i r^2) sqrt(pi) erf(b r) / (2 b r), b^2 = erf_mul * a_i; the lemma int_0^inf r exp(-c r^2) erf(b r) dr = b / (2 c sqrt(b^2 + c)) is trusted",
                 "settings objects are built with placeholder floats and the symbolic parameters installed afterwards (constructor validation wants python floats)"],
)
