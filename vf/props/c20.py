"""C20 - the FFT plan wrapper computes the discrete Fourier transform it advertises.

The real ciderpress/lib/fft_plan.py (FFTWrapper) is executed in the symbolic context; every libfft call runs clang's LLVM
IR of /repo's cider_fft.c in the interpreter, with FFTW replaced by its *documented contract* (vf.llsym.fftw_model: FFTW
manual 4.4 layout rules, unnormalised DFT, in-place semantics).  Inputs are symbolic; z3 decides that the array the
wrapper returns equals the mathematically defined DFT of the array it was given (so plan sizes, strides, distances,
the padded in-place real layout, and the copy loops are all covered), that forward then backward gives N times the
input, and every access of the FFTW model and of the copy loops stays inside the allocated arrays.  A wrongly shaped
input must raise ValueError.  Replay: cider_fft.c compiled against /verif/stubs/fftw_ref.c vs numpy.fft."""
import itertools
import os
from fractions import Fraction

import numpy as np

from ..run import Task
from . import common

PROP_ID = "C20"
NEEDS_FFT = True
sym_mods = common.sym_mods
real_mods = common.real_mods

CFILE = "ciderpress/lib/fft_wrapper/cider_fft.c"
CFUNCS = ["allocate_fftnd_plan", "malloc_fft_plan_in_array", "malloc_fft_plan_out_array", "initialize_fft_plan", "write_fft_input", "execute_fft_plan",
          "read_fft_output", "free_fft_plan", "free_fft_array", "get_fft_plan_in_array", "get_fft_plan_out_array", "get_fft_input_size", "get_fft_output_size"]
STATS = {}


def _real_fft_plan():
    from .. import replaylibs
    replaylibs.ensure(with_fft=True)
    import importlib
    return importlib.import_module("ciderpress.lib.fft_plan")


class _Real(object):
    @property
    def fft_plan(self):
        return _real_fft_plan()


def real_mods_for(task):
    return _Real()


def _mods(env):
    return env.m.fft_plan if env.sym else _real_fft_plan()


def _complex_input(env, name, shape):
    xr, xi = env.arr(name + "r", shape, lo="-2", hi="2"), env.arr(name + "i", shape, lo="-2", hi="2")
    if env.sym:
        from ..sym import cplx_sym, SArr
        ri = np.empty((2 * xr.size,), dtype=object).view(SArr)
        ri[0::2] = xr.reshape(-1)
        ri[1::2] = xi.reshape(-1)
        return cplx_sym(shape, ri), xr, xi
    return np.ascontiguousarray(xr + 1j * xi), xr, xi


def _parts(env, out):
    """(re, im) object/float arrays of the wrapper's output"""
    if env.sym:
        if hasattr(out, "ri") and out.ri is not None:
            return out.ri[0::2].reshape(out.shape), out.ri[1::2].reshape(out.shape)
        return out, None
    if np.iscomplexobj(out):
        return out.real, out.imag
    return out, None


def _oracle(env, xr, xi, dims, sign, bf):
    """mathematically defined unnormalised DFT over the transform axes"""
    if env.sym:
        from ..llsym import fftw_model
        from ..sym import S, szeros
        if xi is None:
            xi = szeros(xr.shape)
        return fftw_model.dft(xr, xi, list(dims), sign, bf)
    x = xr + (0 if xi is None else 1j * xi)
    axes = tuple(range(1, len(dims) + 1)) if bf else tuple(range(len(dims)))
    y = np.fft.fftn(x, axes=axes) if sign < 0 else np.fft.ifftn(x, axes=axes) * np.prod(dims)
    return y.real, y.imag


def h_fft(env, dims, nt, fwd, r2c, inplace, bf):
    fp = _mods(env)
    ok, w = env.attempt("plan_constructed", lambda: fp.FFTWrapper(tuple(dims), ntransform=nt, fwd=fwd, r2c=r2c, inplace=inplace, batch_first=bf))
    if not ok:
        return
    rshape = ((nt,) + tuple(dims)) if bf else (tuple(dims) + (nt,))
    kdims = tuple(dims[:-1]) + (dims[-1] // 2 + 1,)
    kshape = ((nt,) + kdims) if bf else (kdims + (nt,))
    env.check("advertised_input_shape", tuple(w.input_shape) == ((rshape if fwd else kshape) if r2c else rshape), "%s" % (w.input_shape,))
    env.check("advertised_output_shape", tuple(w.output_shape) == ((kshape if fwd else rshape) if r2c else rshape), "%s" % (w.output_shape,))
    half = tuple(slice(None) for _ in rshape)

    def take_half(a):
        idx = [slice(None)] * a.ndim
        ax = (a.ndim - 1) if bf else (a.ndim - 2)
        idx[ax] = slice(0, dims[-1] // 2 + 1)
        return a[tuple(idx)]
    if r2c and fwd:
        x = env.arr("x", rshape, lo="-2", hi="2")
        ok, out = env.attempt("call_returns", lambda: w.call(x.copy() if env.sym else np.ascontiguousarray(x)))
        if not ok:
            return
        orr, oi = _oracle(env, x, None, dims, -1, bf)
        wr, wi = take_half(orr), take_half(oi)
    elif r2c and not fwd:
        # a valid c2r input is the half spectrum of a real array y: the output must be N * y
        y = env.arr("y", rshape, lo="-2", hi="2")
        fr, fi = _oracle(env, y, None, dims, -1, bf)
        hr, hi_ = take_half(fr), take_half(fi)
        if env.sym:
            from ..sym import cplx_sym, SArr
            ri = np.empty((2 * hr.size,), dtype=object).view(SArr)
            ri[0::2] = hr.reshape(-1)
            ri[1::2] = hi_.reshape(-1)
            xin = cplx_sym(kshape, ri)
        else:
            xin = np.ascontiguousarray(hr + 1j * hi_)
        ok, out = env.attempt("call_returns", lambda: w.call(xin))
        if not ok:
            return
        N = int(np.prod(dims))
        wr, wi = y * N, None
    else:
        x, xr, xi = _complex_input(env, "x", rshape)
        ok, out = env.attempt("call_returns", lambda: w.call(x))
        if not ok:
            return
        wr, wi = _oracle(env, xr, xi, dims, -1 if fwd else +1, bf)
    gr, gi = _parts(env, out)
    if not env.sym and tuple(np.shape(gr)) == tuple(np.shape(wr)):
        # concrete replay: one aggregated comparison under the name of the obligation that fails symbolically when the
        # interpreter cannot even complete the call (e.g. the FFTW contract reads padding the copy loop never wrote)
        err = float(np.max(np.abs(np.asarray(gr, float) - np.asarray(wr, float))))
        if wi is not None:
            err = max(err, float(np.max(np.abs(np.asarray(gi, float) - np.asarray(wi, float)))))
        for o in env.obls:
            if o.name == "call_returns" and err > 1e-9:
                o.got = False
                o.meta["detail"] = "returned, but max |output - DFT(input)| = %.3e" % err
    env.check("returned_shape", tuple(np.shape(gr)) == tuple(np.shape(wr)), "%s vs %s" % (np.shape(gr), np.shape(wr)))
    if tuple(np.shape(gr)) != tuple(np.shape(wr)):
        return
    for idx in np.ndindex(*np.shape(wr)):
        tag = "_".join(map(str, idx))
        env.equal("re_%s" % tag, gr[idx], wr[idx])
        if wi is not None:
            env.equal("im_%s" % tag, gi[idx], wi[idx])
    # wrongly shaped inputs are rejected: one extra element, and shapes with the *right number of elements* but different axes
    # (axes permuted, batch axis dropped / moved to the other end, flattened)
    ishape = tuple(w.input_shape)
    cplx_in = not (r2c and fwd)
    bads = {"last_axis_plus_one": ishape[:-1] + (ishape[-1] + 1,)}
    if len(set(ishape)) > 1:
        bads["axes_reversed"] = tuple(reversed(ishape))
        bads["axes_rotated"] = ishape[1:] + ishape[:1]
    bads["flattened"] = (int(np.prod(ishape)),)
    core = ishape[1:] if bf else ishape[:-1]
    if nt == 1:
        bads["batch_axis_dropped_axes_reversed"] = tuple(reversed(core)) if len(set(core)) > 1 else core + (1, 1)
    for nm, shp in sorted(bads.items()):
        if tuple(shp) == ishape:
            continue
        if env.sym:
            from ..sym import cplx_sym
            badx = cplx_sym(tuple(shp)) if cplx_in else env.zeros(tuple(shp))
        else:
            badx = np.zeros(tuple(shp), dtype=np.complex128 if cplx_in else np.float64)
        env.attempt("wrong_shape_rejected/%s" % nm, lambda: w.call(badx), expect=ValueError)


def h_roundtrip(env, dims, nt, inplace, bf):
    """forward followed by backward returns N times the input (c2c)"""
    fp = _mods(env)
    f = fp.FFTWrapper(tuple(dims), ntransform=nt, fwd=True, r2c=False, inplace=inplace, batch_first=bf)
    b = fp.FFTWrapper(tuple(dims), ntransform=nt, fwd=False, r2c=False, inplace=inplace, batch_first=bf)
    shape = ((nt,) + tuple(dims)) if bf else (tuple(dims) + (nt,))
    x, xr, xi = _complex_input(env, "x", shape)
    y = f.call(x)
    z = b.call(y)
    zr, zi = _parts(env, z)
    N = int(np.prod(dims))
    for idx in np.ndindex(*shape):
        env.equal("re_%s" % "_".join(map(str, idx)), zr[idx], xr[idx] * N)
        env.equal("im_%s" % "_".join(map(str, idx)), zi[idx], xi[idx] * N)


def z3_int_truncation(cfg):
    """(int)plan->idist / (int)fft_in_size do not truncate whenever the element count is below 2^31; first truncating size reported"""
    import z3
    n = z3.BitVec("n", 64)
    s = z3.Solver()
    s.set("timeout", 20000)
    # idist as passed to FFTW is (int)(size_t): sign-extended low 32 bits must equal the value
    trunc = z3.SignExt(32, z3.Extract(31, 0, n))
    s.add(z3.ULT(n, z3.BitVecVal(2 ** 31, 64)), trunc != n)
    v1 = str(s.check())
    s2 = z3.Solver()
    s2.add(n == z3.BitVecVal(2 ** 31, 64), z3.SignExt(32, z3.Extract(31, 0, n)) != n)
    v2 = str(s2.check())
    recs = [dict(kind="bv", name="int_cast/no_truncation_below_2^31", path="", verdict=v1, t=0.0, size=1, trivial=False, phase="QF_BV"),
            dict(kind="reach", name="int_cast/reach", path="", verdict="sat" if v2 == "sat" else "unknown", t=0.0)]
    return dict(records=recs, paths=0, solver_time=0.0, notes=["first truncating element count: 2^31 (batch_first idist = fft_in_size elements)"])


def _cfgs(tier):
    out = []
    dimsets = [(1,), (2,), (3,), (4,), (6,), (2, 3), (3, 2), (4, 3), (3, 4), (2, 2, 3), (3, 2, 2), (2, 3, 4)] if tier == "thorough" else [(3,), (4,), (2, 3)]
    for dims in dimsets:
        for nt in (((1, 2, 3) if tier == "thorough" else (1, 2)) if len(dims) < 3 else (2,)):
            for fwd, r2c, inplace, bf in itertools.product((True, False), repeat=4):
                if tier == "quick" and len(dims) == 2 and not (r2c and inplace):
                    continue
                if tier == "quick" and dims == (4,) and nt == 1:
                    continue
                out.append((dims, nt, fwd, r2c, inplace, bf))
    # axes of length 1 (slab / wire grids): a DFT no-op along that axis, but for r2c the *last* axis is the halved one whatever its
    # length, so a plan must not renumber its axes
    unit = [(3, 1), (1, 3), (2, 1, 3), (2, 3, 1)] if tier == "thorough" else [(3, 1), (2, 3, 1)]
    for dims in unit:
        for fwd, inplace, bf in ([(True, False, True), (False, True, False)] if tier == "quick" else itertools.product((True, False), repeat=3)):
            for r2c in ((True,) if tier == "quick" else (True, False)):
                out.append((dims, 2, fwd, r2c, inplace, bf))
    return out


def tasks(tier):
    out = []
    for dims, nt, fwd, r2c, inplace, bf in _cfgs(tier):
        name = "fft/%s/nt%d/%s/%s/%s/%s" % ("x".join(map(str, dims)), nt, "fwd" if fwd else "bwd", "r2c" if r2c else "c2c", "inplace" if inplace else "outofplace", "batchfirst" if bf else "batchlast")
        out.append(Task(name, h_fft, dict(dims=dims, nt=nt, fwd=fwd, r2c=r2c, inplace=inplace, bf=bf), mods="fft"))
    for dims, nt, inplace, bf in [((3,), 2, True, False), ((2, 2), 1, False, True)]:
        out.append(Task("roundtrip/%s/nt%d/%s/%s" % ("x".join(map(str, dims)), nt, "inplace" if inplace else "outofplace", "batchfirst" if bf else "batchlast"), h_roundtrip,
                        dict(dims=dims, nt=nt, inplace=inplace, bf=bf), mods="fft"))
    # size thresholds: a copy routine may treat large buffers differently (blocked copies, thresholds for threading).  The batch
    # count is chosen just above the largest integer literal in cider_fft.c (static scan, >= 64); length-1 transforms keep the DFT
    # itself trivial, so the task is about the copies in and out of the plan buffers
    big = _largest_size_literal()
    for nt in sorted({big + 1, 2 * big + 3} if big else ()):
        if nt <= 20000:
            for fwd, bf in ((True, True), (False, False)):
                out.append(Task("fft/above_size_literal_%d/1/nt%d/%s/c2c/outofplace/%s" % (big, nt, "fwd" if fwd else "bwd", "batchfirst" if bf else "batchlast"), h_fft,
                                dict(dims=(1,), nt=nt, fwd=fwd, r2c=False, inplace=False, bf=bf), mods="fft", timeout_ms=120000))
    out.append(Task("int_cast", z3_int_truncation, {}, engine="custom"))
    return out


def _largest_size_literal():
    import re
    src = open(os.path.join(common.REPO if hasattr(common, "REPO") else "/repo", "ciderpress/lib/fft_wrapper/cider_fft.c")).read()
    src = re.sub(r"/\*.*?\*/", " ", src, flags=re.S)
    src = re.sub(r"//[^\n]*", " ", src)
    vals = [int(m) for m in re.findall(r"(?<![\w.])(\d{2,9})(?![\w.])", src)]
    vals = [v for v in vals if v >= 64]
    return max(vals) if vals else 0


def prepare(tier):
    from ..llsym import bridge, fftw_model
    c = common.ctx()
    bridge.install(c, "libfft_wrapper", CFILE, CFUNCS, hybrid=True, stats=STATS, setup=fftw_model.install)
    bridge.module(CFILE)    # compile cider_fft.c to IR from the current tree before forking (workers inherit it; evidence records its hash)
    m = sym_mods("fft")
    m.fft_plan = c.imp("ciderpress.lib.fft_plan")


def replay(task, rec):
    if task.engine == "custom":
        return dict(confirmed=False, detail="bit-vector fact")
    from .. import harness
    name = rec["name"]
    obl = name[len(task.name) + 1:]
    return harness.replay_obligation(task.fn, _Real(), task.cfg, rec["model_float"], obl)


def extra_evidence(results):
    from ..llsym import ir
    return dict(ir_sources_sha256={k.replace("/repo/", ""): v for k, v in ir.EMITTED.items()}, c_functions_interpreted=CFUNCS)


META = dict(
    explanation="FFTWrapper executed symbolically; libfft calls run clang's IR of cider_fft.c with FFTW replaced by its documented contract "
                "(layout rules + unnormalised DFT with exact twiddle factors); z3 decides output == DFT(input) element by element",
    functions=["ciderpress/lib/fft_plan.py: FFTWrapper.__init__/call", "ciderpress/lib/fft_wrapper/cider_fft.c (clang -O1 IR, FFTW backend): allocate_fftnd_plan, "
               "initialize_fft_plan, initialize_fftw_settings, malloc_fft_plan_in/out_array, write_fft_input, execute_fft_plan, read_fft_output, free_*"],
    bounds=dict(dims="(3), (4), (2,3) quick; (1), (2), (3), (4), (6), (2,3), (3,2), (4,3), (3,4), (2,2,3), (3,2,2), (2,3,4) thorough (even and odd last dimension; "
                "sizes whose twiddle factors are exact radicals: divisors of 12)", ntransform="1, 2 quick; 1, 2, 3 thorough", flags="all 16 combinations of fwd/r2c/inplace/batch_first",
                data="symbolic", int_cast="no truncation below 2^31 elements (QF_BV)"),
    stubs=["FFTW: contract model (FFTW manual 4.4): advanced-interface layout, in-place r2c padding 2(n/2+1), reads all batches before writing, unnormalised DFT",
           "fftw_malloc: exact-size heap object (every access bounds-checked)"],
    assumptions=["MKL backend not built, not claimed", "sizes are concrete per task (enumerated), data symbolic", "FFTW itself honours its manual"],
)
