"""C05, SDMX link: the forward/backward pairs of ciderpress/lib/mod_cider/fast_sdmx.c that the SDMX generator (ciderpress/pyscf/sdmx.py)
drives with deriv = 1, and the position-weighted pair, interpreted from clang's IR with symbolic arrays:

    SDMXcontract_ao_to_bas_l1 / _l1_bwd     AO values -> per-radial-function projections on Y_lm, their three gradient channels and the
                                            three (r - R_atom)-weighted copies (7 blocks), and the potential back to the AO values
    SDMXcontract_ao_to_bas_grid / _grid_bwd the (x - X_atom)-weighted projection (each function called with its *own* argument order:
                                            the two signatures differ, see DESIGN.md II.6 notes)
    contract_shl_to_alpha_l1 / _bwd         shell -> interpolation-point contraction of the 7 blocks into the 4 output channels

All floating-point inputs (AO values, Y_lm tables, grid and atom coordinates, contraction coefficients) are symbolic reals; the
shell layout is a PySCF molecule with generally contracted s and p shells and a d shell.  Obligations: the documented value of every
forward output cell, <A x, y> = <x, B y>, outputs are overwritten (not accumulated) where the code says so, inputs unchanged."""
from fractions import Fraction

import numpy as np

from ..llsym.ccall import ccall

SDMX_C = "ciderpress/lib/mod_cider/fast_sdmx.c"


def _layout():
    from . import c02
    mol = c02._sdmx_mol()
    bas, atm, envv = mol._bas.astype(np.int32), mol._atm.astype(np.int32), mol._env.astype(np.float64)
    ao_loc = mol.ao_loc_nr().astype(np.int32)
    nctr = bas[:, 3]
    rf_loc = np.append([0], np.cumsum(nctr)).astype(np.int32)
    yl = np.zeros(mol.natm + 1, dtype=np.int32)
    for ia in range(mol.natm):
        lm = int(np.max(bas[bas[:, 0] == ia, 1])) + 1
        yl[ia + 1] = yl[ia] + lm * lm
    return mol, bas, atm, envv, ao_loc, nctr, rf_loc, yl


def _dot(env, a, b):
    fa = np.asarray(a, dtype=object if env.sym else float).ravel()
    fb = np.asarray(b, dtype=object if env.sym else float).ravel()
    return sum((x * y for x, y in zip(fa, fb)), env.const(0))


def h_l1(env, ng=2):
    mol, bas, atm, envv, ao_loc, nctr, rf_loc, yl = _layout()
    nbas, natm, nrf, nao, ny = mol.nbas, mol.natm, int(rf_loc[-1]), int(ao_loc[-1]), int(yl[-1])
    ylm = env.arr("ylm", (4, ny, ng), lo="-2", hi="2")
    ao = env.arr("ao", (nao, ng), lo="-2", hi="2")
    gx = env.arr("grid", (3, ng), lo="-4", hi="4")
    ax = env.arr("atom", (3, natm), lo="-4", hi="4")
    out = env.arr("vb0", (7, nrf, ng), lo="-2", hi="2")       # pre-filled: the routine overwrites
    tail = lambda: [np.array([0, nbas], dtype=np.int32), ao_loc, yl, atm.reshape(-1).copy(), natm, bas.reshape(-1).copy(), nbas, envv.copy()]
    ao_in, ylm_in = ao.copy(), ylm.copy()
    ccall(env, SDMX_C, "SDMXcontract_ao_to_bas_l1", [ng, out, ylm_in, ao_in] + tail() + [gx.copy(), ax.copy(), nrf, rf_loc])
    for sh in range(nbas):
        ia, l = int(bas[sh, 0]), int(bas[sh, 1])
        for ic in range(int(nctr[sh])):
            irf = int(rf_loc[sh]) + ic
            for g in range(ng):
                proj = [sum((ylm[v, int(yl[ia]) + l * l + m, g] * ao[int(ao_loc[sh]) + ic * (2 * l + 1) + m, g] for m in range(2 * l + 1)), env.const(0)) for v in range(4)]
                for v in range(4):
                    env.equal("block%d_shell%d_contraction%d_g%d" % (v, sh, ic, g), out[v, irf, g], proj[v])
                for v in range(3):
                    env.equal("block%d_shell%d_contraction%d_g%d_is_r_minus_R_times_block0" % (4 + v, sh, ic, g), out[4 + v, irf, g], proj[0] * (gx[v, g] - ax[v, ia]))
    for k, (a, b) in enumerate(zip(np.asarray(ao_in, dtype=object if env.sym else float).ravel(), np.asarray(ao, dtype=object if env.sym else float).ravel())):
        env.equal("forward_keeps_ao_%d" % k, a, b)
    v = env.arr("v", (7, nrf, ng), lo="-2", hi="2")
    aob = env.arr("aob0", (nao, ng), lo="-2", hi="2")          # pre-filled: the backward routine overwrites the AO potential
    v_in = v.copy()
    ccall(env, SDMX_C, "SDMXcontract_ao_to_bas_l1_bwd", [ng, v_in, ylm.copy(), aob] + tail() + [gx.copy(), ax.copy(), nrf, rf_loc])
    env.equal("<Ax,y>=<x,By>", _dot(env, out, v), _dot(env, ao, aob))
    for k, (a, b) in enumerate(zip(np.asarray(v_in, dtype=object if env.sym else float).ravel(), np.asarray(v, dtype=object if env.sym else float).ravel())):
        env.equal("backward_keeps_its_input_%d" % k, a, b)


def h_grid(env, ng=2):
    mol, bas, atm, envv, ao_loc, nctr, rf_loc, yl = _layout()
    nbas, natm, nrf, nao, ny = mol.nbas, mol.natm, int(rf_loc[-1]), int(ao_loc[-1]), int(yl[-1])
    ylm = env.arr("ylm", (ny, ng), lo="-2", hi="2")
    ao = env.arr("ao", (nao, ng), lo="-2", hi="2")
    gx = env.arr("gridx", (ng,), lo="-4", hi="4")
    ax = env.arr("atomx", (natm,), lo="-4", hi="4")
    out = env.arr("vb0", (nrf, ng), lo="-2", hi="2")
    tail = lambda: [np.array([0, nbas], dtype=np.int32), ao_loc, yl, atm.reshape(-1).copy(), natm, bas.reshape(-1).copy(), nbas, envv.copy()]
    ccall(env, SDMX_C, "SDMXcontract_ao_to_bas_grid", [ng, out, ylm.copy(), ao.copy()] + tail() + [nrf, rf_loc, gx.copy(), ax.copy()])
    for sh in range(nbas):
        ia, l = int(bas[sh, 0]), int(bas[sh, 1])
        for ic in range(int(nctr[sh])):
            irf = int(rf_loc[sh]) + ic
            for g in range(ng):
                want = sum((ylm[int(yl[ia]) + l * l + m, g] * ao[int(ao_loc[sh]) + ic * (2 * l + 1) + m, g] for m in range(2 * l + 1)), env.const(0)) * (gx[g] - ax[ia])
                env.equal("shell%d_contraction%d_g%d" % (sh, ic, g), out[irf, g], want)
    v = env.arr("v", (nrf, ng), lo="-2", hi="2")
    aob = env.zeros((nao, ng))                                  # the backward routine adds to the AO potential
    ccall(env, SDMX_C, "SDMXcontract_ao_to_bas_grid_bwd", [ng, v.copy(), ylm.copy(), aob] + tail() + [gx.copy(), ax.copy(), nrf, rf_loc])
    env.equal("<Ax,y>=<x,By>", _dot(env, out, v), _dot(env, ao, aob))


def h_shl_alpha(env, ng=2, nalpha=2, nsh=3):
    b = env.arr("b", (7, nsh, ng), lo="-2", hi="2")
    csh = env.arr("c", (2, nalpha, nsh, ng), lo="-2", hi="2")
    p = env.arr("p0", (4, nalpha, ng), lo="-2", hi="2")         # pre-filled: overwritten
    b_in = b.copy()
    ccall(env, SDMX_C, "contract_shl_to_alpha_l1", [ng, nalpha, nsh, p, b_in, csh.copy()])
    for a in range(nalpha):
        for g in range(ng):
            env.equal("p0_a%d_g%d" % (a, g), p[0, a, g], sum((b[0, s, g] * csh[0, a, s, g] for s in range(nsh)), env.const(0)))
            for v in range(3):
                env.equal("p%d_a%d_g%d" % (v + 1, a, g), p[v + 1, a, g], sum((b[v + 1, s, g] * csh[0, a, s, g] + b[v + 4, s, g] * csh[1, a, s, g] for s in range(nsh)), env.const(0)))
    for k, (x, y) in enumerate(zip(np.asarray(b_in, dtype=object if env.sym else float).ravel(), np.asarray(b, dtype=object if env.sym else float).ravel())):
        env.equal("forward_keeps_b_%d" % k, x, y)
    vp = env.arr("vp", (4, nalpha, ng), lo="-2", hi="2")
    vb = env.arr("vb0", (7, nsh, ng), lo="-2", hi="2")          # pre-filled: overwritten
    ccall(env, SDMX_C, "contract_shl_to_alpha_l1_bwd", [ng, nalpha, nsh, vp.copy(), vb, csh.copy()])
    env.equal("<Ax,y>=<x,By>", _dot(env, p, vp), _dot(env, b, vb))


def h_plain(env, ng=2):
    """SDMXcontract_ao_to_bas / _bwd (the deriv = 0 pair; the backward routine *adds* to the AO potential)"""
    mol, bas, atm, envv, ao_loc, nctr, rf_loc, yl = _layout()
    nbas, natm, nrf, nao, ny = mol.nbas, mol.natm, int(rf_loc[-1]), int(ao_loc[-1]), int(yl[-1])
    ylm = env.arr("ylm", (ny, ng), lo="-2", hi="2")
    ao = env.arr("ao", (nao, ng), lo="-2", hi="2")
    out = env.arr("vb0", (nrf, ng), lo="-2", hi="2")
    tail = lambda: [np.array([0, nbas], dtype=np.int32), ao_loc, yl, atm.reshape(-1).copy(), natm, bas.reshape(-1).copy(), nbas, envv.copy(), nrf, rf_loc]
    ccall(env, SDMX_C, "SDMXcontract_ao_to_bas", [ng, out, ylm.copy(), ao.copy()] + tail())
    v = env.arr("v", (nrf, ng), lo="-2", hi="2")
    aob = env.zeros((nao, ng))
    ccall(env, SDMX_C, "SDMXcontract_ao_to_bas_bwd", [ng, v.copy(), ylm.copy(), aob] + tail())
    env.equal("<Ax,y>=<x,By>", _dot(env, out, v), _dot(env, ao, aob))
    # entry by entry: the potential of AO (shell, contraction, m) is Y_lm times the potential of that contraction's radial function
    for sh in range(nbas):
        ia, l = int(bas[sh, 0]), int(bas[sh, 1])
        for ic in range(int(nctr[sh])):
            for m in range(2 * l + 1):
                for g in range(ng):
                    env.equal("ao_potential_shell%d_contraction%d_m%d_g%d" % (sh, ic, m, g), aob[int(ao_loc[sh]) + ic * (2 * l + 1) + m, g],
                              ylm[int(yl[ia]) + l * l + m, g] * v[int(rf_loc[sh]) + ic, g])


# ---------------------------------------------------------------------------------------------------------------------------------
_YLM_TU = {}


def _ylm_unit():
    """SDMXylm_loop calls the spherical-harmonic recursion of sph_harm.c: one translation unit that includes both sources (the
    current files of /repo, by absolute path), written to a scratch directory that is removed at exit"""
    import atexit
    import os
    import shutil
    import tempfile
    if "path" not in _YLM_TU:
        repo = os.environ.get("VERIF_REPO", "/repo")
        d = tempfile.mkdtemp(prefix="verif_tu_")
        atexit.register(shutil.rmtree, d, True)
        p = os.path.join(d, "sdmx_ylm_unit.c")
        with open(p, "w") as f:
            f.write('#include "%s/ciderpress/lib/mod_cider/sph_harm.c"\n#include "%s/ciderpress/lib/mod_cider/fast_sdmx.c"\n' % (repo, repo))
        _YLM_TU["path"] = p
    return _YLM_TU["path"]


def h_ylm_loop(env, ng=57):
    """SDMXylm_loop on 2 atoms x 57 grid points (two blocks of BLKSIZE = 56 per atom, so that two iterations of the work-shared loop
    use the same atom's recursion buffer): concrete coordinates; the subject is the memory footprint of the iterations (C10 part B),
    plus the facts that every entry of the table is written and that the l = 0 entry is the constant Y_00"""
    from ..llsym import bridge
    from ..llsym.interp import Obj, Ptr
    natm = 2
    yl = np.array([0, 4, 5], dtype=np.int32)         # atom 0: l <= 1, atom 1: l = 0 only (the branch that needs no recursion buffer)
    rng = np.random.default_rng(3)
    coords = np.ascontiguousarray((rng.integers(-8, 9, size=(3, ng)) / 4.0))
    atoms = np.ascontiguousarray(np.array([[0.125, 0.0, -0.375], [0.0, 1.125, 0.625]]))
    if env.sym:
        out = env.zeros((5, ng))
        ccall(env, _ylm_unit(), "SDMXylm_loop", [ng, out, coords, yl, atoms.reshape(-1).copy(), natm])
        written = all(not (getattr(v, "e", None) is None) for v in np.asarray(out, dtype=object).ravel())
    else:
        out = np.full((5, ng), np.nan)
        ccall(env, SDMX_C, "SDMXylm_loop", [ng, out, coords, yl, atoms.reshape(-1).copy(), natm])
        written = bool(np.all(np.isfinite(out)))
    env.check("every_table_entry_written", written)
    for g in (55, 56):
        env.equal("atom1_l0_entry_is_the_same_constant_in_both_blocks_g%d" % g, out[4, g] + env.const(0), out[4, 0] + env.const(0))
