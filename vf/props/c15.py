"""C15 - covariance kernels are valid and their gradients match their values.

scikit-learn's own kernels.py is loaded through the same symbolic transformer as the repository's
kernels.py (only scipy's cdist/pdist/squareform are replaced by their textbook definitions), so the
inherited __call__/eval_gradient code is executed, not modelled.  For every kernel configuration with
symbolic inputs X (2 x d), Y (2 x d) and symbolic hyper-parameters z3 decides
  k(X,Y) = k(Y,X)^T, diag(X) = diag k(X,X), k_and_deriv = (k, dk/dX), eval_gradient = dk/dtheta (theta = log h),
  composition algebra, spin-block symmetry, and 2x2 positive semidefiniteness (under the exp axioms)."""
from fractions import Fraction

import numpy as np

from ..run import Task
from . import common

PROP_ID = "C15"
sym_mods = common.sym_mods
real_mods = common.real_mods
replay = common.generic_replay

D = 4


def _ls(env, n, tag="l"):
    return env.arr(tag, (n,), "pos", lo="1/8", hi="8")


def build(env, name):
    """kernel factory: returns (kernel, number of input features)"""
    K = env.m.kernels
    if name == "RBF":
        return K.DiffRBF(length_scale=_ls(env, D)), D
    if name == "RBF_iso":
        return K.DiffRBF(length_scale=env.par("l", "pos", lo="1/8", hi="8")), D
    if name == "RBF_fixed":
        return K.DiffRBF(length_scale=_ls(env, D), length_scale_bounds="fixed"), D
    if name == "Linear":
        return K.DiffLinearKernel(), 3
    if name.startswith("Poly"):
        # Poly<order><f|n><a|i><x?>
        order = int(name[4])
        fact = name[5] == "f"
        g = env.arr("g", (3,), "pos", hi="8") if name[6] == "a" else env.par("g", "pos", hi="8")
        kw = {"gamma_bounds": "fixed"} if name.endswith("x") else {}
        return K.DiffPolyKernel(gamma=g, order=order, factorial=fact, **kw), 3
    if name.endswith("_iso"):
        # isotropic (scalar) length scale: the theta gradient must sum the contributions of all feature columns
        base = name[:-4]
        ell = env.par("l", "pos", lo="1/8", hi="8")
        if base == "ARBF2":
            return K.DiffARBF(order=2, length_scale=ell, scale=env.arr("s", (3,), "pos", hi="8")), 3
        if base == "ARBFV2_2":
            return K.DiffARBFV2(order=2, length_scale=ell, scale=env.arr("s", (3,), "pos", hi="8")), 3
        if base == "AddRQ_2":
            return K.DiffAddRQ(order=2, alpha=env.const(Fraction(3, 2)), length_scale=ell, scale=env.arr("s", (3,), "pos", hi="8")), 3
        if base == "AddLLRBF_2":
            return K.DiffAddLLRBF(order=2, alpha=env.par("alpha", "pos", lo="1/2", hi="8"), length_scale=ell, scale=env.arr("s", (3,), "pos", hi="8")), 3
        if base == "SubsetARBF":
            return K.SubsetARBF([3, 1], order=2, length_scale=ell, scale=env.arr("s", (3,), "pos", hi="8")), D
        if base == "Poly2f":
            return K.DiffPolyKernel(gamma=env.par("g", "pos", hi="8"), order=2, factorial=True), 3
    if name.startswith("ARBFV2_"):
        order = int(name[7])
        return K.DiffARBFV2(order=order, length_scale=_ls(env, 3), scale=env.arr("s", (order + 1,), "pos", hi="8")), 3
    if name in ("ARBF4w", "ARBFV2_4w", "AddRQ_4w"):
        # order 4 over 4 features: the first order at which the gradient recursions of the additive kernels need their fourth step
        cls = {"ARBF4w": K.DiffARBF, "ARBFV2_4w": K.DiffARBFV2, "AddRQ_4w": K.DiffAddRQ}[name]
        kw = dict(alpha=env.const(Fraction(3, 2))) if name == "AddRQ_4w" else {}
        return cls(order=4, length_scale=_ls(env, 4), scale=env.arr("s", (5,), "pos", hi="8"), **kw), 4
    if name.startswith("ARBF"):
        order = int(name[4])
        kw = {}
        if "L" in name[5:]:
            kw["length_scale_bounds"] = "fixed"
        if "S" in name[5:]:
            kw["scale_bounds"] = "fixed"
        return K.DiffARBF(order=order, length_scale=_ls(env, 3), scale=env.arr("s", (order + 1,), "pos", hi="8"), **kw), 3
    if name.startswith("AddLLRBF_"):
        order = int(name[9])
        return K.DiffAddLLRBF(order=order, alpha=env.par("alpha", "pos", lo="1/2", hi="8"), length_scale=_ls(env, 3), scale=env.arr("s", (order + 1,), "pos", hi="8")), 3
    if name.startswith("AddRQ_"):
        order = int(name[6])
        return K.DiffAddRQ(order=order, alpha=env.const(Fraction(3, 2)), length_scale=_ls(env, 3), scale=env.arr("s", (order + 1,), "pos", hi="8")), 3
    if name == "SubsetRBF":
        return K.SubsetRBF([3, 1], length_scale=_ls(env, 2)), D
    if name == "SubsetRBF_slice":
        return K.SubsetRBF(slice(1, 3), length_scale=_ls(env, 2)), D
    if name == "SubsetARBF":
        return K.SubsetARBF([3, 1], order=2, length_scale=_ls(env, 2), scale=env.arr("s", (3,), "pos", hi="8")), D
    if name == "SubsetAddRQ":
        return K.SubsetAddRQ([3, 1], order=2, alpha=env.const(Fraction(3, 2)), length_scale=_ls(env, 2), scale=env.arr("s", (3,), "pos", hi="8")), D
    if name == "SubsetAddLLRBF":
        return K.SubsetAddLLRBF([1, 0], order=1, alpha=env.const(Fraction(3, 2)), length_scale=_ls(env, 2), scale=env.arr("s", (2,), "pos", hi="8")), D
    if name == "SubsetAddLLRBF_slice":
        return K.SubsetAddLLRBF(slice(0, 4, 2), order=1, alpha=env.const(Fraction(3, 2)), length_scale=_ls(env, 2), scale=env.arr("s", (2,), "pos", hi="8")), D
    if name == "SubsetPoly":
        return K.SubsetPoly([3, 1], order=2, gamma=env.arr("g", (2,), "pos", hi="8"), factorial=False), D
    if name == "SpinSymRBF":
        return K.SpinSymRBF(slice(0, 2), slice(2, 4), length_scale=_ls(env, 2)), D
    if name == "SpinSymARBF":
        return K.SpinSymARBF(slice(0, 2), slice(2, 4), order=2, length_scale=_ls(env, 2), scale=env.arr("s", (3,), "pos", hi="8")), D
    if name == "SpinSymPoly":
        return K.SpinSymPoly(slice(0, 2), slice(2, 4), order=2, gamma=env.arr("g", (2,), "pos", hi="8"), factorial=False), D
    if name == "PartialRBF":
        return K.PartialRBF(length_scale=_ls(env, 2), start=2), D
    if name == "PartialRBF_dims":
        return K.PartialRBF(length_scale=_ls(env, 2), active_dims=[0, 3]), D
    if name == "Antisym":
        return K.DiffAntisymRBF(length_scale=_ls(env, 3)), D
    if name == "Const*RBF":
        return K.DiffConstantKernel(env.par("c", "pos", hi="8")) * K.DiffRBF(length_scale=_ls(env, D)), D
    if name == "RBF+RBF":
        return K.DiffRBF(length_scale=_ls(env, D)) + K.DiffRBF(length_scale=_ls(env, D, "m")), D
    if name == "RBF*Poly":
        return K.DiffRBF(length_scale=_ls(env, 3)) * K.DiffPolyKernel(gamma=env.par("g", "pos", hi="8"), order=2), 3
    if name == "Linear**2":
        return K.DiffLinearKernel() ** 2, 3
    if name == "Linear**3":
        return K.DiffLinearKernel() ** 3, 3
    if name == "RBF**2":
        return K.DiffRBF(length_scale=_ls(env, 3)) ** 2, 3
    if name == "(RBF+c)**3":
        return (K.DiffRBF(length_scale=_ls(env, 3)) + env.par("c", "pos", hi="8")) ** 3, 3
    if name == "White+RBF":
        return K.DiffWhiteKernel(noise_level=env.par("w", "pos", hi="8")) + K.DiffRBF(length_scale=_ls(env, 3)), 3
    if name in ("Transform_std", "Transform_avg", "Transform_mat"):
        # the optional pieces of the linear transform one at a time (each takes a different branch of DiffTransform._transform)
        kw = {"Transform_std": dict(std=env.arr("std", (3,), "pos", lo="1/4", hi="4")), "Transform_avg": dict(avg=env.arr("avg", (3,), lo="-2", hi="2")), "Transform_mat": {}}[name]
        mat = env.arr("M", (3, 3), lo="-2", hi="2")
        return K.DiffTransform(K.DiffRBF(length_scale=_ls(env, 3)), mat, **kw), 3
    if name == "Transform":
        mat = env.arr("M", (3, 3), lo="-2", hi="2")
        return K.DiffTransform(K.DiffRBF(length_scale=_ls(env, 3)), mat, avg=env.arr("avg", (3,), lo="-2", hi="2"), std=env.arr("std", (3,), "pos", lo="1/4", hi="4")), 3
    raise ValueError(name)


KERNELS_QUICK = ["ARBF4w", "RBF", "RBF_iso", "RBF_fixed", "Linear", "Poly2fa", "Poly3ni", "Poly2fax", "ARBF2", "ARBF2L", "ARBF2S", "ARBFV2_2", "AddLLRBF_2", "AddRQ_2",
                 "SubsetRBF", "SubsetRBF_slice", "SubsetARBF", "SubsetAddRQ", "SubsetAddLLRBF", "SubsetAddLLRBF_slice", "SubsetPoly", "SpinSymRBF", "SpinSymPoly", "PartialRBF", "PartialRBF_dims", "Antisym",
                 "Const*RBF", "RBF+RBF", "RBF*Poly", "RBF**2", "Linear**2", "White+RBF", "Transform", "Transform_std", "Transform_avg", "Transform_mat",
                 "ARBF2_iso", "ARBFV2_2_iso", "AddRQ_2_iso", "AddLLRBF_2_iso", "SubsetARBF_iso", "Poly2f_iso"]
KERNELS_THOROUGH = KERNELS_QUICK + ["Poly3fa", "Poly2ni", "Poly3na", "ARBF1", "ARBF3", "ARBFV2_1", "AddLLRBF_1", "AddRQ_1", "SpinSymARBF", "(RBF+c)**3", "Linear**3", "ARBFV2_4w", "AddRQ_4w"]


def _theta(k):
    try:
        return k.theta
    except RuntimeError:
        # kernels without an __init__ (DiffLinearKernel) cannot enumerate parameters through scikit-learn's
        # get_params; they have no hyper-parameters, so theta is empty
        return []


def _theta_vars(env, k):
    """for each entry of kernel.theta (= log of a non-fixed hyper-parameter) the hyper-parameter itself"""
    th = _theta(k)
    if env.sym:
        from ..sym import S, lift
        from .. import dag
        return [S(dag.fn("exp", lift(t))) for t in th]
    return [float(np.exp(t)) for t in th]


def h_kernel(env, name, what):
    k, d = build(env, name)
    X = env.arr("X", (2, d), lo="-4", hi="4")
    Y = env.arr("Y", (2, d), lo="-4", hi="4")
    if what == "symmetry":
        Xin, Yin = X.copy(), Y.copy()
        ok, kxy = env.attempt("call_returns", lambda: k(Xin, Yin))
        if not ok:
            return
        Xd = X.copy()
        k.diag(Xd)
        for i in range(2):
            for f in range(d):
                # the caller's sample arrays are inputs: a second evaluation with the same arrays must see the same samples
                env.equal("call_leaves_X_untouched_%d%d" % (i, f), Xin[i, f], X[i, f])
                env.equal("call_leaves_Y_untouched_%d%d" % (i, f), Yin[i, f], Y[i, f])
                env.equal("diag_leaves_X_untouched_%d%d" % (i, f), Xd[i, f], X[i, f])
        kyx = k(Y.copy(), X.copy())
        kxx = k(X.copy())
        kxx2 = k(X.copy(), X.copy())
        dg = k.diag(X.copy())
        for i in range(2):
            env.equal("diag_%d" % i, dg[i], kxx[i, i])
            for j in range(2):
                env.equal("k(X,Y)=k(Y,X)^T_%d%d" % (i, j), kxy[i, j], kyx[j, i])
                if "White" not in name:   # a noise kernel is by definition k(X) != k(X, X) on the diagonal
                    env.equal("k(X)=k(X,X)_%d%d" % (i, j), kxx[i, j], kxx2[i, j])
        env.equal("k(X,X)_symmetric", kxx[0, 1], kxx[1, 0])
    elif what == "symmetry_blocked":
        _h_blocked(env, k, d, name)
    elif what == "input_gradient":
        Xin, Yin = X.copy(), Y.copy()
        ok, out = env.attempt("k_and_deriv_returns", lambda: k.k_and_deriv(Xin, Yin))
        if not ok:
            return
        for i in range(2):
            for f in range(d):
                env.equal("k_and_deriv_leaves_X_untouched_%d%d" % (i, f), Xin[i, f], X[i, f])
                env.equal("k_and_deriv_leaves_Y_untouched_%d%d" % (i, f), Yin[i, f], Y[i, f])
        kk, dk = out
        kref = k(X.copy(), Y.copy())
        env.check("shapes", np.shape(kk) == (2, 2) and np.shape(dk) == (2, 2, d), "%s %s" % (np.shape(kk), np.shape(dk)))
        for i in range(2):
            for j in range(2):
                env.equal("value_%d%d" % (i, j), kk[i, j], kref[i, j])
                for f in range(d):
                    env.deriv("dk%d%d_dX%d%d" % (i, j, i, f), kk[i, j], ("X", (i, f)), dk[i, j, f])
        # the returned gradient is defined (no division by a quantity that can vanish, e.g. by the base kernel value) on the whole domain
        env.finite("gradient_defined_everywhere", [dk[i, j, f] for i in range(2) for j in range(2) for f in range(d)])
        # Y = None: the values are the covariance matrix k(X) itself (for a noise term that includes the diagonal, unlike k(X, X))
        ok, out0 = env.attempt("k_and_deriv_without_Y_returns", lambda: k.k_and_deriv(X.copy()))
        if ok:
            kx = k(X.copy())
            for i in range(2):
                for j in range(2):
                    env.equal("Ynone_value_is_k(X)_%d%d" % (i, j), out0[0][i, j] + env.const(0), kx[i, j] + env.const(0))
        # documented convention for Y=None: derivative w.r.t. the first argument only (Y held fixed at X)
        if "White" in name:
            return
        k0, dk0 = k.k_and_deriv(X.copy())
        k1, dk1 = k.k_and_deriv(X.copy(), X.copy())
        for i in range(2):
            for j in range(2):
                env.equal("Ynone_value_%d%d" % (i, j), k0[i, j], k1[i, j])
                for f in range(d):
                    env.equal("Ynone_deriv_%d%d_%d" % (i, j, f), dk0[i, j, f], dk1[i, j, f])
    elif what == "theta_gradient":
        ok, out = env.attempt("eval_gradient_returns", lambda: k(X.copy(), eval_gradient=True))
        if not ok:
            return
        kk, G = out
        hs = _theta_vars(env, k)
        env.check("gradient_size_is_number_of_free_hyperparameters", np.shape(G) == (2, 2, len(hs)), "%s vs %d" % (np.shape(G), len(hs)))
        if np.shape(G) != (2, 2, len(hs)):
            return
        names = _hyper_names(env, k)
        for p, h in enumerate(hs):
            for i in range(2):
                for j in range(2):
                    env.deriv("dk%d%d_dtheta%d" % (i, j, p), kk[i, j], names[p], G[i, j, p], seed=h)
    elif what == "psd2":
        kxx = k(X.copy())
        env.nonneg("k11_nonnegative", kxx[0, 0])
        env.nonneg("det_2x2_nonnegative", kxx[0, 0] * kxx[1, 1] - kxx[0, 1] * kxx[1, 0])


def _block_sources(env):
    import sklearn.gaussian_process.kernels as skk
    return [common.real_mods("kernels").kernels.__file__ if not env.sym else env.m.kernels.__file__, skk.__file__]


def _h_blocked(env, k, d, name, n=3):
    """diag(X) = diag k(X) = diag k(X, X) when the routines work through X in internal blocks.  Symbolic run: every chunk-size
    literal of the kernel modules (assignments to names containing blk/block/chunk/batch, routed through loader._BLK) resolves to
    2, so 3 samples span two blocks.  Concrete replay on the unmodified code: the 3 samples are tiled to (largest such literal) + 3
    rows so that they are the last three rows of the array, i.e. lie beyond the first real block."""
    from .. import loader
    X3 = env.arr("X", (n, d), lo="-4", hi="4")
    lits = set()
    for f in _block_sources(env):
        lits |= loader.block_literals(f)
    if env.sym:
        loader.BLOCK_OVERRIDE_ALL[0] = 2
        try:
            ok, dg = env.attempt("diag_returns", lambda: k.diag(X3.copy()))
            if not ok:
                return
            kxx = k(X3.copy())
            kxx2 = k(X3.copy(), X3.copy())
        finally:
            loader.BLOCK_OVERRIDE_ALL[0] = None
        off = 0
    else:
        N = (max(lits) + n) if lits else n
        reps = -(-N // n) + 1
        Xt = np.ascontiguousarray(np.tile(np.asarray(X3, dtype=float), (reps, 1))[-N:])
        off = N - n
        dg = k.diag(Xt.copy())
        kxx = k(Xt.copy())
        kxx2 = k(Xt.copy(), Xt.copy())
    env.tags.append("chunk-size literals in the kernel modules: %s" % (sorted(lits) or "none"))
    for i in range(n):
        env.equal("diag_%d" % i, dg[off + i], kxx[off + i, off + i])
        for j in range(n):
            if "White" not in name:
                env.equal("k(X)=k(X,X)_%d%d" % (i, j), kxx[off + i, off + j], kxx2[off + i, off + j])
            if j > i:
                env.equal("k(X)_symmetric_%d%d" % (i, j), kxx[off + i, off + j], kxx[off + j, off + i])


def _hyper_names(env, k):
    """(input name, index) of the harness variable behind each theta entry, by matching values"""
    out = []
    th = _theta(k)
    for t in th:
        found = None
        for nm, arr in env.inputs.items():
            if nm in ("X", "Y"):
                continue
            for idx in np.ndindex(*arr.shape) if arr.shape else [()]:
                v = arr[idx]
                if env.sym:
                    from ..sym import lift
                    from .. import dag
                    if dag.fn("log", lift(v)) is lift(t):
                        found = (nm, idx)
                else:
                    if float(v) > 0 and abs(np.log(float(v)) - float(t)) < 1e-14:
                        found = (nm, idx)
                if found:
                    break
            if found:
                break
        if found is None:
            raise RuntimeError("theta entry is not the log of a harness hyper-parameter")
        out.append(found)
    return out


def h_dft_kernel_cov(env, mode, kname="RBF"):
    """DFTKernel.get_kctrl (the GP's K_mm): symmetric, positive semidefinite (2 x 2), equal to the documented polarised combination
    k_aa k_bb + k_ab k_ba (POL), with a non-negative diagonal, invariant under exchanging the spin blocks of the control points, and equal to
    get_k evaluated at the control points themselves (identity feature list)"""
    K, dk, td = env.m.kernels, env.m.dft_kernel, env.m.td
    nf, nc = 2, 2
    base = K.DiffRBF(length_scale=_ls(env, nf)) if kname == "RBF" else K.DiffConstantKernel(env.par("c", "pos", hi="8")) * K.DiffRBF(length_scale=_ls(env, nf))
    shape = (2, nc, nf) if mode == "POL" else (nc, nf)
    Xc = env.arr("Xc", shape, lo="-4", hi="4")

    def mk(X):
        o = object.__new__(dk.DFTKernel)
        o.kernel, o.mode, o.X1ctrl = base, mode, X
        return o
    ok, Km = env.attempt("get_kctrl_returns", lambda: mk(Xc.copy()).get_kctrl())
    if not ok:
        return
    env.check("shape", np.shape(Km) == (nc, nc), str(np.shape(Km)))
    for i in range(nc):
        for j in range(nc):
            env.equal("symmetric_%d%d" % (i, j), Km[i, j], Km[j, i])
            if mode == "POL":
                kaa, kbb = base(Xc[0].copy(), Xc[0].copy()), base(Xc[1].copy(), Xc[1].copy())
                kab = base(Xc[0].copy(), Xc[1].copy())
                env.equal("documented_combination_%d%d" % (i, j), Km[i, j], kaa[i, j] * kbb[i, j] + kab[i, j] * kab[j, i])
    env.nonneg("k00_nonnegative", Km[0, 0])
    # (2 x 2 positive semidefiniteness of the polarised combination is a Schur-product argument z3 does not find within the
    #  time-out; it follows from symmetry + the documented combination + PSD of the base kernel, which psd2 decides)
    if mode == "POL":
        Ks = mk(Xc[::-1].copy()).get_kctrl()
        for i in range(nc):
            for j in range(nc):
                env.equal("spin_exchange_invariant_%d%d" % (i, j), Ks[i, j], Km[i, j])


def h_spin_block(env, name):
    """spin-symmetrised kernels are invariant under exchange of the two spin blocks of X (and of Y)"""
    k, d = build(env, name)
    X = env.arr("X", (2, d), lo="-4", hi="4")
    Y = env.arr("Y", (2, d), lo="-4", hi="4")
    sw = lambda A: np.concatenate([A[:, 2:4], A[:, 0:2]], axis=1)
    a = k(X.copy(), Y.copy())
    b = k(sw(X), Y.copy())
    c = k(X.copy(), sw(Y))
    for i in range(2):
        for j in range(2):
            env.equal("swapX_%d%d" % (i, j), b[i, j], a[i, j])
            env.equal("swapY_%d%d" % (i, j), c[i, j], a[i, j])


def h_algebra(env):
    K = env.m.kernels
    X = env.arr("X", (2, 3), lo="-4", hi="4")
    Y = env.arr("Y", (2, 3), lo="-4", hi="4")
    k1 = K.DiffRBF(length_scale=_ls(env, 3))
    k2 = K.DiffPolyKernel(gamma=env.par("g", "pos", hi="8"), order=2)
    c = env.par("c", "pos", hi="8")
    a, b = k1(X.copy(), Y.copy()), k2(X.copy(), Y.copy())
    s, p, e3, sc = (k1 + k2)(X.copy(), Y.copy()), (k1 * k2)(X.copy(), Y.copy()), (k1 ** 3)(X.copy(), Y.copy()), (k1 * c)(X.copy(), Y.copy())
    sub = K.SubsetRBF([2, 0], length_scale=np.array([k1.length_scale[2], k1.length_scale[0]], dtype=object if env.sym else float))
    full = K.DiffRBF(length_scale=np.array([k1.length_scale[2], k1.length_scale[0]], dtype=object if env.sym else float))
    sv, fv = sub(X.copy(), Y.copy()), full(X[:, [2, 0]].copy(), Y[:, [2, 0]].copy())
    for i in range(2):
        for j in range(2):
            env.equal("sum_%d%d" % (i, j), s[i, j], a[i, j] + b[i, j])
            env.equal("product_%d%d" % (i, j), p[i, j], a[i, j] * b[i, j])
            env.equal("power_%d%d" % (i, j), e3[i, j], a[i, j] * a[i, j] * a[i, j])
            env.equal("scalar_%d%d" % (i, j), sc[i, j], a[i, j] * c)
            env.equal("subset_%d%d" % (i, j), sv[i, j], fv[i, j])


PSD_KERNELS = ["RBF", "Linear", "Poly2fa", "Const*RBF", "RBF+RBF", "SubsetRBF", "ARBF1"]


def tasks(tier):
    out = []
    names = KERNELS_QUICK if tier == "quick" else KERNELS_THOROUGH
    for n in names:
        for what in ("symmetry", "input_gradient", "theta_gradient"):
            if n == "Antisym" and what == "theta_gradient":
                continue      # documented NotImplementedError
            out.append(Task("%s/%s" % (n, what), h_kernel, dict(name=n, what=what), mods="kernels", max_paths=64))
    for n in names:
        if n == "Antisym":
            continue      # its diag() is a recorded finding (C15-DiffAntisymRBF-diag, task Antisym/symmetry)
        out.append(Task("%s/symmetry_blocked" % n, h_kernel, dict(name=n, what="symmetry_blocked"), mods="kernels", max_paths=64))
    for n in PSD_KERNELS:
        out.append(Task("%s/psd2" % n, h_kernel, dict(name=n, what="psd2"), mods="kernels"))
    for n in ("SpinSymRBF", "SpinSymPoly") + (("SpinSymARBF",) if tier == "thorough" else ()):
        out.append(Task("%s/spin_block" % n, h_spin_block, dict(name=n), mods="kernels"))
    for mode in ("POL", "NPOL", "SEP"):
        out.append(Task("DFTKernel/kctrl/%s" % mode, h_dft_kernel_cov, dict(mode=mode), mods="kernels"))
    out.append(Task("DFTKernel/kctrl/POL/const*RBF", h_dft_kernel_cov, dict(mode="POL", kname="Const*RBF"), mods="kernels"))
    out.append(Task("algebra", h_algebra, {}, mods="kernels"))
    return out


def prepare(tier):
    m = sym_mods("kernels")
    m.kernels, m.dft_kernel, m.td


META = dict(
    explanation="symbolic execution of ciderpress/models/kernels.py *and* of scikit-learn's kernels.py (both from source) on 2 x d symbolic "
                "inputs with symbolic hyper-parameters; automatic differentiation of the returned kernel values is the oracle for k_and_deriv and eval_gradient",
    functions=['ciderpress/models/kernels.py: diag / __call__ of every listed kernel with chunk-size literals scaled to 2 (*/symmetry_blocked)', "ciderpress/models/kernels.py: every kernel class listed in coverage.bounds.kernels (__call__, diag, k_and_deriv), _SubsetMixin, _SpinSymMixin, DiffSum/DiffProduct/DiffExponentiation/DiffTransform",
               "sklearn/gaussian_process/kernels.py: RBF.__call__, Sum/Product/Exponentiation/ConstantKernel/WhiteKernel.__call__, Kernel.theta/hyperparameters (executed, not stubbed)"],
    bounds=dict(X="2 x d, d in {3, 4}, entries in [-4, 4]", Y="2 x d", hyperparameters="symbolic positive in [1/8, 8]", orders="<= 2 (quick), <= 3 (thorough)",
                kernels=KERNELS_THOROUGH, psd="2 x 2 only: " + ", ".join(PSD_KERNELS)),
    stubs=["scipy.spatial.distance.cdist/pdist/squareform -> textbook definitions on symbolic arrays", "sklearn _check_length_scale -> shape check without float cast"],
    assumptions=["positive semidefiniteness for n >= 3 needs analytic facts about exp beyond the axioms: not applicable (unknown is never reported as success)",
                 "_reduce_npts / pivoted Cholesky (argsort on data) not covered"],
)
