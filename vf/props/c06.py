"""C06 - invariance under rigid motions and relabelling: the decidable bookkeeping pieces.

Energy invariance of a molecule under a rotation is a whole-program statement through PySCF's grids and AO
evaluation: not applicable.  Decided here on the real code:
  * recursive_sph_harm (clang IR): the l = 1 entries realise the documented direction convention
    ylm[[3,1,2]] * sqrt(4 pi / 3) = (x, y, z); each shell's sum_m Y_lm^2 is the rotation-invariant constant (2l+1)/4pi on the
    unit sphere; for each of the 48 octahedral operations R, Y_l(R r) is a fixed signed permutation of Y_l(r) for l <= 1 and the
    l = 2 shell transforms orthogonally (Gram matrix invariant) for every r;
  * recursive_sph_harm_deriv returns value + tangential gradient of the same functions;
  * the plan's l = 1 contraction (g_j . g_k, g_j . grad n) is invariant under a common orthogonal matrix;
  * atom relabelling at the indexer level: AtomicGridsIndexer.from_tabs of a permuted molecule assigns every atom the same shells,
    radii and spherical-harmonic rows (symbolic element tables; fake angular sizes 1-3 since from_tabs never looks at them)."""
import itertools
from fractions import Fraction

import numpy as np

from ..run import Task
from . import common, c01_l2
from ..llsym.ccall import ccall, STATS

PROP_ID = "C06"
sym_mods = common.sym_mods
real_mods = common.real_mods


def h_aux_basis_order(env):
    """aug_etb_for_cider (ciderpress/pyscf/nldf_convolutions.py) builds the auxiliary basis of the NLDF expansion element by element
    from the exponent range of that element's orbital basis; what it asks get_etb_from_expnt_range for an element must not depend on
    the order in which the atoms (hence the elements) are listed.  Stand-in molecule with two elements, symbolic primitive exponents
    (an s and a p shell on O, an s shell on H); get_etb_from_expnt_range is a recorder and gto.expand_etbs the identity, so the
    comparison is on the per-element exponent ranges and default bounds themselves."""
    import types
    nc = env.m.nldf_convolutions
    eO = env.arr("expO", (3,), "pos", lo="1/8", hi="64")
    eH = env.arr("expH", (2,), "pos", lo="1/8", hi="64")
    env.eps_zero()
    obj = (lambda rows: np.array(rows, dtype=object)) if env.sym else (lambda rows: np.array(rows, dtype=float))
    basis = {"O": [[0, [eO[0], 1.0], [eO[1], 1.0]], [1, [eO[2], 1.0]]], "H": [[0, [eH[0], 1.0]], [0, [eH[1], 1.0]]]}

    def run(order):
        mol = types.SimpleNamespace(_atom=[(sy, [0.0, 0.0, float(i)]) for i, sy in enumerate(order)], _basis=basis)
        rec = []

        def recorder(lmax, beta, emin_by_l, emax_by_l, def_amax, def_amin, lower_fac=1.0, upper_fac=1.0):
            rec.append((list(emin_by_l), list(emax_by_l), def_amax, def_amin))
            return len(rec) - 1
        old = nc.get_etb_from_expnt_range, nc.gto
        nc.get_etb_from_expnt_range = recorder
        nc.gto = types.SimpleNamespace(charge=old[1].charge, expand_etbs=lambda etb: etb)
        try:
            nb = nc.aug_etb_for_cider(mol, lmax=1)
        finally:
            nc.get_etb_from_expnt_range, nc.gto = old
        return {sy: rec[k] for sy, k in nb.items()}
    ok, ref = env.attempt("returns", lambda: run(("O", "H", "H")))
    if not ok:
        return
    for order in (("H", "O", "H"), ("H", "H", "O")):
        got = run(order)
        tag = "".join(order)
        env.check("same_elements_%s" % tag, set(got) == set(ref), "%s vs %s" % (sorted(got), sorted(ref)))
        for sy in ref:
            if sy not in got:
                continue
            for l in range(2):
                env.equal("%s_emin_l%d_of_%s" % (tag, l, sy), got[sy][0][l] + env.const(0), ref[sy][0][l] + env.const(0))
                env.equal("%s_emax_l%d_of_%s" % (tag, l, sy), got[sy][1][l] + env.const(0), ref[sy][1][l] + env.const(0))
            env.equal("%s_default_bounds_of_%s" % (tag, sy), got[sy][2] + got[sy][3] * 16, ref[sy][2] + ref[sy][3] * 16)


def h_sdmx_alpha0(env, natm=3):
    """EXXSphGenerator.from_settings_and_mol (ciderpress/pyscf/sdmx.py) derives the default smallest SDMX exponent from the molecular
    extent; it must not depend on the order in which the atoms are listed (nor on a rigid shift).  Symbolic run: a stand-in molecule
    with symbolic atom coordinates, plan classes replaced by recorders of (alpha0, lambd, nalpha); concrete replay: real Mole objects
    and the real plan."""
    import itertools
    import types
    sd, st = env.m.sdmx, env.m.settings
    # a one-parameter family of bent three-atom geometries (0,0,0), (1,0,0), (0,0,z), z in [1/2, 3]: enough for "which atom is listed
    # first" to matter, few enough distance comparisons for the path explorer
    z = env.par("z", "pos", lo="1/2", hi="3")
    R = env.zeros((natm, 3))
    R[1, 0] = env.const(1)
    R[2, 2] = z
    env.eps_zero()
    settings = st.SDMXSettings([1])
    from . import c02
    real_mol = c02._sdmx_mol()

    def alpha0_for(coords):
        if env.sym:
            # two primitive exponents 1/2 and 2 (exact binary values: the width 1/sqrt(2 min_exp) = 1 stays a small rational)
            bas = np.zeros((2, 8), dtype=np.int32)
            bas[:, 5] = [1, 2]
            mol = types.SimpleNamespace(_env=np.array([0.0, 0.5, 2.0]), _bas=bas, atom_coords=lambda unit="Bohr": coords)
            rec = {}

            class Rec(object):
                def __init__(self, settings_, nspin, alpha0, lambd, nalpha, **kw):
                    rec.update(alpha0=alpha0, lambd=lambd, nalpha=nalpha)
                    self.fit_metric = "ovlp"
            old = sd.SDMXPlan
            sd.SDMXPlan = Rec
            try:
                sd.EXXSphGenerator.from_settings_and_mol(settings, 1, mol, nalpha=8)
            finally:
                sd.SDMXPlan = old
            return rec["alpha0"]
        from pyscf import gto
        mol = gto.M(atom=[("H", tuple(float(x) for x in c)) for c in np.asarray(coords, dtype=float)], basis="sto-3g", unit="Bohr", spin=natm % 2, verbose=0)
        return sd.EXXSphGenerator.from_settings_and_mol(settings, 1, mol, nalpha=8).plan.alpha0
    ok, a_ref = env.attempt("returns", lambda: alpha0_for(R.copy()))
    if not ok:
        return
    for perm in itertools.permutations(range(natm)):
        if perm == tuple(range(natm)):
            continue
        Rp = R.copy()
        for k, src in enumerate(perm):
            Rp[k] = R[src]
        env.equal("alpha0_same_for_atom_order_%s" % "".join(map(str, perm)), alpha0_for(Rp), a_ref)


def c_generator_cache(cfg):
    """NLDFNumInt / NLDFNLOFNumInt.initialize_feature_generators (ciderpress/pyscf/numint.py) reuses its feature generators between
    calls; after a call with a rigidly moved or relabelled copy of the previous molecule (same grids object, as after
    grids.reset(mol2); grids.build()) the generators in use must be the ones built for the *new* molecule.  Everything here is
    concrete (PySCF Mole objects, recording stand-ins for the two initialisers), so this is a fact check on the real control flow,
    not a solver query."""
    import types
    from pyscf import gto
    m = common.real_mods("numint")
    ni_mod, st = m.numint, m.settings
    recs = []

    def rec(name, ok, detail=""):
        recs.append(dict(kind="fact", name="%s/%s" % (cfg["task"], name), path="", verdict="unsat" if ok else "sat", t=0.0, size=1, trivial=False,
                         phase="executed", detail=str(detail), model={}, model_float={}))

    class Gen(object):
        def __init__(self, mol, nspin):
            self.built_for, self.plan = mol, types.SimpleNamespace(nspin=nspin)
            self.coords_set = None
            self.interpolator = types.SimpleNamespace(set_coords=lambda c: setattr(self, "coords_set", c))

    class Init(object):
        def initialize_nldf_generator(self, mol, grids_indexer, nspin):
            return Gen(mol, nspin)

        def initialize_sdmx_generator(self, mol, nspin):
            return Gen(mol, nspin)
    base = [("O", (0.0, 0.0, 0.117)), ("H", (0.0, 0.757, -0.469)), ("H", (0.0, -0.757, -0.469))]
    move = {"translated": lambda a: [(s, (x + 0.7, y - 1.3, z + 0.4)) for s, (x, y, z) in a],
            "rotated_90_about_z": lambda a: [(s, (-y, x, z)) for s, (x, y, z) in a],
            "rotated_120_about_111": lambda a: [(s, (z, x, y)) for s, (x, y, z) in a],
            "mirrored_x": lambda a: [(s, (-x, y, z)) for s, (x, y, z) in a],
            "relabelled_H_O_H": lambda a: [a[1], a[0], a[2]]}
    fs = st.FeatureSettings(sl_settings=st.SemilocalSettings("npa"), sdmx_settings=st.SDMXSettings([1]))
    for clsname in ("NLDFNumInt", "NLDFNLOFNumInt"):
        cls = getattr(ni_mod, clsname)
        for how, f in move.items():
            mol1 = gto.M(atom=base, basis="sto-3g", verbose=0)
            mol2 = gto.M(atom=f(base), basis="sto-3g", verbose=0)
            ni = object.__new__(cls)
            ni.mlxc = types.SimpleNamespace(settings=fs)
            try:
                ni.settings = fs          # classes where `settings` is a plain attribute rather than the mlxc property
            except AttributeError:
                pass
            ni.mol, ni.sdmxgen, ni.nldfgen, ni.nldf_init, ni.sdmx_init = None, None, None, Init(), Init()
            grids = types.SimpleNamespace(grids_indexer=object(), coords=np.zeros((1, 3)))
            try:
                ni.initialize_feature_generators(mol1, grids, 1)
                first = ni.nldfgen
                grids.coords = np.ones((1, 3))           # the caller rebuilt the grid for the second molecule in place
                ni.initialize_feature_generators(mol2, grids, 1)
            except Exception as e:  # noqa
                rec("%s/%s/returns" % (clsname, how), False, "%s: %s" % (type(e).__name__, e))
                continue
            rec("%s/%s/nldf_generator_is_for_the_current_molecule" % (clsname, how), ni.nldfgen.built_for is mol2, "built for the %s molecule" % ("first" if ni.nldfgen is first else "second"))
            rec("%s/%s/sdmx_generator_is_for_the_current_molecule" % (clsname, how), ni.sdmxgen is not None and ni.sdmxgen.built_for is mol2)
            if clsname == "NLDFNumInt":
                rec("%s/%s/interpolator_has_the_current_grid" % (clsname, how), ni.nldfgen.coords_set is grids.coords)
    recs.append(dict(kind="reach", name=cfg["task"] + "/reach", path="", verdict="sat", t=0.0))
    return dict(records=recs, paths=0, solver_time=0.0)


def replay(task, rec):
    if task.engine == "custom":
        out = c_generator_cache(task.cfg)
        for r in out["records"]:
            if r["name"] == rec["name"]:
                return dict(confirmed=r["verdict"] == "sat", detail="re-executed on the unmodified module: %s" % r.get("detail"))
        return dict(confirmed=False, detail="not produced")
    return common.generic_replay(task, rec)

SPH_C = "ciderpress/lib/mod_cider/sph_harm.c"
TOL = Fraction(1, 10 ** 12)


def _unit(env, name="r"):
    r = env.arr(name, (1, 3), lo="-1", hi="1")
    env.assume_power(r[0, 2], 2, 1 - r[0, 0] * r[0, 0] - r[0, 1] * r[0, 1])
    return r


def _ylm(env, r, nlm):
    res = env.zeros((r.shape[0], nlm))
    ccall(env, SPH_C, "recursive_sph_harm_vec", [nlm, r.shape[0], r.copy(), res])
    return res


def _pi(env):
    from ..sym import PI
    return PI if env.sym else np.pi


def _close(env, name, a, b):
    env.nonneg(name + "_upper", env.const(TOL) - (a - b))
    env.nonneg(name + "_lower", env.const(TOL) + (a - b))


def h_l1_convention(env, nlm=9):
    r = _unit(env)
    y = _ylm(env, r, nlm)
    c = (4 * _pi(env) / 3) ** env.const(Fraction(1, 2))
    for k, comp in zip((3, 1, 2), range(3)):
        _close(env, "ylm[%d]*sqrt(4pi/3)_is_%s" % (k, "xyz"[comp]), y[0, k] * c, r[0, comp])
    _close(env, "y00", y[0, 0], 1 / (2 * _pi(env) ** env.const(Fraction(1, 2))))


def h_shell_norm(env, lmax=2):
    nlm = (lmax + 1) ** 2
    r = _unit(env)
    y = _ylm(env, r, nlm)
    for l in range(lmax + 1):
        s = sum((y[0, l * l + m] * y[0, l * l + m] for m in range(2 * l + 1)), env.const(0))
        _close(env, "sum_m_Y%dm^2_is_(2l+1)/4pi" % l, s, (2 * l + 1) / (4 * _pi(env)))


def _octahedral():
    ops = []
    for perm in itertools.permutations(range(3)):
        for signs in itertools.product((1, -1), repeat=3):
            R = np.zeros((3, 3), dtype=int)
            for i in range(3):
                R[i, perm[i]] = signs[i]
            ops.append(R)
    return ops


_PERM_CACHE = {}


def _signed_perm(lmax):
    """numerically determine, for each octahedral operation, the signed permutation P with Y(R r) = P Y(r) (real library)"""
    if lmax in _PERM_CACHE:
        return _PERM_CACHE[lmax]
    import ctypes
    from .. import replaylibs
    lib = np.ctypeslib.load_library("libmcider", replaylibs.ensure())
    nlm = (lmax + 1) ** 2
    rng = np.random.default_rng(3)
    pts = rng.normal(size=(12, 3))
    pts /= np.linalg.norm(pts, axis=1)[:, None]

    def Y(p):
        p = np.ascontiguousarray(p)
        out = np.zeros((p.shape[0], nlm))
        lib.recursive_sph_harm_vec(ctypes.c_int(nlm), ctypes.c_int(p.shape[0]), p.ctypes.data_as(ctypes.c_void_p), out.ctypes.data_as(ctypes.c_void_p))
        return out
    y0 = Y(pts)
    table = []
    for R in _octahedral():
        y1 = Y(pts.dot(R.T))
        P = np.linalg.lstsq(y0, y1, rcond=None)[0].T       # y1 = y0 P^T
        Pr = np.round(P)
        table.append(Pr.astype(int) if np.allclose(P, Pr, atol=1e-9) and np.all(np.abs(Pr).sum(1) == 1) else None)
    _PERM_CACHE[lmax] = table
    return table


def h_octahedral(env, iop, lmax=1):
    """l <= 1: a signed permutation (exact).  (For l = 2 a 90-degree rotation about x or y mixes d_z2 and d_x2-y2, so the
    representation matrix is orthogonal but not a signed permutation: see h_octahedral_l2.)"""
    nlm = (lmax + 1) ** 2
    R = _octahedral()[iop]
    P = _signed_perm(lmax)[iop]
    env.check("a_signed_permutation_exists", P is not None, "no signed permutation maps Y(r) to Y(R r) for R=%s" % (R.tolist(),))
    if P is None:
        return
    r = _unit(env)
    rr = env.zeros((1, 3))
    for i in range(3):
        rr[0, i] = sum((int(R[i, j]) * r[0, j] for j in range(3)), env.const(0))
    y0, y1 = _ylm(env, r, nlm), _ylm(env, rr, nlm)
    for i in range(nlm):
        j = int(np.nonzero(P[i])[0][0])
        # within 1e-12: the C source mixes decimal constants (SQRT2, SPHF0) with run-time square roots
        _close(env, "Y%d(Rr)=%+dY%d(r)" % (i, P[i, j], j), y1[0, i], int(P[i, j]) * y0[0, j])
        li, lj = int(np.sqrt(i)), int(np.sqrt(j))
        env.check("stays_in_shell_%d" % i, li == lj)


def h_octahedral_l2(env, iop):
    """l = 2: sum over the shell of products is invariant, i.e. Y_2(R r) . Y_2(R s) = Y_2(r) . Y_2(s) for all unit r, s
    (the representation matrix is orthogonal), exact polynomial identity on the two spheres"""
    R = _octahedral()[iop]
    r, s = _unit(env, "r"), _unit(env, "s")

    def rot(v):
        out = env.zeros((1, 3))
        for i in range(3):
            out[0, i] = sum((int(R[i, j]) * v[0, j] for j in range(3)), env.const(0))
        return out
    yr, ys, yRr, yRs = _ylm(env, r, 9), _ylm(env, s, 9), _ylm(env, rot(r), 9), _ylm(env, rot(s), 9)
    a = sum((yr[0, i] * ys[0, i] for i in range(4, 9)), env.const(0))
    b = sum((yRr[0, i] * yRs[0, i] for i in range(4, 9)), env.const(0))
    _close(env, "shell2_gram_invariant", b, a)


def h_values_agree(env, lmax=5):
    """the value routine and the value output of the value+gradient routine are the same real spherical harmonics (same signs)
    up to a high degree; together with the l <= 2 conventions above this pins the sign convention of every tabulated Y_lm"""
    nlm = (lmax + 1) ** 2
    r = _unit(env)
    res, dres = env.zeros((1, nlm)), env.zeros((1, 3, nlm))
    ccall(env, SPH_C, "recursive_sph_harm_deriv_vec", [nlm, 1, r.copy(), res, dres])
    y = _ylm(env, r, nlm)
    for i in range(nlm):
        env.equal("value_%d" % i, res[0, i], y[0, i])


def h_deriv(env, lmax=2):
    nlm = (lmax + 1) ** 2
    r = _unit(env)
    res, dres = env.zeros((1, nlm)), env.zeros((1, 3, nlm))
    ccall(env, SPH_C, "recursive_sph_harm_deriv_vec", [nlm, 1, r.copy(), res, dres])
    y = _ylm(env, r, nlm)
    if env.sym:
        from .. import dag
        from ..sym import S, lift
        xs = [dag.var("r_0_%d" % c) for c in range(3)]
    for i in range(nlm):
        env.equal("value_%d" % i, res[0, i], y[0, i])
    if not env.sym:
        # the oracle differentiates the polynomial the C recursion evaluates: central differences of the same routine off the sphere
        hh = 1e-5
        G = np.zeros((3, nlm))
        for c in range(3):
            rp, rm = r.copy(), r.copy()
            rp[0, c] += hh
            rm[0, c] -= hh
            G[c] = (_ylm(env, rp, nlm)[0] - _ylm(env, rm, nlm)[0]) / (2 * hh)
        for i in range(nlm):
            rad = sum(G[c, i] * r[0, c] for c in range(3))
            for c in range(3):
                a, b = dres[0, c, i], G[c, i] - rad * r[0, c]
                env.equal("tangential_gradient_%d_%s" % (i, "xyz"[c]), a if abs(a - b) > 1e-7 else b, b)
        return
    for i in range(nlm):
        g = [S(dag.diff(lift(y[0, i]), xs[c])) for c in range(3)]
        rad = sum((g[c] * r[0, c] for c in range(3)), env.const(0))
        for c in range(3):
            env.equal("tangential_gradient_%d_%s" % (i, "xyz"[c]), dres[0, c, i], g[c] - rad * r[0, c])


def h_l1_contraction_rotation(env, improper=False):
    """eval_rho_vi_: l = 1 features are invariant when all vector integrals and grad n are transformed by a common orthogonal Q.
    Q is the Cayley parametrisation (I - A)(I + A)^-1 of a rotation (all rotations except angle pi), times -1 for improper ones:
    the invariance becomes a rational-function identity in (a, b, c), which the normal form + z3 decide."""
    plan, s = c01_l2.make_plan(env, "i", "MGGA", "one", 1, "qg")
    f, rho = c01_l2.plan_inputs(env, plan, s)
    a, b, c = env.par("ca", lo="-4", hi="4"), env.par("cb", lo="-4", hi="4"), env.par("cc", lo="-4", hi="4")
    n = 1 + a * a + b * b + c * c
    sg = -1 if improper else 1
    Q = [[(1 + a * a - b * b - c * c), 2 * (a * b - c), 2 * (a * c + b)],
         [2 * (a * b + c), (1 - a * a + b * b - c * c), 2 * (b * c - a)],
         [2 * (a * c - b), 2 * (b * c + a), (1 - a * a - b * b + c * c)]]
    Q = [[sg * Q[i][j] / n for j in range(3)] for i in range(3)]
    env.eps_zero()
    nl0 = len(s.l0_feat_specs)
    f2, rho2 = f.copy(), rho.copy()
    for v in range(len(s.l1_feat_specs)):
        for i in range(3):
            f2[nl0 + 3 * v + i, 0] = sum((Q[i][j] * f[nl0 + 3 * v + j, 0] for j in range(3)), env.const(0))
    for i in range(3):
        rho2[1 + i, 0] = sum((Q[i][j] * rho[1 + j, 0] for j in range(3)), env.const(0))
    fa, _ = c01_l2.run_fwd(plan, f, rho)
    fb, _ = c01_l2.run_fwd(plan, f2, rho2)
    for i in range(s.nfeat):
        env.equal("feature_%d_rotation_invariant" % i, fb[i, 0], fa[i, 0])


class _FakeMol(object):
    def __init__(self, atoms):
        self.atoms = list(atoms)
        self.natm = len(atoms)

    def atom_symbol(self, ia):
        return self.atoms[ia]


def h_relabel_indexer(env, atoms, perm, shells, lmax=1):
    """atom relabelling at the indexer level: AtomicGridsIndexer.from_tabs of the permuted molecule gives every atom the same
    radial shells, shell sizes and spherical-harmonic rows as in the original order (symbolic element tables)"""
    gi = env.m.grids_indexer
    nlm = (lmax + 1) ** 2
    rad_loc_tab, ylm_loc_tab, rad_tab, ylm_tab = {}, {}, {}, {}
    for symb, angs in shells.items():
        sizes = sorted(set(angs))
        order = [i for n in sizes for i in range(len(angs)) if angs[i] == n]
        rl = [0]
        for i in order:
            rl.append(rl[-1] + angs[i])
        rad_loc_tab[symb] = np.array(rl, dtype=np.int32)
        starts, acc = {}, 0
        for n in sizes:
            starts[n] = acc
            acc += n
        ylm_loc_tab[symb] = np.array([starts[angs[i]] for i in order], dtype=np.int32)
        rad_tab[symb] = env.arr("rad_%s" % symb, (len(angs),), dom="pos", hi="8")
        ylm_tab[symb] = env.arr("ylm_%s" % symb, (acc, nlm), lo="-2", hi="2")
    atoms2 = [atoms[p] for p in perm]
    ok, a = env.attempt("from_tabs_original", lambda: gi.AtomicGridsIndexer.from_tabs(_FakeMol(atoms), lmax, rad_loc_tab, ylm_loc_tab, rad_tab, ylm_tab))
    ok2, b = env.attempt("from_tabs_relabelled", lambda: gi.AtomicGridsIndexer.from_tabs(_FakeMol(atoms2), lmax, rad_loc_tab, ylm_loc_tab, rad_tab, ylm_tab))
    if not (ok and ok2):
        return
    for ib, ia in enumerate(perm):          # atom ib of the relabelled molecule is atom ia of the original
        ra, rb = int(a.ra_loc[ia]), int(b.ra_loc[ib])
        na, nb = int(a.ra_loc[ia + 1]) - ra, int(b.ra_loc[ib + 1]) - rb
        env.check("atom%d_shell_count" % ia, na == nb, "%d vs %d" % (na, nb))
        if na != nb:
            continue
        for k in range(na):
            env.check("atom%d_shell%d_owner" % (ia, k), int(a.ar_loc[ra + k]) == ia and int(b.ar_loc[rb + k]) == ib, "%s %s" % (a.ar_loc[ra + k], b.ar_loc[rb + k]))
            sa = int(a.rad_loc[ra + k + 1]) - int(a.rad_loc[ra + k])
            sb = int(b.rad_loc[rb + k + 1]) - int(b.rad_loc[rb + k])
            env.check("atom%d_shell%d_size" % (ia, k), sa == sb, "%d vs %d" % (sa, sb))
            env.equal("atom%d_shell%d_radius" % (ia, k), b.rad_arr[rb + k], a.rad_arr[ra + k])
            ya, yb = int(a.ylm_loc[ra + k]), int(b.ylm_loc[rb + k])
            inb = ya + sa <= a.ylm.shape[0] and yb + sb <= b.ylm.shape[0]
            env.check("atom%d_shell%d_ylm_rows_in_table" % (ia, k), inb, "%d+%d of %d ; %d+%d of %d" % (ya, sa, a.ylm.shape[0], yb, sb, b.ylm.shape[0]))
            if sa != sb or not inb:
                continue
            for j in range(sa):
                for lm in range(nlm):
                    env.equal("atom%d_shell%d_pt%d_ylm%d" % (ia, k, j, lm), b.ylm[yb + j, lm], a.ylm[ya + j, lm])
                    env.equal("atom%d_shell%d_pt%d_ylm%d_is_element_table" % (ia, k, j, lm), a.ylm[ya + j, lm], ylm_tab[atoms[ia]][int(ylm_loc_tab[atoms[ia]][k]) + j, lm])


def tasks(tier):
    out = [Task("values_agree/lmax%d" % (5 if tier == "quick" else 8), h_values_agree, dict(lmax=5 if tier == "quick" else 8)), Task("l1_convention", h_l1_convention, {}), Task("shell_norm/lmax2", h_shell_norm, dict(lmax=2)), Task("deriv/lmax2", h_deriv, dict(lmax=2)),
           Task("l1_contraction_rotation/proper", h_l1_contraction_rotation, {}, mods="numint", max_paths=64),
           Task("l1_contraction_rotation/improper", h_l1_contraction_rotation, dict(improper=True), mods="numint", max_paths=64)]
    ops = range(48) if tier == "thorough" else (0, 5, 10, 17, 23, 30, 41, 47)
    for iop in ops:
        out.append(Task("octahedral/l<=1/op%d" % iop, h_octahedral, dict(iop=iop)))
        out.append(Task("octahedral/l=2/op%d" % iop, h_octahedral_l2, dict(iop=iop)))
    relab = [(("H", "He", "H"), (0, 2, 1), {"H": (2, 1), "He": (2,)}), (("H", "H", "He"), (2, 0, 1), {"H": (1, 2), "He": (3, 1)})]
    if tier == "thorough":
        relab += [(("H", "He", "Li", "H"), p, {"H": (2, 1, 2), "He": (1,), "Li": (3, 3)}) for p in itertools.permutations(range(4))]
    for atoms, perm, shells in relab:
        out.append(Task("relabel_indexer/%s/%s" % ("".join(atoms), "".join(map(str, perm))), h_relabel_indexer, dict(atoms=atoms, perm=perm, shells=shells), mods="grids"))
    out.append(Task("generator_cache", c_generator_cache, dict(task="generator_cache"), engine="custom"))
    out.append(Task("aux_basis/element_order", h_aux_basis_order, {}, mods="numint", max_paths=512, timeout_ms=60000))
    out.append(Task("sdmx_default_exponent/3atoms", h_sdmx_alpha0, {}, mods="numint", max_paths=512, timeout_ms=60000))
    if tier == "thorough":
        out.append(Task("shell_norm/lmax3", h_shell_norm, dict(lmax=3)))
        out.append(Task("deriv/lmax3", h_deriv, dict(lmax=3)))
    return out


def prepare(tier):
    m = sym_mods()
    m.settings, m.plans
    _signed_perm(1)
    sym_mods("grids").grids_indexer
    sym_mods("numint").nldf_convolutions


def extra_evidence(results):
    from ..llsym import ir
    return dict(ir_sources_sha256={k.replace("/repo/", ""): v for k, v in ir.EMITTED.items()})


META = dict(
    explanation="clang LLVM IR of sph_harm.c executed on a symbolic unit vector; z3 decides polynomial identities on the sphere (exact where both sides use "
                "the same constants, within 1e-12 where the C source's decimal constants meet pi); plan-level l=1 contraction under a symbolic orthogonal matrix",
    functions=['ciderpress/pyscf/nldf_convolutions.py: aug_etb_for_cider (aux_basis/element_order)', 'ciderpress/pyscf/sdmx.py: EXXSphGenerator.from_settings_and_mol (sdmx_default_exponent/*)', 'ciderpress/pyscf/numint.py: CiderNumIntMixin / NLDFNumInt / NLDFNLOFNumInt.initialize_feature_generators (generator_cache: concrete fact task, no solver query)', "ciderpress/lib/mod_cider/sph_harm.c: setup_sph_harm_buffer, recursive_sph_harm, recursive_sph_harm_deriv, remove_radial_grad, recursive_sph_harm(_deriv)_vec",
               "ciderpress/dft/plans.py: NLDFAuxiliaryPlan.eval_rho_full/eval_rho_vi_", "ciderpress/dft/grids_indexer.py: AtomicGridsIndexer.from_tabs/__init__"],
    bounds=dict(lmax="2 (3 thorough)", points=1, octahedral_operations="8 of 48 (quick), all 48 (thorough)", tolerance="1e-12 for identities involving pi vs the source's double constants"),
    stubs=["complex arithmetic: clang's expanded real/imag form; creal/cimag/__muldc3 by definition; calloc'd buffers zero-initialised"],
    assumptions=["NOT APPLICABLE and not claimed: energy / XC-matrix invariance end to end, atom-permutation invariance of the generators beyond the indexer tables, arbitrary rotations to quadrature accuracy, "
                 "translation covariance of the spline routines (struct-heavy set-up not bridged in this round)",
                 "the signed permutation per operation is *found* numerically on the compiled library and then *verified* for every r by z3"],
)
