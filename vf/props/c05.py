"""C05 - every reverse-mode operator is the exact adjoint of its forward operator (bounded layouts).

E2, serial semantics: the interpreter runs clang's LLVM IR of the forward routine A on a symbolic vector x and of
the backward routine B on a symbolic vector y (zero-initialised outputs, concrete layout data); structs
(atc_basis_set, convolution_collection) are built by the *real* freshly compiled library through the
repository's own Python wrappers and read from process memory (hybrid mode).  Outputs are linear forms in x
(resp. y); z3 decides  <A x, y> == <x, B y>  as a polynomial identity over x, y and the coefficient atoms.
Also: no write outside the [offset, offset + nalpha) column window, and interpreter-vs-.so translation
validation on concrete inputs."""
import ctypes
from fractions import Fraction

import numpy as np

from ..run import Task
from . import common, c05_grid, c05_sdmx
from ..llsym import bridge
from ..llsym.interp import Interp, Obj, Ptr, REAL
from ..llsym.ccall import ccall, STATS

PROP_ID = "C05"
sym_mods = common.sym_mods
real_mods = common.real_mods
replay = common.generic_replay

GRIDS_C = "ciderpress/lib/mod_cider/cider_grids.c"
CONV_C = "ciderpress/lib/mod_cider/convolutions.c"
INTERP_C = "ciderpress/lib/mod_cider/conv_interpolation.c"

VALIDATION = []


def _dot(env, a, b):
    fa = np.asarray(a, dtype=object if env.sym else float).ravel()
    fb = np.asarray(b, dtype=object if env.sym else float).ravel()
    return sum((x * y for x, y in zip(fa, fb)), env.const(0))


def h_angc_ylm(env, nrad=2, nw=(2, 3), nlm=4, nalpha=2, stride=3, offset=1):
    """reduce_angc_to_ylm (A: grid -> Ylm) / reduce_ylm_to_angc (B), through dgemm_ with stride > nalpha and an offset"""
    ng = sum(nw)
    rad_loc = np.array([0] + list(np.cumsum(nw)), dtype=np.int32)
    ylm_loc = np.array([0, nw[0]], dtype=np.int32)[:nrad]
    rng = np.random.default_rng(5)
    ylm = rng.normal(size=(ng, nlm)).round(3)                 # concrete angular table (layout data)
    x = env.arr("x", (ng, stride), lo="-2", hi="2")           # grid-space input (only the window columns are read)
    y = env.arr("y", (nrad, nlm, nalpha), lo="-2", hi="2")    # Ylm-space input of the backward routine
    Ax = env.zeros((nrad, nlm, nalpha))
    ccall(env, GRIDS_C, "reduce_angc_to_ylm", [Ax, ylm.copy(), x.copy(), rad_loc, ylm_loc, nalpha, nrad, ng, nlm, stride, offset])
    sentinel = env.arr("s", (ng, stride), lo="-2", hi="2")    # backward output buffer pre-filled: outside the window it must stay
    By = sentinel.copy()
    ccall(env, GRIDS_C, "reduce_ylm_to_angc", [y.copy(), ylm.copy(), By, rad_loc, ylm_loc, nalpha, nrad, ng, nlm, stride, offset])
    win = slice(offset, offset + nalpha)
    env.equal("<Ax,y>=<x,By>", _dot(env, Ax, y), _dot(env, x[:, win], By[:, win]))
    for g in range(ng):
        for c in range(stride):
            if not (offset <= c < offset + nalpha):
                env.equal("no_write_outside_window_%d_%d" % (g, c), By[g, c], sentinel[g, c])
    # forward must not depend on columns outside the window
    for c in range(stride):
        if not (offset <= c < offset + nalpha):
            env.deriv("forward_ignores_column_%d" % c, Ax[0, 0, 0], ("x", (0, c)), env.const(0))


_REAL = {}


def _real_world():
    """real ATCBasis / ConvolutionCollection objects from the freshly compiled library (the unmodified wrappers)"""
    if _REAL:
        return _REAL
    from .. import replaylibs
    replaylibs.ensure()
    import ciderpress.dft.lcao_convolutions as lc
    etb = [[(0, 2, 0.5, 2.0), (1, 1, 0.7, 2.0)], [(0, 1, 0.9, 2.0)]]
    atco = lc.ATCBasis(*lc.get_gamma_lists_from_etb_list(etb))
    etb2 = [[(0, 2, 0.6, 2.2), (1, 1, 0.8, 2.0)], [(0, 2, 1.0, 2.0)]]
    atco2 = lc.ATCBasis(*lc.get_gamma_lists_from_etb_list(etb2))
    alphas = np.array([0.3, 1.1])
    norms = (np.pi / (2 * alphas)) ** -0.75
    ccl = lc.ConvolutionCollection(atco, atco2, alphas, norms, has_vj=True, ifeat_ids=[3])
    ccl.compute_integrals_()
    cclk = lc.ConvolutionCollectionK(atco, atco2, alphas, norms)
    cclk.compute_integrals_()
    _REAL.update(lc=lc, atco=atco, atco2=atco2, ccl=ccl, cclk=cclk, alphas=alphas)
    return _REAL


def _hybrid(cfile):
    return bridge.new_interp(cfile, hybrid=True)


def _ptr_of(p):
    return Ptr(REAL, ctypes.cast(p, ctypes.c_void_p).value)


def _sym_buf(it, arr, name):
    """symbolic overlay for an object array living in Python (not in process memory)"""
    return Ptr(Obj(name, bridge._Flat(arr), 8), 0)


def _atco_nine(W):
    """3 s + 2 p shells on one atom, 2 s + 2 p on the other: three schedule(dynamic, 4) chunks, the third one starting in the middle
    of an atom with the angular momentum the first one ended with"""
    if "atco9" not in W:
        lc = W["lc"]
        etb = [[(0, 3, 0.5, 2.0), (1, 2, 0.7, 2.0)], [(0, 2, 0.9, 2.0), (1, 2, 0.6, 2.0)]]
        W["atco9"] = lc.ATCBasis(*lc.get_gamma_lists_from_etb_list(etb))
    return W["atco9"]


def h_rad_orb(env, nalpha=2, stride=3, offset=1, basis="small"):
    """contract_rad_to_orb (A: radial x Ylm -> orbital coefficients) / contract_orb_to_rad (B), real ATCBasis in process memory"""
    W = _real_world()
    atco = W["atco"] if basis == "small" else _atco_nine(W)
    nao = atco.nao
    lmax = 1
    nlm = (lmax + 1) ** 2
    rads = np.ascontiguousarray(np.array([0.3, 0.9, 0.4, 1.1, 1.7]))
    nrad = rads.size
    ra_loc = np.array([0, 2, 5], dtype=np.int32)
    ar_loc = np.array([0, 0, 1, 1, 1], dtype=np.int32)
    x = env.arr("x", (nrad, nlm, nalpha), lo="-2", hi="2")
    y = env.arr("y", (nao, stride), lo="-2", hi="2")
    if env.sym:
        Ax = env.zeros((nao, stride))
        it = _hybrid(CONV_C)
        it.call("contract_rad_to_orb", [_sym_buf(it, x.copy(), "theta"), _sym_buf(it, Ax, "p_uq"), Ptr(REAL, ra_loc.ctypes.data), Ptr(REAL, rads.ctypes.data),
                                        nrad, nlm, _ptr_of(atco.atco_c_ptr), nalpha, stride, offset])
        By = env.zeros((nrad, nlm, nalpha))
        it2 = _hybrid(CONV_C)
        it2.call("contract_orb_to_rad", [_sym_buf(it2, By, "theta"), _sym_buf(it2, y.copy(), "p_uq"), Ptr(REAL, ar_loc.ctypes.data), Ptr(REAL, rads.ctypes.data),
                                         nrad, nlm, _ptr_of(atco.atco_c_ptr), nalpha, stride, offset])
        STATS["instructions"] += it.steps + it2.steps
    else:
        Ax = np.zeros((nao, stride))
        atco.convert_rad2orb_(x.copy(), Ax, ra_loc, rads, rad2orb=True, offset=offset)
        By = np.zeros((nrad, nlm, nalpha))
        atco.convert_rad2orb_(By, y.copy(), ar_loc, rads, rad2orb=False, offset=offset)
    win = slice(offset, offset + nalpha)
    env.equal("<Ax,y>=<x,By>", _dot(env, Ax[:, win], y[:, win]), _dot(env, x, By))
    for u in range(nao):
        for c in range(stride):
            if not (offset <= c < offset + nalpha):
                env.equal("forward_writes_only_window_%d_%d" % (u, c), Ax[u, c], env.const(0))


def h_project_spline(env, nalpha=2, orb_stride=3, spline_stride=3, offset_spline=0, offset_orb=1, nrad=2):
    """project_conv_to_spline (A: orbital coefficients -> cubic-spline coefficients per atom/radial node/lm) and
    project_spline_to_conv (B), real ATCBasis in process memory, concrete spline table w_rsp"""
    import ctypes as ct
    W = _real_world()
    atco = W["atco"]
    nao, natm, nbas = atco.nao, atco.natm, atco.nbas
    nlm = 4
    rng = np.random.default_rng(11)
    w_rsp = np.ascontiguousarray(rng.normal(size=(nrad, nbas, 4)).round(3))
    x = env.arr("x", (nao, orb_stride), lo="-2", hi="2")
    y = env.arr("y", (natm, nrad, nlm, 4, spline_stride), lo="-2", hi="2")
    args = lambda fa, fu: [fa, fu, w_rsp, None, nalpha, nrad, nlm, orb_stride, spline_stride, offset_spline, offset_orb]
    if env.sym:
        Ax = env.zeros((natm, nrad, nlm, 4, spline_stride))
        it = _hybrid(INTERP_C)
        it.call("project_conv_to_spline", [_sym_buf(it, Ax, "f_arlpq"), _sym_buf(it, x.copy(), "f_uq"), Ptr(REAL, w_rsp.ctypes.data), _ptr_of(atco.atco_c_ptr),
                                           nalpha, nrad, nlm, orb_stride, spline_stride, offset_spline, offset_orb])
        By = env.zeros((nao, orb_stride))
        it2 = _hybrid(INTERP_C)
        it2.call("project_spline_to_conv", [_sym_buf(it2, y.copy(), "f_arlpq"), _sym_buf(it2, By, "f_uq"), Ptr(REAL, w_rsp.ctypes.data), _ptr_of(atco.atco_c_ptr),
                                            nalpha, nrad, nlm, orb_stride, spline_stride, offset_spline, offset_orb])
        STATS["instructions"] += it.steps + it2.steps
    else:
        lib = W["lc"].libcider
        P = lambda a: a.ctypes.data_as(ct.c_void_p)
        I = ct.c_int
        Ax = np.zeros((natm, nrad, nlm, 4, spline_stride))
        xx = np.ascontiguousarray(x.copy())
        lib.project_conv_to_spline(P(Ax), P(xx), P(w_rsp), atco.atco_c_ptr, I(nalpha), I(nrad), I(nlm), I(orb_stride), I(spline_stride), I(offset_spline), I(offset_orb))
        By = np.zeros((nao, orb_stride))
        yy = np.ascontiguousarray(y.copy())
        lib.project_spline_to_conv(P(yy), P(By), P(w_rsp), atco.atco_c_ptr, I(nalpha), I(nrad), I(nlm), I(orb_stride), I(spline_stride), I(offset_spline), I(offset_orb))
    ws, wo = slice(offset_spline, offset_spline + nalpha), slice(offset_orb, offset_orb + nalpha)
    env.equal("<Ax,y>=<x,By>", _dot(env, Ax[..., ws], y[..., ws]), _dot(env, x[:, wo], By[:, wo]))
    for u in range(nao):
        for c in range(orb_stride):
            if not (offset_orb <= c < offset_orb + nalpha):
                env.equal("backward_writes_only_window_%d_%d" % (u, c), By[u, c], env.const(0))
    for idx in np.ndindex(natm, nrad, nlm, 4):
        for c in range(spline_stride):
            if not (offset_spline <= c < offset_spline + nalpha):
                env.equal("forward_writes_only_window_%s_%d" % ("_".join(map(str, idx)), c), Ax[idx + (c,)], env.const(0))


def _real_interp():
    """a real LCAOInterpolator (spline maps and the l-1 'derivative' basis built by the freshly compiled library)"""
    W = _real_world()
    if "interp" not in W:
        import ciderpress.dft.lcao_interpolation as li
        W["li"] = li
        # every atom carries l >= 1 shells, as in every basis aug_etb_for_cider produces (one lmax for all atoms): with an s-only
        # last atom the l-1 basis has fewer atoms than the l basis and fill_l1_coeff_* would walk past l1atco->atom_loc_ao,
        # which is outside the interpolator's contract (an s-only atom anywhere else makes the constructor raise)
        lc = W["lc"]
        etb = [[(0, 2, 0.5, 2.0), (1, 1, 0.7, 2.0)], [(0, 1, 0.9, 2.0), (1, 1, 0.8, 2.0)]]
        W["atco_l1"] = lc.ATCBasis(*lc.get_gamma_lists_from_etb_list(etb))
        W["interp"] = li.LCAOInterpolator(np.array([[0.0, 0.0, 0.0], [0.0, 0.0, 1.4]]), W["atco_l1"], 1, 1, nrad=8)
    return W["interp"]


def h_fill_l1(env, stride1=2, offset1=1, stride2=4, offset2=1):
    """fill_l1_coeff_fwd (A: orbital coefficients f_u -> the x/y/z components d_uv of the l-1 basis through the Gaunt table) and
    fill_l1_coeff_bwd (B); both ATCBasis structs and the Gaunt coefficients are the real ones"""
    import ctypes as ct
    W = _real_world()
    ip = _real_interp()
    atco0, atco1 = ip.atco, ip.l1atco
    gaunt = np.ascontiguousarray(ip._gaunt_coeff)
    nlm = int(ip.nlm)
    x = env.arr("x", (atco0.nao, stride1), lo="-2", hi="2")
    y = env.arr("y", (atco1.nao, stride2), lo="-2", hi="2")
    if env.sym:
        Ax = env.zeros((atco1.nao, stride2))
        it = _hybrid(INTERP_C)
        it.call("fill_l1_coeff_fwd", [_sym_buf(it, x.copy(), "f_u"), _sym_buf(it, Ax, "d_uv"), Ptr(REAL, gaunt.ctypes.data), nlm, _ptr_of(atco0.atco_c_ptr), _ptr_of(atco1.atco_c_ptr),
                                      stride1, offset1, stride2, offset2])
        By = env.zeros((atco0.nao, stride1))
        it2 = _hybrid(INTERP_C)
        it2.call("fill_l1_coeff_bwd", [_sym_buf(it2, By, "f_u"), _sym_buf(it2, y.copy(), "d_uv"), Ptr(REAL, gaunt.ctypes.data), nlm, _ptr_of(atco0.atco_c_ptr), _ptr_of(atco1.atco_c_ptr),
                                       stride1, offset1, stride2, offset2])
        STATS["instructions"] += it.steps + it2.steps
    else:
        lib = W["lc"].libcider
        P = lambda a: a.ctypes.data_as(ct.c_void_p)
        I = ct.c_int
        Ax = np.zeros((atco1.nao, stride2))
        xx = np.ascontiguousarray(x.copy())
        lib.fill_l1_coeff_fwd(P(xx), P(Ax), P(gaunt), I(nlm), atco0.atco_c_ptr, atco1.atco_c_ptr, I(stride1), I(offset1), I(stride2), I(offset2))
        By = np.zeros((atco0.nao, stride1))
        yy = np.ascontiguousarray(y.copy())
        lib.fill_l1_coeff_bwd(P(By), P(yy), P(gaunt), I(nlm), atco0.atco_c_ptr, atco1.atco_c_ptr, I(stride1), I(offset1), I(stride2), I(offset2))
    w2 = slice(offset2, offset2 + 3)
    env.equal("<Ax,y>=<x,By>", _dot(env, Ax[:, w2], y[:, w2]), _dot(env, x[:, offset1], By[:, offset1]))
    for u in range(atco1.nao):
        for c in range(stride2):
            if not (offset2 <= c < offset2 + 3):
                env.equal("forward_writes_only_xyz_columns_%d_%d" % (u, c), Ax[u, c], env.const(0))
    for u in range(atco0.nao):
        for c in range(stride1):
            if c != offset1:
                env.equal("backward_writes_only_its_column_%d_%d" % (u, c), By[u, c], env.const(0))


def h_atc_integrals(env, vk=False):
    """multiply_atc_integrals(fwd=1) / (fwd=0): Gaussian convolution forward/backward on a real convolution_collection"""
    W = _real_world()
    ccl = W["cclk"] if vk else W["ccl"]
    nin, nout = ccl.atco_inp.nao, ccl.atco_out.nao
    na, nb = ccl.nalpha, (ccl.nalpha if vk else ccl.nbeta)
    x = env.arr("x", (nin, na), lo="-2", hi="2")
    y = env.arr("y", (nout, nb), lo="-2", hi="2")
    fn = "multiply_atc_integrals_vk" if vk else "multiply_atc_integrals"
    if env.sym:
        Ax, By = env.zeros((nout, nb)), env.zeros((nin, na))
        it = _hybrid(CONV_C)
        it.call(fn, [_sym_buf(it, x.copy(), "inp"), _sym_buf(it, Ax, "out"), _ptr_of(ccl._ccl), 1])
        it2 = _hybrid(CONV_C)
        it2.call(fn, [_sym_buf(it2, y.copy(), "inp"), _sym_buf(it2, By, "out"), _ptr_of(ccl._ccl), 0])
        STATS["instructions"] += it.steps + it2.steps
    else:
        Ax = ccl.multiply_atc_integrals(x.copy(), fwd=True)
        By = ccl.multiply_atc_integrals(y.copy(), fwd=False)
    env.equal("<Ax,y>=<x,By>", _dot(env, Ax, y), _dot(env, x, By))


def h_interp_transform(env, order, nalpha=2, ng=2):
    """NLDFGaussianPlan.get_transformed_interpolation_terms(fwd=True) / (fwd=False) with a symbolic symmetric
    positive-definite overlap matrix (Cholesky solve replaced by an exact symbolic solve)"""
    plans = env.m.plans
    M = env.arr("M", (nalpha, nalpha), lo="-2", hi="2")
    S = M.copy()
    for i in range(nalpha):
        for j in range(i):
            S[i, j] = M[j, i]
    # SPD 2x2: positive diagonal and determinant
    env.assume(S[0, 0] > env.const(Fraction(1, 8)))
    if nalpha == 2:
        env.assume(S[0, 0] * S[1, 1] - S[0, 1] * S[1, 0] > env.const(Fraction(1, 8)))
    norms = env.arr("norm", (nalpha,), "pos", lo="1/4", hi="4")
    shape = (ng, nalpha) if order == "gq" else (nalpha, ng)
    x, y = env.arr("x", shape, lo="-2", hi="2"), env.arr("y", shape, lo="-2", hi="2")

    class _S:
        pass
    p = object.__new__(plans.NLDFGaussianPlan)
    p.coef_order, p.nalpha, p._alpha_transform, p.alpha_norms, p._dmul = order, nalpha, S, norms, False
    p.nldf_settings = _S()
    p.nldf_settings.nldf_type = "j"
    if env.sym:
        from ..npshim import gauss_solve
        solver = lambda a, b: gauss_solve(np.asarray(a, dtype=object), np.asarray(b, dtype=object))
    else:
        solver = lambda a, b: np.linalg.solve(a, b)
    old = plans._stable_solve
    plans._stable_solve = solver
    try:
        Ax = p.get_transformed_interpolation_terms(x.copy(), i=0, fwd=True, inplace=False)
        By = p.get_transformed_interpolation_terms(y.copy(), i=0, fwd=False, inplace=False)
        xi, yi = x.copy(), y.copy()
        Axi = p.get_transformed_interpolation_terms(xi, i=0, fwd=True, inplace=True)
        Byi = p.get_transformed_interpolation_terms(yi, i=0, fwd=False, inplace=True)
    finally:
        plans._stable_solve = old
    env.equal("<Ax,y>=<x,By>", _dot(env, Ax, y), _dot(env, x, By))
    for k, (a, b) in enumerate(zip(np.asarray(Ax, dtype=object if env.sym else float).ravel(), np.asarray(Axi, dtype=object if env.sym else float).ravel())):
        env.equal("inplace_equals_copy_fwd_%d" % k, a, b)
    for k, (a, b) in enumerate(zip(np.asarray(By, dtype=object if env.sym else float).ravel(), np.asarray(Byi, dtype=object if env.sym else float).ravel())):
        env.equal("inplace_equals_copy_bwd_%d" % k, a, b)


def c_translator_validation(cfg):
    """concrete inputs through the interpreter vs the compiled .so (through the real wrappers): encoding error if they differ"""
    from .. import dag
    W = _real_world()
    recs = []
    rng = np.random.default_rng(int(cfg.get("seed", 0)) + 11)
    atco = W["atco"]
    nalpha, stride, offset, nlm = 2, 3, 1, 4
    rads = np.ascontiguousarray(np.array([0.3, 0.9, 0.4, 1.1, 1.7]))
    ra_loc = np.array([0, 2, 5], dtype=np.int32)
    xc = rng.normal(size=(5, nlm, nalpha))
    p_real = np.zeros((atco.nao, stride))
    atco.convert_rad2orb_(xc, p_real, ra_loc, rads, rad2orb=True, offset=offset)
    it = _hybrid(CONV_C)
    th = Obj("theta", [dag.const(Fraction(float(v))) for v in xc.ravel()], 8)
    pu = Obj("p", [dag.ZERO] * (atco.nao * stride), 8)
    it.call("contract_rad_to_orb", [Ptr(th, 0), Ptr(pu, 0), Ptr(REAL, ra_loc.ctypes.data), Ptr(REAL, rads.ctypes.data), 5, nlm, _ptr_of(atco.atco_c_ptr), nalpha, stride, offset])
    p_int = np.array([dag.numeric(e) for e in pu.data]).reshape(atco.nao, stride)
    d1 = float(np.abs(p_int - p_real).max())
    ccl = W["ccl"]
    xin = rng.normal(size=(ccl.atco_inp.nao, ccl.nalpha))
    o_real = ccl.multiply_atc_integrals(xin.copy(), fwd=True)
    it = _hybrid(CONV_C)
    bi = Obj("inp", [dag.const(Fraction(float(v))) for v in xin.ravel()], 8)
    bo = Obj("out", [dag.ZERO] * o_real.size, 8)
    it.call("multiply_atc_integrals", [Ptr(bi, 0), Ptr(bo, 0), _ptr_of(ccl._ccl), 1])
    o_int = np.array([dag.numeric(e) for e in bo.data]).reshape(o_real.shape)
    d2 = float(np.abs(o_int - o_real).max() / max(1.0, np.abs(o_real).max()))
    for name, d in (("contract_rad_to_orb", d1), ("multiply_atc_integrals", d2)):
        ok = d < 1e-12
        VALIDATION.append((name, d))
        recs.append(dict(kind="fact", name="translator_validation/%s" % name, path="", verdict="unsat" if ok else "sat", t=0.0, size=1, trivial=False,
                         phase="interpreter-vs-compiled-library", detail="max deviation %.3e" % d, model={}, model_float={}))
    return dict(records=recs, paths=0, solver_time=0.0)


def h_orb2grid(env, **cfg):
    _real_interp()
    return c05_grid.h_orb2grid(env, _real_world(), INTERP_C, STATS, _dot, **cfg)


def h_direct(env, **cfg):
    _real_interp()
    return c05_grid.h_direct(env, _real_world(), STATS, _dot, **cfg)


def h_angc_wrapper(env, **cfg):
    return c05_grid.h_angc_wrapper(env, **cfg)


def _grid_tasks(tier):
    out = [Task("grid_link/LCAOInterpolator/n0=1,n1=1", h_orb2grid, {}),
           Task("grid_link/Direct/n0=1,n1=1/pruned", h_direct, {}),
           Task("grid_link/Direct/n0=1,n1=1/padded_unpruned", h_direct, dict(padding=1, prune=False)),
           Task("grid_link/Direct/n0=2,n1=0", h_direct, dict(n0=2, n1=0))]
    out += [Task("angc_ylm_wrapper/%s" % lay, h_angc_wrapper, dict(layout=lay)) for lay in ("contiguous", "transposed", "every_other_row")]
    if tier == "thorough":
        out += [Task("grid_link/LCAOInterpolator/n0=2,n1=2", h_orb2grid, dict(n0=2, n1=2)),
                Task("grid_link/Direct/n0=2,n1=2/padded", h_direct, dict(n0=2, n1=2, padding=2)),
                Task("grid_link/Direct/n0=1,n1=2/unpruned", h_direct, dict(n0=1, n1=2, prune=False)),
                Task("grid_link/Direct/lmax2/n0=1,n1=1", h_direct, dict(lmax=2), timeout_ms=120000)]
    # n0 = 0 with n1 > 0 is not an operator pair at all: conv2spline needs the l spline table w0_rsp, which the constructor only
    # builds when n0 > 0, and raises AssertionError (a refusal, not a wrong adjoint) - outside C05
    return out


def tasks(tier):
    out = [Task("angc_ylm/offset1", h_angc_ylm, {}), Task("angc_ylm/offset0", h_angc_ylm, dict(stride=2, offset=0)),
           Task("rad_orb/offset1", h_rad_orb, {}), Task("rad_orb/offset0", h_rad_orb, dict(stride=2, offset=0)),
           # offset 0 inside a wider array (stride > nalpha): the layout LCAOInterpolator uses for the l=0 block when l=1 features exist
           Task("angc_ylm/offset0_wide", h_angc_ylm, dict(stride=3, offset=0)), Task("rad_orb/offset0_wide", h_rad_orb, dict(stride=4, offset=0)),
           Task("project_spline/offsets0_1", h_project_spline, {}), Task("project_spline/offsets1_0_wide", h_project_spline, dict(orb_stride=4, spline_stride=3, offset_spline=1, offset_orb=0)),
           Task("fill_l1_coeff/offsets1_1", h_fill_l1, {}), Task("fill_l1_coeff/offsets0_0", h_fill_l1, dict(stride1=1, offset1=0, stride2=3, offset2=0)),
           Task("atc_integrals/vj+vi", h_atc_integrals, dict(vk=False)), Task("atc_integrals/vk", h_atc_integrals, dict(vk=True)),
           Task("interp_transform/gq", h_interp_transform, dict(order="gq"), mods="numint"), Task("interp_transform/qg", h_interp_transform, dict(order="qg"), mods="numint"),
           Task("translator_validation", c_translator_validation, dict(seed=0), engine="custom")]
    if tier == "thorough":
        out.append(Task("angc_ylm/3rad", h_angc_ylm, dict(nrad=2, nw=(3, 4), nlm=9, nalpha=3, stride=5, offset=2)))
    out += [Task("sdmx/ao_to_bas", c05_sdmx.h_plain, {}), Task("sdmx/ao_to_bas_l1", c05_sdmx.h_l1, {}), Task("sdmx/ao_to_bas_grid", c05_sdmx.h_grid, {}), Task("sdmx/shl_to_alpha_l1", c05_sdmx.h_shl_alpha, {})]
    if tier == "thorough":
        out += [Task("sdmx/ao_to_bas_l1/ng3", c05_sdmx.h_l1, dict(ng=3)), Task("sdmx/shl_to_alpha_l1/3x4", c05_sdmx.h_shl_alpha, dict(ng=3, nalpha=3, nsh=4))]
    return out + _grid_tasks(tier)


def prepare(tier):
    m = sym_mods()
    m.plans
    W = _real_world()
    _real_interp()
    # grid link: symbolic copies of the wrapper modules, the interpreted data-path routines behind their `libcider`, and the real
    # interpolators (built here, outside the symbolic import context, by the freshly compiled library)
    m.lcao_interpolation, m.lcao_convolutions, m.grids_indexer
    c05_grid.install(common.ctx(), {"conv_interpolation.c": INTERP_C, "convolutions.c": CONV_C, "cider_grids.c": GRIDS_C}, STATS, W["lc"].libcider)
    for t in _grid_tasks(tier):
        if t.fn is h_direct:
            c05_grid.make_direct(W, **t.cfg)
        elif t.fn is h_orb2grid:
            c05_grid.make_interp(W, **t.cfg)


def replay(task, rec):
    if task.engine == "custom":
        out = c_translator_validation(task.cfg)
        for r in out["records"]:
            if r["name"] == rec["name"]:
                return dict(confirmed=r["verdict"] == "sat", detail=r["detail"])
        return dict(confirmed=False, detail="not produced")
    return common.generic_replay(task, rec)


def extra_evidence(results):
    from ..llsym import ir
    return dict(ir_sources_sha256={k.replace("/repo/", ""): v for k, v in ir.EMITTED.items()}, translator_validation=[dict(function=n, max_deviation=d) for n, d in VALIDATION],
                pairs_not_covered=["add_lp1_term_onsite_fwd/bwd (not called by any wrapper)", "SDMX generator get_features/get_vxc at the Python level (libcint AO evaluation underneath)",
                                   "LCAOInterpolator.project_orb2grid_grad (nuclear-gradient path)"])


META = dict(
    explanation="clang LLVM IR of forward and backward C routines executed on symbolic vectors (structs read from the real library's memory); "
                "z3 decides the bilinear adjoint identity; interpreter validated against the compiled .so on concrete inputs",
    functions=['ciderpress/dft/grids_indexer.py: AtomicGridsIndexer.reduce_angc_ylm_ with strided views (angc_ylm_wrapper/*)', "ciderpress/lib/mod_cider/cider_grids.c: reduce_angc_to_ylm, reduce_ylm_to_angc (dgemm_ by reference-BLAS semantics)",
               "ciderpress/lib/mod_cider/convolutions.c: contract_rad_to_orb, contract_orb_to_rad, multiply_atc_integrals(fwd=1/0), multiply_atc_integrals_vk(fwd=1/0)",
               "ciderpress/lib/mod_cider/conv_interpolation.c: project_conv_to_spline, project_spline_to_conv, fill_l1_coeff_fwd, fill_l1_coeff_bwd (real Gaunt table from sph_harm_coeff.get_deriv_ylm_coeff)",
               "ciderpress/dft/plans.py: NLDFGaussianPlan._get_transformed_interpolation_terms (fwd/bwd, in place and copy)",
               "ciderpress/dft/lcao_interpolation.py: LCAOInterpolator.project_orb2grid / project_grid2orb and LCAOInterpolatorDirect.project_orb2grid / project_grid2orb (onsite_direct=True) "
               "with conv2spline, spline2conv, interpolate_fwd/bwd, _interpolate_nopar_atom, _call_l1_fill, _run_onsite_orb2grid, _run_onsite_lp1 as written; "
               "ciderpress/dft/lcao_convolutions.py: ATCBasis.convert_rad2orb_; ciderpress/dft/grids_indexer.py: AtomicGridsIndexer.reduce_angc_ylm_, empty_rlmq",
               "ciderpress/lib/mod_cider/conv_interpolation.c (behind those wrappers): compute_mol_convs_single_new, compute_pot_convs_single_new, add_lp1_term_fwd/bwd, add_lp1_onsite_new_fwd/bwd, "
               "project_conv_to_spline, project_spline_to_conv, fill_l1_coeff_fwd/bwd",
               "ciderpress/lib/mod_cider/fast_sdmx.c: SDMXcontract_ao_to_bas_l1 / _l1_bwd, SDMXcontract_ao_to_bas_grid / _grid_bwd, contract_shl_to_alpha_l1 / _bwd "
               "(all floating-point arguments symbolic; forward cells against their documented sums; SDMXcontract_ao_to_bas / _bwd here and in C02)"],
    bounds=dict(grid_link="2 atoms, lmax 1, (n0,n1) in {(1,1),(2,0)} quick + {(2,2),(1,2)} thorough, 6 spline shells, 5 free points / a hand-made atomic grid of 4 radial shells and 8 points "
                      "(pruned to 7, permuted, padding 0-2); coordinates, spline tables and the grid ordering are concrete",
            atoms=2, lmax=1, nalpha=2, radial_shells="2-5", angular_points="2-4 per shell", strides="stride > nalpha with offset 0/1", coef_order="gq, qg", threads="serial semantics (C10 covers threading)"),
    stubs=["dgemm_: reference BLAS (column major) over exact reals", "scipy cho_factor/cho_solve: exact symbolic solve (SPD assumed, 2x2)",
           "atc_basis_set / convolution_collection: built by the freshly compiled library through ATCBasis / ConvolutionCollection; only read",
           "grid link: compute_spline_maps, compute_num_spline_contribs_new, compute_spline_ind_order_new, compute_spline_bas_separate and the get_atco_* queries run in the compiled library "
           "(concrete set-up at fixed coordinates); their doubles enter the identity as exact rationals"],
    assumptions=["pairs listed in coverage.pairs_not_covered (SDMX contractions, the nuclear-gradient projection) are NOT covered",
                 "the interpolator's basis has l >= 1 shells on every atom (what aug_etb_for_cider produces); the scratch column `ig` of the l=1 terms is not part of either operator",
                 "float64 as exact reals: the identity is exact, stronger than 'to rounding error'"],
)
