"""C01 link L2 (plan level): NLDFAuxiliaryPlan.eval_rho_full / eval_vxc_full and everything they call
(eval_rho_vj_/eval_vxc_vj_, eval_rho_vi_/eval_vxc_vi_, get_function_to_convolve, eval_feat_exp,
get_cider_exponent(_gga), get_rho_tuple) are the real code; the interpolation coefficients p_q(a) of the C
kernels are a contract stub (dp = dp/da, proved on the C in C11/C02).  Oracle: for E = sum_i v_i feat_i,
eval_vxc_full returns vf = dE/df and adds dE/d(rho_data) to vrho_data."""
from fractions import Fraction

import numpy as np

from ..run import Task
from .. import stubs
from . import common


def make_plan(env, version, level, rho_mult, nspin, coef_order, nalpha=2, tag="P", raise_large=False):
    st, plans = env.m.settings, env.m.plans
    th = [1.0, 0.0, 0.03125] if level == "MGGA" else [1.0, 0.03125]
    fp = lambda a: ([a, 0.0, 0.04] if level == "MGGA" else [a, 0.04])
    if version == "j":
        s = st.NLDFSettingsVJ(level, th, rho_mult, ["se", "se_ar2"], [fp(2.0), fp(1.0)])
    elif version == "k":
        s = st.NLDFSettingsVK(level, th, rho_mult, [fp(2.0), fp(1.0)], "exponential")
    elif version == "i":
        s = st.NLDFSettingsVI(level, th, rho_mult, ["se_ap", "se"], ["se_grad", "se_rvec"], [(0, 0), (-1, 1), (0, 1)])
    else:
        s = st.NLDFSettingsVIJ(level, th, rho_mult, ["se_ap"], ["se_grad"], [(0, 0), (-1, 0)], ["se"], [fp(2.0)])
    # symbolic exponent parameters (constructor validation wants python floats: installed afterwards)
    if level == "MGGA":
        s.theta_params = [env.par("th_a0", "pos", hi="8"), env.par("th_gm", "pos", hi="8"), env.par("th_tm", "nonneg", hi="1/64")]
        s.feat_params = [[env.par("f%d_a0" % k, "pos", hi="8"), env.par("f%d_gm" % k, "pos", hi="8"), env.par("f%d_tm" % k, "nonneg", hi="1/64")]
                         for k in range(len(s.feat_params))]
    else:
        s.theta_params = [env.par("th_a0", "pos", hi="8"), env.par("th_gm", "pos", hi="8")]
        s.feat_params = [[env.par("f%d_a0" % k, "pos", hi="8"), env.par("f%d_gm" % k, "pos", hi="8")] for k in range(len(s.feat_params))]
    leaf = {}

    class StubPlan(plans.NLDFAuxiliaryPlan):
        def _run_setup(self):
            pass

        def _get_interpolation_arguments(self, rho_tuple, i=-1):
            return self.eval_feat_exp(rho_tuple, i=i)

        def _get_interpolation_coefficients(self, arg_g, i=-1, vbuf=None, dbuf=None):
            ng = arg_g.shape[0]
            # same buffer contract as the real routines: the results are views of vbuf / dbuf when those are given
            # (np.ndarray(shape, buffer=buf)), fresh arrays otherwise
            p = self.empty_coefs(ng, local=False, buf=vbuf) if vbuf is not None else env.zeros(self._get_coef_shape(ng, False))
            dp = self.empty_coefs(ng, local=False, buf=dbuf) if dbuf is not None else env.zeros(self._get_coef_shape(ng, False))
            for q in range(self.nalpha):
                f = leaf.setdefault((i, q), stubs.LeafFn(env, "%s_i%d_q%d" % (tag, i, q), 1))
                for g in range(ng):
                    idx = (g, q) if self.coef_order == "gq" else (q, g)
                    p[idx] = f.val([arg_g[g]])
                    dp[idx] = f.grad([arg_g[g]], 0)
            return p, dp

        def _get_transformed_interpolation_terms(self, p_xx, i=-1, fwd=True, inplace=False):
            return p_xx

    return StubPlan(s, nspin, 0.01, 2.0, nalpha, coef_order=coef_order, rhocut=1e-10, raise_large_expnt_error=raise_large), s


def plan_inputs(env, plan, s, ngrids=1, tag=""):
    nrho = 5 if s.sl_level == "MGGA" else 4
    nf = (0 if s.nldf_type == "i" else plan.nalpha) + plan.num_vi_ints
    f = env.arr(tag + "f", (nf, ngrids), lo="-8", hi="8")
    rho = env.arr(tag + "rho", (nrho, ngrids), lo="-8", hi="8")
    for g in range(ngrids):
        env.assume(rho[0, g] > env.const(Fraction(1, 10 ** 6)))
        if nrho == 5:
            env.assume(rho[4, g] >= 0)
    return f, rho


def run_fwd(plan, f, rho, spin=0):
    fin = f.copy() if plan.coef_order == "qg" else np.ascontiguousarray(f.T.copy())
    feat, dfeat = plan.eval_rho_full(fin, rho.copy(), spin=spin)
    return feat, dfeat


def h_l2(env, version, level, rho_mult, nspin, coef_order, ngrids=1, alias=False):
    plan, s = make_plan(env, version, level, rho_mult, nspin, coef_order)
    f, rho = plan_inputs(env, plan, s, ngrids)
    env.eps_zero()
    ok, out = env.attempt("eval_rho_full_returns", lambda: run_fwd(plan, f, rho))
    if not ok:
        return
    feat, dfeat = out
    nfeat = s.nfeat
    env.check("shapes", np.shape(feat) == (nfeat, ngrids), "%s" % (np.shape(feat),))
    v = env.arr("v", (nfeat, ngrids), lo="-8", hi="8")
    vr0 = env.arr("vr0", rho.shape, lo="-8", hi="8")
    vr = vr0.copy()
    vin = v.copy()
    ok, vf = env.attempt("eval_vxc_full_returns", lambda: plan.eval_vxc_full(vin, vr, dfeat, rho.copy(), spin=0))
    if not ok:
        return
    vf_qg = vf if coef_order == "qg" else vf.T
    for g in range(ngrids):
        ys = [feat[i, g] for i in range(nfeat)]
        sd = [v[i, g] for i in range(nfeat)]
        for q in range(f.shape[0]):
            env.vjp("vf_q%d_g%d" % (q, g), ys, sd, ("f", (q, g)), vf_qg[q, g])
        for c in range(rho.shape[0]):
            env.vjp("vrho_c%d_g%d" % (c, g), ys, sd, ("rho", (c, g)), vr[c, g] - vr0[c, g])
    # exponent-derivative output: dfeat[i] = d feat_i / d a_i  (per unit nspin, as eval_vxc_full consumes it)
    # aliasing (C09): the caller's potential array must not be modified
    if alias:
        for i in range(nfeat):
            env.equal("caller_vfeat_unchanged_%d" % i, vin[i, 0], v[i, 0])


def h_l2_spin(env, version, level, rho_mult, coef_order):
    """closed shell through the nspin=2 plan (f/2, rho/2 per channel) equals the nspin=1 plan"""
    p1, s1 = make_plan(env, version, level, rho_mult, 1, coef_order)
    p2, s2 = make_plan(env, version, level, rho_mult, 2, coef_order)
    f, rho = plan_inputs(env, p1, s1)
    env.eps_zero()
    a, da = run_fwd(p1, f, rho)
    scale = np.array([Fraction(1, 2)] * rho.shape[0], dtype=object)
    if not env.sym:
        scale = np.full(rho.shape[0], 0.5)
    b0, db0 = run_fwd(p2, f / 2, rho * scale[:, None], spin=0)
    b1, db1 = run_fwd(p2, f / 2, rho * scale[:, None], spin=1)
    for i in range(s1.nfeat):
        env.equal("feat%d_spin0_equals_unpolarised" % i, b0[i, 0], a[i, 0])
        env.equal("feat%d_spin1_equals_unpolarised" % i, b1[i, 0], a[i, 0])


CONFIGS_QUICK = [("j", "MGGA", "one", 1, "gq"), ("j", "MGGA", "expnt", 2, "qg"), ("i", "MGGA", "one", 2, "gq"), ("ij", "MGGA", "one", 1, "qg"),
                 ("k", "GGA", "one", 2, "gq"), ("i", "GGA", "expnt", 1, "qg")]


def tasks(tier):
    out = []
    cfgs = CONFIGS_QUICK if tier == "quick" else [(v, lv, rm, ns, co) for v in ("j", "i", "ij", "k") for lv in ("MGGA", "GGA") for rm in ("one", "expnt")
                                                   for ns in (1, 2) for co in ("gq", "qg")]
    for v, lv, rm, ns, co in cfgs:
        out.append(Task("L2/%s/%s/%s/nspin%d/%s" % (v, lv, rm, ns, co), h_l2, dict(version=v, level=lv, rho_mult=rm, nspin=ns, coef_order=co), mods="numint", max_paths=256))
    if tier == "thorough":
        out.append(Task("L2/ij/MGGA/one/nspin2/gq/2grids", h_l2, dict(version="ij", level="MGGA", rho_mult="one", nspin=2, coef_order="gq", ngrids=2), mods="numint", max_paths=512))
    return out


def spin_tasks(tier):
    out = []
    cfgs = [("j", "MGGA", "one", "gq"), ("i", "MGGA", "one", "qg"), ("ij", "GGA", "one", "gq")]
    if tier == "thorough":
        cfgs = [(v, lv, rm, co) for v in ("j", "i", "ij", "k") for lv in ("MGGA", "GGA") for rm in ("one", "expnt") for co in ("gq", "qg")]
    for v, lv, rm, co in cfgs:
        out.append(Task("plan_closed_shell/%s/%s/%s/%s" % (v, lv, rm, co), h_l2_spin, dict(version=v, level=lv, rho_mult=rm, coef_order=co), mods="numint", max_paths=256))
    return out
