"""C07 - spin-polarised and unpolarised evaluations agree; spin labels are symmetric.

Leaf level: the length-scale exponents and the semilocal plan.  Composite level: the real
eval_xc_cider chain (l1 harness) run symbolically twice and compared term by term:
closed shell through the nspin=2 path == nspin=1 path (energy density, per-channel potentials), swap
symmetry, and the separable identity E[a,b] = (E[2a] + E[2b]) / 2 for SEP models."""
from fractions import Fraction

import numpy as np

from ..run import Task
from . import common, l1

PROP_ID = "C07"
sym_mods = common.sym_mods
real_mods = common.real_mods
replay = common.generic_replay


def h_exponent(env, level):
    st = env.m.settings
    rho, sig, tau = env.arr("rho", (1,), "pos"), env.arr("sig", (1,), "nonneg"), env.arr("tau", (1,), "nonneg")
    a0, gm, tm = env.par("a0", "pos"), env.par("gm", "pos"), env.par("tm", "nonneg")
    rc = env.par("rhocut", "nonneg", hi="1/1000")
    env.eps_zero()
    if level == "MGGA":
        A = st.get_cider_exponent(rho.copy(), sig.copy(), tau.copy(), a0=a0, grad_mul=gm, tau_mul=tm, rhocut=rc, nspin=1)
        B = st.get_cider_exponent(rho / 2, sig / 4, tau / 2, a0=a0, grad_mul=gm, tau_mul=tm, rhocut=rc / 2, nspin=2)
        facs = [1, 2, 4, 2]
    else:
        A = st.get_cider_exponent_gga(rho.copy(), sig.copy(), a0=a0, grad_mul=gm, rhocut=rc, nspin=1)
        B = st.get_cider_exponent_gga(rho / 2, sig / 4, a0=a0, grad_mul=gm, rhocut=rc / 2, nspin=2)
        facs = [1, 2, 4]
    for nm, f, a, b in zip(["a", "da_drho", "da_dsigma", "da_dtau"], facs, A, B):
        env.equal("%s_spin_consistent" % nm, b[0], a[0] * f)


def h_slplan(env, mode):
    st, plans = env.m.settings, env.m.plans
    rho = env.arr("rho", (1, 5, 1))
    env.assume(rho[0, 0, 0] >= 0)
    env.assume(rho[0, 4, 0] >= 0)
    vf = env.arr("vf", (3, 1))
    env.eps_zero()
    sl = st.SemilocalSettings(mode)
    p1, p2 = plans.SemilocalPlan(sl, 1), plans.SemilocalPlan(sl, 2)
    f1 = p1.get_feat(rho.copy())
    r2 = np.concatenate([rho / 2, rho / 2], axis=0)
    f2 = p2.get_feat(r2.copy())
    for i in range(sl.nfeat):
        for s in range(2):
            env.equal("feat%d_spin%d" % (i, s), f2[s, i, 0], f1[0, i, 0])
    v1 = p1.get_vxc(rho.copy(), vf[None, :sl.nfeat].copy())
    v2 = p2.get_vxc(r2.copy(), np.stack([vf[:sl.nfeat] / 2, vf[:sl.nfeat] / 2]))
    for c in range(5):
        for s in range(2):
            env.equal("vxc%d_spin%d" % (c, s), v2[s, c, 0], v1[0, c, 0])


def _run(env, fs_args, nspin, mode, version, rho, nldf, sdmx, xmix, rc):
    fs = l1.build_settings(env, *fs_args)
    ni = l1.make_numint(env, fs, nspin, mode, version, xmix=xmix, rhocut=rc, mul="GGA_X_PBE", add=(True if version == 1 else None))
    return l1.call(env, ni, rho, nldf, sdmx, nspin)


def h_closed_shell(env, slmode, mode, version, layout):
    fs = l1.build_settings(env, slmode, layout)
    rho1, nldf1, sdmx1 = l1.inputs(env, fs, 1, physical=True)
    xmix = env.par("xmix", "real", lo="-2", hi="2")
    rc = env.const(Fraction(1, 10 ** 9))
    env.eps_zero()
    rho2 = np.concatenate([rho1 / 2, rho1 / 2], axis=0)
    nldf2 = None if nldf1 is None else np.concatenate([nldf1, nldf1], axis=0)
    sdmx2 = None if sdmx1 is None else np.concatenate([sdmx1, sdmx1], axis=0)
    e1, v1, n1, s1 = _run(env, (slmode, layout), 1, mode, version, rho1, nldf1, sdmx1, xmix, rc)
    e2, v2, n2, s2 = _run(env, (slmode, layout), 2, mode, version, rho2, nldf2, sdmx2, xmix, rc)
    env.equal("energy_density", e2[0], e1[0])
    for s in range(2):
        for c in range(5):
            env.equal("vxc_s%d_c%d_equals_unpolarised" % (s, c), v2[s, c, 0], v1[0, c, 0])
        if n1 is not None:
            for i in range(n1.shape[1]):
                env.equal("vxc_nldf_s%d_f%d_is_half_unpolarised" % (s, i), 2 * n2[s, i, 0], n1[0, i, 0])
        if s1 is not None:
            for i in range(s1.shape[1]):
                env.equal("vxc_sdmx_s%d_f%d_is_half_unpolarised" % (s, i), 2 * s2[s, i, 0], s1[0, i, 0])


def h_swap(env, slmode, mode, version, layout):
    fs = l1.build_settings(env, slmode, layout)
    rho, nldf, sdmx = l1.inputs(env, fs, 2, physical=True)
    xmix = env.par("xmix", "real", lo="-2", hi="2")
    rc = env.const(Fraction(1, 10 ** 9))
    env.eps_zero()
    sw = lambda a: None if a is None else a[::-1].copy()
    eA, vA, nA, sA = _run(env, (slmode, layout), 2, mode, version, rho, nldf, sdmx, xmix, rc)
    eB, vB, nB, sB = _run(env, (slmode, layout), 2, mode, version, sw(rho), sw(nldf), sw(sdmx), xmix, rc)
    env.equal("energy_density_swap_invariant", eB[0], eA[0])
    for s in range(2):
        for c in range(5):
            env.equal("vxc_s%d_c%d_swaps" % (s, c), vB[1 - s, c, 0], vA[s, c, 0])
        if nA is not None:
            for i in range(nA.shape[1]):
                env.equal("vxc_nldf_s%d_f%d_swaps" % (s, i), nB[1 - s, i, 0], nA[s, i, 0])


def h_separable(env, slmode, version, layout):
    """E[n_up, n_dn] = (E[2 n_up] + E[2 n_dn]) / 2 for SEP models (energy per volume = exc * n)"""
    fs = l1.build_settings(env, slmode, layout)
    rho, nldf, sdmx = l1.inputs(env, fs, 2, physical=True)
    xmix = env.par("xmix", "real", lo="-2", hi="2")
    rc = env.const(Fraction(1, 10 ** 9))
    env.eps_zero()
    e2, v2, n2, s2 = _run(env, (slmode, layout), 2, "SEP", version, rho, nldf, sdmx, xmix, rc)
    tot = e2[0] * (rho[0, 0, 0] + rho[1, 0, 0])
    acc = env.const(0)
    for s in range(2):
        r1 = (2 * rho[s:s + 1]).copy()
        e1, v1, n1, s1 = _run(env, (slmode, layout), 1, "SEP", version, r1, None if nldf is None else nldf[s:s + 1].copy(),
                              None if sdmx is None else sdmx[s:s + 1].copy(), xmix, rc)
        acc = acc + e1[0] * r1[0, 0, 0] / 2
        for c in range(5):
            env.equal("vxc_s%d_c%d_is_unpolarised_potential_of_2n_s" % (s, c), v2[s, c, 0], v1[0, c, 0])
    env.equal("E[a,b]=(E[2a]+E[2b])/2", tot, acc)


def h_swap_plan(env, version):
    """spin-label exchange at the NLDF plan level in the call order the drivers use (both forward passes, then both potential passes,
    on ONE plan object): exchanging which channel carries which density exchanges features and potentials"""
    from . import c01_l2
    s = None
    f, rho, f2, rho2 = None, None, None, None
    res = []
    for run in range(2):
        plan, s = c01_l2.make_plan(env, version, "MGGA", "one", 2, "gq")
        if f is None:
            f, rho = c01_l2.plan_inputs(env, plan, s)
            f2, rho2 = c01_l2.plan_inputs(env, plan, s, tag="b_")
            env.eps_zero()
            v = env.arr("v", (s.nfeat, 1), lo="-8", hi="8")
            w = env.arr("w", (s.nfeat, 1), lo="-8", hi="8")
        chan = [(f, rho, v), (f2, rho2, w)] if run == 0 else [(f2, rho2, w), (f, rho, v)]
        fwd = [c01_l2.run_fwd(plan, chan[sp][0], chan[sp][1], spin=sp) for sp in range(2)]
        out = []
        for sp in range(2):
            r = chan[sp][1]
            vr = env.zeros(r.shape)
            vf = plan.eval_vxc_full(chan[sp][2].copy(), vr, fwd[sp][1], r.copy(), spin=sp)
            out.append((list(np.asarray(fwd[sp][0], dtype=object if env.sym else float).ravel()),
                        list(np.asarray(vf, dtype=object if env.sym else float).ravel()) + list(np.asarray(vr, dtype=object if env.sym else float).ravel())))
        res.append(out)
    for sp in range(2):
        for k, (a, b) in enumerate(zip(res[1][sp][0], res[0][1 - sp][0])):
            env.equal("features_follow_the_density_spin%d_%d" % (sp, k), a, b)
        for k, (a, b) in enumerate(zip(res[1][sp][1], res[0][1 - sp][1])):
            env.equal("potentials_follow_the_density_spin%d_%d" % (sp, k), a, b)


def tasks(tier):
    out = [Task("exponent/%s" % lv, h_exponent, dict(level=lv)) for lv in ("MGGA", "GGA")]
    for mode in ("npa", "nst", "np", "ns"):
        out.append(Task("slplan/%s" % mode, h_slplan, dict(mode=mode), max_paths=256))
    cfgs = [("npa", "SEP", 1, "sl+nldf"), ("npa", "NPOL", 1, "sl+nldf"), ("npa", "POL", 1, "sl"), ("nst", "SEP", 2, "sl+sdmx"), ("np", "NPOL", 1, "sl")]
    if tier == "thorough":
        cfgs = [(sm, m, v, lay) for sm in ("npa", "nst", "np", "ns") for m in ("SEP", "NPOL", "POL") for v in (1, 2)
                for lay in ("sl", "sl+nldf", "sl+sdmx", "sl+nldf+sdmx") if not (v == 2 and m != "SEP")]
    for sm, m, v, lay in cfgs:
        out.append(Task("closed_shell/%s/%s/v%d/%s" % (sm, m, v, lay), h_closed_shell, dict(slmode=sm, mode=m, version=v, layout=lay), mods="numint", max_paths=256))
        out.append(Task("swap/%s/%s/v%d/%s" % (sm, m, v, lay), h_swap, dict(slmode=sm, mode=m, version=v, layout=lay), mods="numint", max_paths=256))
        if m == "SEP":
            out.append(Task("separable/%s/v%d/%s" % (sm, v, lay), h_separable, dict(slmode=sm, version=v, layout=lay), mods="numint", max_paths=256))
    from . import c01_l2
    out += c01_l2.spin_tasks(tier)
    return out + _plan_tasks(tier)


def h_swap_spin_kernel(env, raw=False, n=1, nctrl=2, nf=2):
    """spin-label exchange at the spin-polarised kernel evaluators: SpinRBFEvaluator.__call__ -> evaluate_se_kernel_spin (interpreted from
    model_utils.c) gives the same value for (X_a, X_b) and (X_b, X_a), and the gradient rows follow the labels; raw = True calls
    evaluate_se_kernel_spin_v2 (interleaved layout) directly.  The control points, weights and length scales are symbolic and are not
    exchanged: the symmetry is the kernel's, k((a,b),(c,d)) = k((b,a),(c,d))"""
    from . import c11
    if raw:
        outs = []
        for tag in ("ab", "ba"):
            e2 = env
            X = env.arr("X", (n, 2, nf), lo="-4", hi="4")
            Xc = env.arr("Xc", (nctrl, 2, nf), lo="-4", hi="4")
            al = env.arr("alpha", (nctrl,), lo="-4", hi="4")
            ex = env.arr("e", (nf,), "pos", lo="1/8", hi="8")
            Xin = X.copy() if tag == "ab" else X[:, ::-1].copy()
            out, outd = env.zeros((n,)), env.zeros((n, 2, nf))
            if env.sym:
                from ..llsym import bridge
                from ..llsym.interp import Obj, Ptr
                it = bridge.new_interp(c11.CFILE)
                mk = lambda nm, a: Ptr(Obj(nm, bridge._Flat(a), 8), 0)
                it.call("evaluate_se_kernel_spin_v2", [mk("out", out), mk("outd", outd), mk("xin", Xin), mk("xctrl", Xc.copy()), mk("actrl", al.copy()), mk("exps", ex.copy()), n, nctrl, nf])
            else:
                import ctypes
                from .. import replaylibs
                lib = np.ctypeslib.load_library("libmcider", replaylibs.ensure())
                pp = lambda a: a.ctypes.data_as(ctypes.c_void_p)
                Xa, Xca, ala, exa = [np.ascontiguousarray(a, dtype=float) for a in (Xin, Xc, al, ex)]
                lib.evaluate_se_kernel_spin_v2(pp(out), pp(outd), pp(Xa), pp(Xca), pp(ala), pp(exa), ctypes.c_int(n), ctypes.c_int(nctrl), ctypes.c_int(nf))
            outs.append((out, outd))
        (r0, d0), (r1, d1) = outs
        for g in range(n):
            env.equal("value_unchanged_by_label_exchange_%d" % g, r0[g], r1[g])
            for sp in range(2):
                for j in range(nf):
                    env.equal("gradient_follows_labels_s%d_%d_%d" % (sp, g, j), d0[g, sp, j], d1[g, 1 - sp, j])
        return
    xe, K = env.m.xc_evaluator, env.m.kernels
    X1 = env.arr("X1", (2, n, nf), lo="-4", hi="4")
    Xc = env.arr("Xc", (2, nctrl, nf), lo="-4", hi="4")
    al = env.arr("alpha", (nctrl,), lo="-4", hi="4")
    ls = env.arr("l", (nf,), "pos", lo="1/8", hi="8")
    c = env.par("c", "pos", hi="8")
    kern = K.DiffConstantKernel(c) * K.DiffRBF(length_scale=ls.copy())
    ev = xe.SpinRBFEvaluator(kern, Xc.copy(), al.copy())
    r0, d0 = env.zeros((n,)), env.zeros((2, n, nf))
    r1, d1 = env.zeros((n,)), env.zeros((2, n, nf))
    ev(X1.copy(), r0, d0)
    ev(X1[::-1].copy(), r1, d1)
    for g in range(n):
        env.equal("value_unchanged_by_label_exchange_%d" % g, r0[g], r1[g])
        for sp in range(2):
            for j in range(nf):
                env.equal("gradient_follows_labels_s%d_%d_%d" % (sp, g, j), d0[sp, g, j], d1[1 - sp, g, j])


def h_swap_driver(env, kind="uks"):
    """spin-label exchange at the PySCF driver: the real nr_uks (nr_uks_nldf) on (D_a, D_b) and on (D_b, D_a), symbolic symmetric density
    matrices (any pair, in particular nearly equal ones): same energy, electron counts and XC matrices exchanged.  Stubs as in C01-L5, with
    the functional stub made label-symmetric, F(a, b) = (L(a, b) + L(b, a)) / 2 for the uninterpreted leaf L (what C07 decides at the
    eval_xc_cider level for the real functional)."""
    from . import c01_l5
    numint = env.m.numint
    nldf = kind.endswith("nldf")
    mol, Grids, NI = c01_l5.make_world(env, 2, "MGGA", nldf, spin_symmetric=True)
    with c01_l5._Patch(numint, c01_l5._patches(env)):
        da, db = c01_l5.sym_dm(env, "dma"), c01_l5.sym_dm(env, "dmb")
        fn = numint.nr_uks_nldf if nldf else numint.nr_uks
        ok, out = env.attempt("returns", lambda: fn(NI(), mol, Grids(), "PBE", (da.copy(), db.copy())))
        if not ok:
            return
        n1, e1, v1 = out
        n2, e2, v2 = fn(NI(), mol, Grids(), "PBE", (db.copy(), da.copy()))
    env.equal("energy_unchanged_by_label_exchange", e2, e1)
    for sp in range(2):
        env.equal("electron_count_follows_labels_%d" % sp, n2[1 - sp], n1[sp])
        for i in range(c01_l5.NAO):
            for j in range(c01_l5.NAO):
                env.equal("xc_matrix_follows_labels_s%d_%d%d" % (sp, i, j), v2[1 - sp][i, j], v1[sp][i, j])


def _plan_tasks(tier):
    out = _plan_tasks0(tier)
    for kind in ("uks",) + (("uks_nldf",) if tier == "thorough" else ()):
        out.append(Task("swap/driver/nr_%s" % kind, h_swap_driver, dict(kind=kind), mods="numint", max_paths=64))
    for nf, nctrl in ((1, 1),) + (((2, 2),) if tier == "thorough" else ()):
        out.append(Task("swap/spin_kernel/SpinRBFEvaluator/nf%d_nctrl%d" % (nf, nctrl), h_swap_spin_kernel, dict(raw=False, nf=nf, nctrl=nctrl), mods="kernels", max_paths=64))
        out.append(Task("swap/spin_kernel/evaluate_se_kernel_spin_v2/nf%d_nctrl%d" % (nf, nctrl), h_swap_spin_kernel, dict(raw=True, nf=nf, nctrl=nctrl), mods="kernels", max_paths=64))
    return out


def _plan_tasks0(tier):
    return [Task("swap/plan/%s" % v, h_swap_plan, dict(version=v), mods="numint", max_paths=256) for v in (("j", "i", "ij", "k") if tier == "thorough" else ("j", "ij"))]


def prepare(tier):
    m = sym_mods()
    m.td, m.fn, m.settings, m.plans, m.baselines, m.xc_evaluator, m.xc_evaluator2, m.numint
    from . import c11
    mk = sym_mods("kernels")
    mk.kernels, mk.xc_evaluator
    c11._install()


META = dict(
    explanation="the real exponent / plan / eval_xc_cider code is executed symbolically for the polarised and the unpolarised "
                "call and z3 decides term-by-term equality (closed shell, spin swap, separable identity)",
    functions=['ciderpress/dft/xc_evaluator.py: SpinRBFEvaluator.__call__ + ciderpress/lib/mod_cider/model_utils.c (clang IR): evaluate_se_kernel_spin, evaluate_se_kernel_spin_v2 under exchange of the spin labels (swap/spin_kernel/*; nf = nctrl = 1 quick, 2 thorough)', 'ciderpress/dft/plans.py: NLDFAuxiliaryPlan.eval_rho_full / eval_vxc_full on one plan object in the order F0 F1 P0 P1 with the channels exchanged (swap/plan/*)', "ciderpress/dft/settings.py: get_cider_exponent(_gga), get_s2, ds2, get_alpha, dalpha", "ciderpress/dft/plans.py: SemilocalPlan.get_feat/get_vxc",
               "ciderpress/pyscf/numint.py: CiderNumIntMixin.eval_xc_cider", "ciderpress/dft/xc_evaluator(2).py: MappedXC(2), MappedDFTKernel(2), KernelEvalBase(2)"],
    bounds=dict(grid_points=1, region="rho > 1e-6 per channel, tau > tau_W (composites); whole non-negative domain incl. both sides of rhocut (exponent leaf)",
                nonlocal_inputs="per-channel raw non-local features of a closed shell equal the unpolarised ones (generator nspin factors: C01-L2/L3)"),
    stubs=["as C01-L1; native baseline stubs carry the spin-average contract of _sl_x_helper; MappedXC2 is compared in SEP mode only "
           "(NPOL/POL would need libxc's own spin consistency, which is trusted, not decidable for an uninterpreted functional)"],
    assumptions=["fractional-Laplacian layouts are excluded (their per-spin scaling is fixed inside the orbital generators)"],
)
