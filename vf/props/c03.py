"""C03 - declared uniform-scaling powers hold; normalised features are scale invariant (Python layer).

Substitute rho -> l^3 rho, sigma -> l^8 sigma, tau -> l^5 tau (l > 0 symbolic) and, for non-local raw
features, F -> l^u F with u the power the settings object declares; z3 decides the homogeneity
identities on the real code.  Fractional powers of the positive symbols combine exactly in the
normal form (vf.poly), so no substitution trick for l is needed."""
from fractions import Fraction

import numpy as np

from ..run import Task
from . import common
from .c12 import _mk_norm

PROP_ID = "C03"
sym_mods = common.sym_mods
real_mods = common.real_mods
replay = common.generic_replay


def _lam(env):
    return env.par("lam", "pos", lo="1/8", hi="8")


def _pw(env, base, ex):
    """base ** ex for a python/Fraction/symbolic exponent in both modes"""
    if env.sym:
        from ..sym import S, lift
        from .. import dag
        return S(dag.gpow(lift(base), lift(ex)))
    return float(base) ** float(ex)


def h_exponent(env, level, nspin):
    st = env.m.settings
    lam = _lam(env)
    rho, sig, tau = env.arr("rho", (1,), "pos"), env.arr("sig", (1,), "nonneg"), env.arr("tau", (1,), "nonneg")
    a0, gm, tm = env.par("a0", "pos"), env.par("gm", "pos"), env.par("tm", "nonneg")
    rc = env.const(Fraction(1, 10 ** 10))
    # the scaling claim is for points where both the density and the scaled density are above the cutoff
    env.assume(rho[0] > rc)
    env.assume(lam ** 3 * rho[0] > rc)
    env.eps_zero()
    if level == "MGGA":
        A = st.get_cider_exponent(rho.copy(), sig.copy(), tau.copy(), a0=a0, grad_mul=gm, tau_mul=tm, rhocut=rc, nspin=nspin)
        B = st.get_cider_exponent(rho * lam ** 3, sig * lam ** 8, tau * lam ** 5, a0=a0, grad_mul=gm, tau_mul=tm, rhocut=rc, nspin=nspin)
        pows = [2, -1, -6, -3]
        names = ["a", "da_drho", "da_dsigma", "da_dtau"]
    else:
        A = st.get_cider_exponent_gga(rho.copy(), sig.copy(), a0=a0, grad_mul=gm, rhocut=rc, nspin=nspin)
        B = st.get_cider_exponent_gga(rho * lam ** 3, sig * lam ** 8, a0=a0, grad_mul=gm, rhocut=rc, nspin=nspin)
        pows = [2, -1, -6]
        names = ["a", "da_drho", "da_dsigma"]
    for nm, p, a, b in zip(names, pows, A, B):
        env.equal("%s_scales_as_lam^%d" % (nm, p), b[0], a[0] * lam ** p)


def h_semilocal(env, mode, nspin):
    st, plans = env.m.settings, env.m.plans
    lam = _lam(env)
    rho = env.arr("rho", (nspin, 5, 1))
    for s in range(nspin):
        env.assume(rho[s, 0, 0] > env.const(Fraction(1, 10 ** 6)))
        env.assume(rho[s, 0, 0] * lam ** 3 > env.const(Fraction(1, 10 ** 6)))
        env.assume(rho[s, 4, 0] >= 0)
        # tau >= tau_W (von Weizsaecker bound): the alpha clamp max(tau - tauw, 0) is inactive
        g2 = rho[s, 1, 0] ** 2 + rho[s, 2, 0] ** 2 + rho[s, 3, 0] ** 2
        env.assume(8 * rho[s, 0, 0] * rho[s, 4, 0] >= g2)
    env.eps_zero()
    sl = st.SemilocalSettings(mode)
    plan = plans.SemilocalPlan(sl, nspin)
    sc = np.array([lam ** 3, lam ** 4, lam ** 4, lam ** 4, lam ** 5], dtype=object if env.sym else float)
    f0 = plan.get_feat(rho.copy())
    f1 = plan.get_feat(rho * sc[None, :, None])
    usps = sl.get_feat_usps()
    env.check("usp_length", len(usps) == sl.nfeat == f0.shape[1])
    for s in range(nspin):
        for i in range(sl.nfeat):
            env.equal("feat%d_spin%d_power_%s" % (i, s, usps[i]), f1[s, i, 0], f0[s, i, 0] * lam ** usps[i])


def h_normalizer(env, cls):
    fn = env.m.fn
    lam = _lam(env)
    x, rho, inh = env.arr("x", (1,)), env.arr("rho", (1,), "pos"), env.arr("inh", (1,), "nonneg")
    u = env.par("u", "real", lo="-4", hi="8")
    env.eps_zero()
    n = _mk_norm(env, fn, cls)
    a = n.fill_fwd(x.copy(), rho.copy(), inh.copy())
    lu = _pw(env, lam, u)
    b = n.fill_fwd(x * lu, rho * lam ** 3, inh.copy())
    env.equal("fill_fwd_power_is_u_plus_get_usp", b[0], a[0] * lu * _pw(env, lam, n.get_usp()))


def h_inh_invariant(env, slmode):
    fn = env.m.fn
    lam = _lam(env)
    X = env.arr("X", (1, 3, 1), "nonneg")
    env.assume(X[0, 0, 0] > env.const(Fraction(1, 10 ** 10)))
    env.assume(X[0, 0, 0] * lam ** 3 > env.const(Fraction(1, 10 ** 10)))
    env.eps_zero()
    nl = fn.FeatNormalizerList([None, None, None], slmode)
    usps = {"npa": [3, 0, 0], "nst": [3, 8, 5], "np": [3, 0, 0], "ns": [3, 8, 5]}[slmode]
    Xs = X.copy()
    for i in range(3):
        Xs[0, i, 0] = X[0, i, 0] * lam ** usps[i]
    r0, i0 = nl._get_rho_and_inh(X.copy())
    r1, i1 = nl._get_rho_and_inh(Xs)
    env.equal("rho_term_scales_lam^3", r1[0, 0], r0[0, 0] * lam ** 3)
    env.equal("inh_term_scale_invariant", i1[0, 0], i0[0, 0])


def _settings(st, kind):
    th = [1.0, 0.0, 0.03125]
    if kind.endswith("_tau0"):
        # a purely density-dependent length scale: no gradient and no kinetic-energy term in the theta exponent
        sub, slot = _settings(st, kind[:-5])
        sub.theta_params = [1.0, 0.0, 0.0] if len(sub.theta_params) == 3 else [1.0, 0.0]
        return sub, slot
    if kind == "vj":
        return st.NLDFSettingsVJ("MGGA", th, "one", ["se", "se_ar2", "se_a2r4"], [[2.0, 0.0, 0.04], [1.0, 0.0, 0.03], [0.5, 0.0, 0.02]]), "nldf"
    if kind == "vj_expnt":
        return st.NLDFSettingsVJ("MGGA", th, "expnt", ["se", "se_ar2"], [[2.0, 0.0, 0.04], [1.0, 0.0, 0.03]]), "nldf"
    if kind == "vj_gga":
        return st.NLDFSettingsVJ("GGA", [1.0, 0.03125], "one", ["se", "se_ar2"], [[2.0, 0.04], [1.0, 0.03]]), "nldf"
    if kind == "vi":
        return st.NLDFSettingsVI("MGGA", th, "one", ["se", "se_r2", "se_apr2", "se_ap", "se_ap2r2", "se_lapl"], ["se_grad", "se_rvec"],
                                 [(0, 0), (-1, 0)]), "nldf"
    if kind == "vij":
        return st.NLDFSettingsVIJ("MGGA", th, "one", ["se_ap"], ["se_grad"], [(0, 0)], ["se"], [[2.0, 0.0, 0.04]]), "nldf"
    if kind == "vk":
        return st.NLDFSettingsVK("MGGA", th, "one", [[2.0, 0.0, 0.04], [1.0, 0.0, 0.03]], "exponential"), "nldf"
    if kind == "fl":
        return st.FracLaplSettings([0.0, 0.5, 1.0], 3, 1, [(-1, 0), (0, 0)]), "nlof"
    if kind == "fl_d":
        return st.FracLaplSettings([0.0, 0.5, 1.0], 2, 1, [(0, 0)], nd1=2, ld_dots=[(1, 1), (-1, 0)], ndd=2), "nlof"
    if kind == "fl_d3":     # more l=1 contractions than l=1 vectors (len(l1_dots) != nk1), then derivative contractions
        return st.FracLaplSettings([-0.5, 0.5, 1.0], 2, 2, [(0, 0), (0, 1), (-1, 1)], nd1=2, ld_dots=[(0, 1), (-1, 0), (1, 1)], ndd=1), "nlof"
    if kind == "fl_d2":
        return st.FracLaplSettings([0.5, 1.0], 1, 0, [], nd1=1, ld_dots=[(0, 0)], ndd=1), "nlof"
    if kind == "sadm":
        return st.SADMSettings("smooth"), "sdmx"
    if kind == "sdmx":
        return st.SDMXSettings([0, 1, 2]), "sdmx"
    if kind == "sdmxg":
        return st.SDMXGSettings([0, 1, 2], 2), "sdmx"
    if kind == "sdmx1":
        return st.SDMX1Settings([0, 1, 2], 2), "sdmx"
    if kind == "sdmxg1":
        return st.SDMXG1Settings([0, 1, 2], 2, 1), "sdmx"
    if kind == "sdmxfull":
        return st.SDMXFullSettings({1.0: ([0, 1, 2], [3, 2, 1, 0]), 2.0: ([0, 1], [2, 0, 0, 0])}), "sdmx"
    raise ValueError(kind)


KINDS = ["vj_tau0", "vi_tau0", "vj_gga_tau0", "vj_expnt_tau0", "vj", "vj_expnt", "vj_gga", "vi", "vij", "vk", "fl", "fl_d", "fl_d2", "fl_d3", "sadm", "sdmx", "sdmxg", "sdmx1", "sdmxg1", "sdmxfull"]


def h_recommended(env, kind, slmode):
    """after assign_reasonable_normalizer() every non-local feature is scale invariant: decided by running the
    real normalisers forward on  F -> lam^u F  with u the *declared* raw power, not by reading the table"""
    st = env.m.settings
    lam = _lam(env)
    if kind == "vj_gga" and slmode in ("npa", "nst"):
        slmode = {"npa": "np", "nst": "ns"}[slmode]
    sub, slot = _settings(st, kind)
    sl = st.SemilocalSettings(slmode)
    fs = st.FeatureSettings(sl_settings=sl, **{slot + "_settings": sub})
    nsl = sl.nfeat
    X = env.arr("X", (1, fs.nfeat, 1), "pos")
    env.assume(X[0, 0, 0] > env.const(Fraction(1, 10 ** 10)))
    env.assume(X[0, 0, 0] * lam ** 3 > env.const(Fraction(1, 10 ** 10)))
    env.eps_zero()
    ok, _ = env.attempt("assign_reasonable_normalizer_returns", lambda: fs.assign_reasonable_normalizer())
    if not ok:
        return
    raw = list(fs.get_feat_usps())
    tot = list(fs.get_feat_usps(with_normalizers=True))
    env.check("lengths", len(raw) == len(tot) == fs.nfeat == fs.normalizers.nfeat, "%d %d %d" % (len(raw), len(tot), fs.nfeat))
    Xs = X.copy()
    for i in range(fs.nfeat):
        Xs[0, i, 0] = X[0, i, 0] * _pw(env, lam, raw[i])
    A = fs.normalizers.get_normalized_feature_vector(X.copy())
    B = fs.normalizers.get_normalized_feature_vector(Xs)
    for i in range(nsl, fs.nfeat):
        env.equal("nonlocal_feat%d_scale_invariant" % i, B[0, i, 0], A[0, i, 0])
        env.equal("declared_total_power_feat%d_is_zero" % i, tot[i], 0)
    for i in range(nsl):
        env.equal("sl_feat%d_power" % i, B[0, i, 0], A[0, i, 0] * _pw(env, lam, tot[i]))


def h_fraclapl_plan(env, kind):
    """raw fractional-Laplacian features: the real FracLaplPlan.get_feat on a symbolic ingredient vector whose rows are scaled by
    their physical powers (stated here from the documented definitions, not read from the code's tables: rho 3, each gradient +1, tau 5,
    (-Lapl)^s +2s, so F_s 3+2s, the vectors F_s^1 / F_s^d 4+2s, F_s^dd 5+2s) must scale by the powers get_feat_usps declares; get_rho_usps
    must list the row powers"""
    st, plans = env.m.settings, env.m.plans
    lam = _lam(env)
    sub, _ = _settings(st, kind)
    nsl = 5
    nrow = nsl + sub.nrho
    sl = [Fraction(x) for x in sub.slist]
    rowp = [3, 4, 4, 4, 5] + [3 + 2 * sl[i] for i in range(sub.nk0)] + [4 + 2 * sl[i] for i in range(sub.nk1) for _ in range(3)] \
        + [4 + 2 * sl[i] for i in range(sub.nd1) for _ in range(3)] + [5 + 2 * sl[i] for i in range(sub.ndd)]
    env.check("row_count", len(rowp) == nrow, "%d %d" % (len(rowp), nrow))
    R = env.arr("R", (1, nrow, 1), lo="-4", hi="4")
    Rs = R.copy()
    for i in range(nrow):
        Rs[0, i, 0] = R[0, i, 0] * _pw(env, lam, rowp[i])
    plan = plans.FracLaplPlan(sub, 1)
    A = plan.get_feat(R.copy())
    B = plan.get_feat(Rs)
    usps = list(sub.get_feat_usps())
    env.check("one_power_per_feature", len(usps) == sub.nfeat == A.shape[1], "%d %d" % (len(usps), sub.nfeat))
    for i in range(sub.nfeat):
        env.equal("feature_%d_scales_by_declared_power" % i, B[0, i, 0], A[0, i, 0] * _pw(env, lam, usps[i]))
    rp = list(sub.get_rho_usps())
    want = rowp[nsl:nsl + sub.nk0 + 3 * sub.nk1] + [4]
    env.check("get_rho_usps_lists_row_powers", len(rp) == len(want) and all(Fraction(a) == Fraction(b) for a, b in zip(rp, want)), "%s vs %s" % (rp, want))


# documented kernels (docs/features/nldf.rst): k(a, r) = a^p r^q exp(-a r^2) (q counts the vector factor too)
DOC_KERNEL = {
    "se": (0, 0), "se_r2": (0, 2), "se_apr2": (1, 2), "se_ap": (1, 0), "se_ap2r2": (2, 2),
    "se_grad": (1, 1), "se_rvec": (0, 1), "se_ar2": (1, 2), "se_a2r4": (2, 4),
}


def h_kernel_power(env, spec):
    """homogeneity of the documented kernel: with a -> lam^2 a and r -> r / lam (the substitution r' -> lam r'
    under n_lam(r') = lam^3 n(lam r') cancels the volume element), k scales as lam^SPEC_USPS[spec]"""
    st = env.m.settings
    lam = _lam(env)
    a, r = env.par("a", "pos"), env.par("r", "pos")

    def k(a_, r_):
        x = -a_ * r_ * r_
        ex = x.exp() if env.sym else np.exp(x)
        if spec == "se_lapl":
            return 4 * a_ ** 2 * r_ ** 2 * ex - 2 * a_ * ex
        p, q = DOC_KERNEL[spec]
        return a_ ** p * r_ ** q * ex
    env.equal("documented_kernel_power", k(lam ** 2 * a, r / lam), k(a, r) * lam ** st.SPEC_USPS[spec])


def h_misc_powers(env):
    st = env.m.settings
    env.check("grad_rho_power", st.SPEC_USPS["grad_rho"] == 4)
    env.check("rho_mult_powers", st.RHO_MULT_USPS == {"one": 0, "expnt": 2}, st.RHO_MULT_USPS)
    lam = _lam(env)
    s = env.par("s", "real", lo="-1/4", hi="1")
    env.equal("fraclapl_power", st.FracLaplSettings.get_usp(s), 3 + 2 * s)
    env.check("sdmx_powers", st.SDMXSettings([0, 1, 2]).get_feat_usps() == [3, 4, 5])


def h_lda_x(env, base):
    bl = env.m.baselines
    lam = _lam(env)
    X = env.arr("X", (1, 4, 1), "pos")
    env.eps_zero()
    Xs = X.copy()
    Xs[0, 0, 0] = X[0, 0, 0] * lam ** 3        # density feature; the others are scale invariant
    e0, _ = getattr(bl, base)(X.copy())
    e1, _ = getattr(bl, base)(Xs)
    env.equal("energy_density_scales_lam^4", e1[0], e0[0] * lam ** 4)


def h_convolved_function(env, version, rho_mult, level, plan_kind):
    """the function the NLDF features are convolutions of (NLDFAuxiliaryPlan.get_function_to_convolve, real code) scales as
    lambda^(3 + RHO_MULT_USPS[rho_mult]) under n -> lambda^3 n(lambda r), and its derivatives accordingly - whatever the plan's
    *interpolation argument* is (the exponent itself for the Gaussian plan, a knot index for the spline plan).  Symbolic run: the
    interpolation argument is an unknown differentiable function Q of the exponent (contract stub); concrete replay: a real
    NLDFSplinePlan / NLDFGaussianPlan from the freshly compiled library."""
    from . import c01_l2
    st = env.m.settings
    lam = _lam(env)
    nrho = 3 if level == "MGGA" else 2
    rho = env.arr("rho", (1, 1), "pos", lo="1/64", hi="64")
    sig = env.arr("sig", (1, 1), "nonneg", hi="64")
    tau = env.arr("tau", (1, 1), "nonneg", hi="64")
    env.eps_zero()
    if env.sym:
        from .. import stubs
        plan, s = c01_l2.make_plan(env, version, level, rho_mult, 1, "gq")
        if plan_kind == "spline":
            Q = stubs.LeafFn(env, "interp_index", 1)

            def gia(rho_tuple, i=-1):
                a, da = plan.eval_feat_exp(rho_tuple, i=i)
                q = a.copy()
                for idx in np.ndindex(*a.shape):
                    q[idx] = Q.val([a[idx]])
                    for d in da:
                        d[idx] = d[idx] * Q.grad([a[idx]], 0)
                return q, da
            plan._get_interpolation_arguments = gia
    else:
        plans = env.m.plans
        _, s0 = None, None
        th = [1.0, 0.0, 0.03125] if level == "MGGA" else [1.0, 0.03125]
        fp = lambda a: ([a, 0.0, 0.04] if level == "MGGA" else [a, 0.04])
        if version == "j":
            s = st.NLDFSettingsVJ(level, th, rho_mult, ["se", "se_ar2"], [fp(2.0), fp(1.0)])
        elif version == "k":
            s = st.NLDFSettingsVK(level, th, rho_mult, [fp(2.0), fp(1.0)], "exponential")
        else:
            s = st.NLDFSettingsVI(level, th, rho_mult, ["se_ap"], ["se_grad"], [(0, 0), (-1, 0)])
        cls = plans.NLDFSplinePlan if plan_kind == "spline" else plans.NLDFGaussianPlan
        plan = cls(s, 1, 0.001, 1.8, 40, coef_order="gq")
    tup = lambda r, g, t: (r.copy(), g.copy(), t.copy())[:nrho]
    ok, A = env.attempt("returns", lambda: plan.get_function_to_convolve(tup(rho, sig, tau)))
    if not ok:
        return
    B = plan.get_function_to_convolve(tup(rho * lam ** 3, sig * lam ** 8, tau * lam ** 5))
    usp = st.RHO_MULT_USPS[rho_mult]
    env.equal("function_scales_as_lam^%d" % (3 + usp), B[0][0, 0], A[0][0, 0] * lam ** (3 + usp))
    for k, (nm, pw) in enumerate(zip(("rho", "sigma", "tau")[:nrho], (3, 8, 5))):
        env.equal("d_d%s_scales_as_lam^%d" % (nm, 3 + usp - pw), B[1][k][0, 0], A[1][k][0, 0] * _pw(env, lam, 3 + usp - pw))
        env.deriv("d_d%s_is_the_derivative" % nm, A[0][0, 0], ({"rho": "rho", "sigma": "sig", "tau": "tau"}[nm], (0, 0)), A[1][k][0, 0])


def tasks(tier):
    out = []
    for level in ("MGGA", "GGA"):
        for nspin in (1, 2):
            out.append(Task("exponent/%s/nspin%d" % (level, nspin), h_exponent, dict(level=level, nspin=nspin)))
    for mode in ("nst", "npa", "ns", "np"):
        for nspin in ((1, 2) if tier == "thorough" else (1,)):
            out.append(Task("semilocal/%s/nspin%d" % (mode, nspin), h_semilocal, dict(mode=mode, nspin=nspin), max_paths=256))
        out.append(Task("inh/%s" % mode, h_inh_invariant, dict(slmode=mode)))
    for cls in ("ConstantNormalizer", "DensityNormalizer", "InhomogeneityNormalizer", "GeneralNormalizer"):
        out.append(Task("normalizer/%s" % cls, h_normalizer, dict(cls=cls)))
    for kind in KINDS:
        for slmode in (("npa", "nst") if tier == "thorough" else ("npa",)):
            out.append(Task("recommended/%s/%s" % (kind, slmode), h_recommended, dict(kind=kind, slmode=slmode)))
    for kind in ("fl", "fl_d", "fl_d2", "fl_d3"):
        out.append(Task("fraclapl_plan/%s" % kind, h_fraclapl_plan, dict(kind=kind)))
    for spec in list(DOC_KERNEL) + ["se_lapl"]:
        out.append(Task("kernel_power/%s" % spec, h_kernel_power, dict(spec=spec)))
    out.append(Task("misc_powers", h_misc_powers, {}))
    for version, rm, level, kind in [("j", "expnt", "MGGA", "spline"), ("j", "expnt", "GGA", "gaussian"), ("i", "expnt", "MGGA", "spline"), ("k", "one", "MGGA", "spline")] + \
            ([(v, rm, lv, kd) for v in ("j", "i", "k") for rm in ("one", "expnt") for lv in ("MGGA", "GGA") for kd in ("spline", "gaussian")] if tier == "thorough" else []):
        name = "convolved_function/%s/%s/%s/%s" % (kind, version, rm, level)
        if not any(t.name == name for t in out):
            out.append(Task(name, h_convolved_function, dict(version=version, rho_mult=rm, level=level, plan_kind=kind), mods="numint", max_paths=64))
    for base in ("lda_x", "gga_x_pbe", "gga_x_chachiyo", "nlda_x_damp"):
        out.append(Task("baseline_power/%s" % base, h_lda_x, dict(base=base)))
    return out


def prepare(tier):
    m = sym_mods()
    m.td, m.fn, m.settings, m.plans, m.baselines


META = dict(
    explanation="symbolic execution of the settings / plans / normalisers / baselines with a symbolic scaling factor; z3 decides "
                "F(scaled input) == lam^u F(input) with u the power the code itself declares",
    functions=["ciderpress/dft/plans.py: FracLaplPlan.get_feat + ciderpress/dft/settings.py: FracLaplSettings.get_feat_usps / get_rho_usps (fraclapl_plan/*)", "ciderpress/dft/plans.py: NLDFAuxiliaryPlan.get_function_to_convolve (convolved_function/*)", "ciderpress/dft/settings.py: get_cider_exponent(_gga), get_s2, get_alpha, *Settings.get_feat_usps/get_reasonable_normalizer, FeatureSettings.assign_reasonable_normalizer/get_feat_usps, SPEC_USPS, RHO_MULT_USPS",
               "ciderpress/dft/plans.py: SemilocalPlan.get_feat", "ciderpress/dft/feat_normalizer.py: *.fill_fwd/get_usp, FeatNormalizerList._get_rho_and_inh/get_normalized_feature_vector, get_normalizer_from_exponent_params",
               "ciderpress/dft/baselines.py: lda_x, gga_x_pbe, gga_x_chachiyo, nlda_x_damp"],
    bounds=dict(lam="(1/8, 8) symbolic", sample_points=1, densities="symbolic, above the cutoffs on both sides of the scaling, tau >= tau_W",
                settings="13 settings configurations (all NLDF versions, GGA/MGGA, rho_mult, fractional Laplacian, 6 SDMX variants)"),
    stubs=["load_library -> FakeLib"],
    assumptions=["that the C pipeline's raw features actually have the declared power is outside (needs a scaled molecule end to end)",
                 "documented kernels transcribed from docs/features/nldf.rst"],
)
