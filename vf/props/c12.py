"""C12 - feature transforms and normalisers: derivative routines match value routines.

Leaves (real formulas, everything symbolic): every class registered in transform_data.ALL_CLASSES,
every FeatNormalizer subclass.  Composites: FeatureList (two maps sharing raw features, additivity),
FeatNormalizerList in the four slmodes (reverse mode = J^T, forward mode = J., both sides of cutoff).
"""
import inspect
import itertools
from fractions import Fraction

import numpy as np

from ..run import Task
from . import common

PROP_ID = "C12"
sym_mods = common.sym_mods
real_mods = common.real_mods
replay = common.generic_replay

# per-class domain of each *index role* ('nonneg' = density-like raw feature, 'real' = signed)
# and upper bounds where the class clips; parameters are > 0 unless listed in REAL_PARAMS.
ROLE_DOM = {
    "LMap": {"i": "real"},
    "V4Map": {"i": "real", "j": "real"},
    "WMap": {"k": "real"}, "XMap": {"k": "real"}, "YMap": {"l": "real"},
    "ZMap": {"i": "real"}, "EMap": {"i": "real"}, "SignedUMap": {"i": "real"},
}
REAL_PARAMS = {"scale", "center"}
# OmegaMap clips s2/alpha to [-1e10, 1e10]; the admissible (physical) domain is 0 <= s2, alpha <= 1e10
ROLE_HI = {"OmegaMap": {"i_s": "1e10", "i_alpha": "1e10"}}
MAXPATHS = {"OmegaMap": 600}


def map_spec(cls):
    """(index argument names, parameter names) from the constructor signature"""
    sig = inspect.signature(cls.__init__)
    idx, par = [], []
    for n, p in list(sig.parameters.items())[1:]:
        if n == "bounds":
            continue
        if n in ("i", "j", "k", "l") or n.startswith("i_"):
            idx.append(n)
        else:
            par.append(n)
    return idx, par


def h_map(env, cls, assign, nx, npts=1):
    """leaf: fill_deriv_ adds exactly dfdy * dy/dx_r to row r (and nothing to other rows), starting
    from a non-zero dfdx (additivity)"""
    td = env.m.td
    C = getattr(td, cls)
    idxn, parn = map_spec(C)
    x = env.arr("x", (nx, npts))
    ps = [env.par(p, "real" if p in REAL_PARAMS else "pos") for p in parn]
    roles = ROLE_DOM.get(cls, {})
    his = ROLE_HI.get(cls, {})
    for n_, r in zip(idxn, assign):
        for g in range(npts):
            if roles.get(n_, "nonneg") == "nonneg":
                env.assume(x[r, g] >= 0)
            if n_ in his:
                env.assume(x[r, g] <= env.const(Fraction(his[n_])))
    env.eps_zero()
    m = C(*assign, *ps)
    y = env.zeros((npts,))
    m.fill_feat_(y, x.copy())
    d0 = env.arr("d0", (nx, npts))
    dfdx = d0.copy()
    dy = env.arr("dy", (npts,))
    m.fill_deriv_(dfdx, dy.copy(), x.copy())
    for r in range(nx):
        for g in range(npts):
            env.vjp("d_x%d_pt%d" % (r, g), [y[k] for k in range(npts)], [dy[k] for k in range(npts)],
                    ("x", (r, g)), dfdx[r, g] - d0[r, g])


NORMALIZERS = {
    "ConstantNormalizer": ["const"],
    "DensityNormalizer": ["const", "power"],
    "InhomogeneityNormalizer": ["const1", "const2", "power"],
    "GeneralNormalizer": ["const1", "const2", "power1", "power2"],
}


def _mk_norm(env, fn, cls, tag=""):
    C = getattr(fn, cls)
    names = list(inspect.signature(C.__init__).parameters)[1:]
    ps = []
    for p in names:
        # const2 multiplies inh >= 0 inside 1 + const2*inh: non-negative keeps the base of the power positive
        dom = "pos" if p in ("const2",) else "real"
        ps.append(env.par(tag + p, dom))
    return C(*ps)


def h_norm(env, cls):
    fn = env.m.fn
    x, rho, inh = env.arr("x", (1,)), env.arr("rho", (1,), "pos"), env.arr("inh", (1,), "nonneg")
    dy = env.arr("dy", (1,))
    r0, i0 = env.arr("r0", (1,)), env.arr("i0", (1,))
    dx, drho, dinh = env.arr("dx", (1,)), env.arr("drho", (1,)), env.arr("dinh", (1,))
    env.eps_zero()
    n = _mk_norm(env, fn, cls)
    xn = n.fill_fwd(x.copy(), rho.copy(), inh.copy())
    xn2 = n.fill_fwd(x.copy(), rho.copy(), inh.copy(), xn=env.zeros((1,)))
    env.equal("fwd_out_buffer", xn[0], xn2[0])
    dfdrho, dfdinh = r0.copy(), i0.copy()
    dfdx, dfdrho, dfdinh = n.fill_bwd(dy.copy(), x.copy(), rho.copy(), inh.copy(), dfdrho=dfdrho, dfdinh=dfdinh)
    env.deriv("bwd_x", xn[0], ("x", (0,)), dfdx[0], seed=dy[0])
    env.deriv("bwd_rho", xn[0], ("rho", (0,)), dfdrho[0] - r0[0], seed=dy[0])
    env.deriv("bwd_inh", xn[0], ("inh", (0,)), dfdinh[0] - i0[0], seed=dy[0])
    # default (None) accumulators start from zero
    b2 = n.fill_bwd(dy.copy(), x.copy(), rho.copy(), inh.copy())
    env.deriv("bwd_rho_default", xn[0], ("rho", (0,)), b2[1][0], seed=dy[0])
    env.deriv("bwd_inh_default", xn[0], ("inh", (0,)), b2[2][0], seed=dy[0])
    fwd = n.get_normed_feature_deriv(x.copy(), rho.copy(), inh.copy(), dx.copy(), drho.copy(), dinh.copy())
    env.jvp("fwd_mode", xn[0], [("x", (0,)), ("rho", (0,)), ("inh", (0,))], [dx[0], drho[0], dinh[0]], fwd[0])


def h_featlist(env, maps, nx):
    """composite: FeatureList.__call__/fill_vals_/fill_derivs_ with several real maps reading shared raw
    features: contributions accumulate additively"""
    td = env.m.td
    x = env.arr("x", (nx, 1), "nonneg")
    env.eps_zero()
    objs = []
    for k, (cls, assign) in enumerate(maps):
        C = getattr(td, cls)
        idxn, parn = map_spec(C)
        ps = [env.par("m%d_%s" % (k, p), "real" if p in REAL_PARAMS else "pos") for p in parn]
        objs.append(C(*assign, *ps))
    fl = td.FeatureList(objs)
    y = fl(x.T.copy()).T      # (nfeat, 1)
    y2 = env.zeros((len(objs), 1))
    fl.fill_vals_(y2, x.copy())
    for k in range(len(objs)):
        env.equal("call_vs_fill_vals_%d" % k, y[k, 0], y2[k, 0])
    dy = env.arr("dy", (len(objs), 1))
    d0 = env.arr("d0", (nx, 1))
    dfdx = d0.copy()
    fl.fill_derivs_(dfdx, dy.copy(), x.copy())
    for r in range(nx):
        env.vjp("d_x%d" % r, [y[k, 0] for k in range(len(objs))], [dy[k, 0] for k in range(len(objs))],
                ("x", (r, 0)), dfdx[r, 0] - d0[r, 0])


def h_normlist(env, slmode, layout, nspin=1):
    """composite: FeatNormalizerList with real normaliser leaves, both sides of the density cutoff"""
    fn = env.m.fn
    nfeat = len(layout)
    X = env.arr("X", (nspin, nfeat, 1))
    for s in range(nspin):
        for i in range(3):
            env.assume(X[s, i, 0] >= 0)
    env.eps_zero()
    norms = []
    for i, cls in enumerate(layout):
        norms.append(None if cls is None else _mk_norm(env, fn, cls, tag="n%d_" % i))
    nl = fn.FeatNormalizerList(norms, slmode)
    XN = nl.get_normalized_feature_vector(X.copy())
    df = env.arr("df", (nspin, nfeat, 1))
    dX = nl.get_derivative_wrt_unnormed_features(X.copy(), df.copy())
    for s in range(nspin):
        for j in range(nfeat):
            env.vjp("bwd_s%d_x%d" % (s, j), [XN[s, i, 0] for i in range(nfeat)], [df[s, i, 0] for i in range(nfeat)],
                    ("X", (s, j, 0)), dX[s, j, 0])
    DX = env.arr("DX", (nfeat, 1))
    DXN = nl.get_derivative_of_normed_features(X[0].copy(), DX.copy())
    for i in range(nfeat):
        env.jvp("fwd_x%d" % i, XN[0, i, 0], [("X", (0, j, 0)) for j in range(nfeat)], [DX[j, 0] for j in range(nfeat)], DXN[i, 0])
    # the two routines are transposes of each other:  <df, J DX> == <J^T df, DX>
    lhs = sum((df[0, i, 0] * DXN[i, 0] for i in range(nfeat)), env.const(0))
    rhs = sum((dX[0, j, 0] * DX[j, 0] for j in range(nfeat)), env.const(0))
    if nspin == 1:
        env.equal("transpose", lhs, rhs)


def tasks(tier):
    td = sym_mods().td
    out = []
    for C in td.ALL_CLASSES:
        cls = C.__name__
        idxn, parn = map_spec(C)
        k = len(idxn)
        assigns = [tuple(range(k))]
        if k > 1:
            assigns.append(tuple(reversed(range(1, k + 1))))       # permuted, offset by one, row 0 untouched
        else:
            assigns.append((1,))
        if k > 1:
            # repeated indices (a feature contracted with itself): all equal, first two equal, last two equal
            rep = [tuple([0] * k), tuple([0, 0] + list(range(1, k - 1))), tuple(list(range(k - 1)) + [k - 2])]
            if k > 2:
                rep.append(tuple([0, 1, 1] + list(range(2, k - 1))))          # middle pair equal (j == k of a four-index map)
            assigns += [a for a in rep if a not in assigns]
        if tier == "thorough":
            assigns = sorted(set(assigns) | set(itertools.permutations(range(k + 1), k)))
        for a in assigns:
            nx = max(max(a) + 1, 1)
            out.append(Task("map/%s/idx=%s" % (cls, ",".join(map(str, a))), h_map,
                            dict(cls=cls, assign=a, nx=nx), max_paths=MAXPATHS.get(cls, 64)))
        if tier == "thorough" and cls not in MAXPATHS:
            out.append(Task("map/%s/2pts" % cls, h_map, dict(cls=cls, assign=tuple(range(k)), nx=k, npts=2), max_paths=256))
    for cls in NORMALIZERS:
        out.append(Task("norm/%s" % cls, h_norm, dict(cls=cls)))
    combos = [
        [("UMap", (0,)), ("VMap", (0,)), ("TMap", (0, 1))],
        [("WMap", (0, 1, 2)), ("XMap", (1, 0, 2)), ("UMap", (2,))],
    ]
    if tier == "thorough":
        combos += [[("SLXMap", (0, 1)), ("SLBMap", (0, 1, 2)), ("SLNMap", (0,))],
                   [("YMap", (0, 1, 2, 3)), ("ZMap", (3,)), ("V3Map", (0, 3)), ("EMap", (1,))]]
    for n, c in enumerate(combos):
        nx = max(max(a) for _, a in c) + 1
        out.append(Task("featlist/%d" % n, h_featlist, dict(maps=c, nx=nx), max_paths=128))
    layouts = [[None, None, None, "DensityNormalizer", "GeneralNormalizer"]]
    if tier == "thorough":
        layouts += [[None, None, None, "ConstantNormalizer", "InhomogeneityNormalizer"],
                    ["DensityNormalizer", None, "GeneralNormalizer", "GeneralNormalizer"]]
    for slmode in ("npa", "nst", "np", "ns"):
        for n, lay in enumerate(layouts):
            out.append(Task("normlist/%s/%d" % (slmode, n), h_normlist, dict(slmode=slmode, layout=lay)))
        if tier == "thorough" or slmode in ("npa", "ns"):
            out.append(Task("normlist/%s/nspin2" % slmode, h_normlist, dict(slmode=slmode, layout=layouts[0], nspin=2)))
    return out


def prepare(tier):
    m = sym_mods()
    m.td, m.fn


META = dict(
    explanation="symbolic execution (exact reals, all paths through the code's own comparisons) of "
                "transform_data.py and feat_normalizer.py from /repo's current source; the value routine's "
                "output term is differentiated mechanically and z3 decides  assume & path & got != d(value)",
    functions=["ciderpress/dft/transform_data.py: every class in ALL_CLASSES .fill_feat_/.fill_deriv_, FeatureList.__call__/fill_vals_/fill_derivs_",
               "ciderpress/dft/feat_normalizer.py: Constant/Density/Inhomogeneity/GeneralNormalizer.fill_fwd/fill_bwd/get_normed_feature_deriv, "
               "FeatNormalizerList.get_normalized_feature_vector/get_derivative_wrt_unnormed_features/get_derivative_of_normed_features/_get_rho_and_inh/_get_drho_and_dinh"],
    bounds=dict(sample_points="1 (quick), 2 (thorough, map leaves)", parameters="all symbolic reals (gamma>0, scale/center real, powers real)",
                raw_features="symbolic; density-like rows >= 0, signed rows real; OmegaMap s2, alpha in [0,1e10] (clip inactive)",
                index_assignments="identity + one permuted/offset + repeated indices (all equal / first two / last two / middle pair); thorough adds all injective assignments into k+1 rows",
                paths="all feasible paths, cap 64 (600 for OmegaMap)", EPS="1e-16 literals = 0"),
    stubs=[],
    assumptions=["float64 modelled as exact reals (rounding outside the claim)",
                 "identities decided where every denominator met on the path is non-zero",
                 "np.isnan is False on symbolic reals"],
)
