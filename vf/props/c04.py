"""C04 - model evaluators return consistent energy densities and feature derivatives.

Composite harnesses (real KernelEvalBase(2)/MappedDFTKernel(2)/MappedXC(2) code, leaves = contract
stubs of vf.stubs) in SEP/NPOL/POL, nspin 1/2, several evaluators accumulating into shared buffers, both
sides of the symbolic low-density cutoff; leaf harnesses for every native baseline (both sides of the
Chachiyo small-s switch), the libxc same-spin/opposite-spin splits with libxc by contract, and the
concrete GlobalLinearEvaluator against the abstract evaluator contract."""
from fractions import Fraction

import numpy as np

from ..run import Task
from . import common
from .. import stubs

PROP_ID = "C04"
sym_mods = common.sym_mods
real_mods = common.real_mods
replay = common.generic_replay

N0 = 4


def _featlist(env, concrete=False):
    td = env.m.td
    if concrete:
        return td.FeatureList([td.UMap(1, env.par("g0", "pos")), td.TMap(1, 2), td.VMap(3, env.par("g1", "pos"), scale=env.par("sc"), center=env.par("ce")),
                               td.WMap(1, 2, 3, env.par("g2", "pos"), env.par("g3", "pos"))])
    return td.FeatureList([stubs.make_abs_map(env, "y0", [1]), stubs.make_abs_map(env, "y1", [1, 2]),
                           stubs.make_abs_map(env, "y2", [3]), stubs.make_abs_map(env, "y3", [0, 3])])


def _evals(env, mode, nevals, concrete=False):
    xe = env.m.xc_evaluator
    if concrete:
        return [xe.GlobalLinearEvaluator([env.par("c%d" % i) for i in range(4)])]
    return [stubs.make_abs_eval(env, "F%d" % k, 4, pol=(mode == "POL")) for k in range(nevals)]


def _inputs(env, nspin):
    X = env.arr("X", (nspin, N0, 1), "nonneg", hi="64")
    return X


def h_kernel1(env, mode, nspin, nevals=1, with_add=True, concrete=False, two_kernels=False):
    xe, bl = env.m.xc_evaluator, env.m.baselines
    X = _inputs(env, nspin)
    rc = env.par("rhocut", "nonneg", hi="1")
    env.eps_zero()
    if concrete and mode == "POL":
        return
    mul = bl.lda_x if concrete else stubs.make_abs_baseline(env, "M")
    add = (bl.zero_xc if concrete else stubs.make_abs_baseline(env, "A")) if with_add else None
    mk = xe.MappedDFTKernel(_evals(env, mode, nevals, concrete), _featlist(env, concrete), mode, mul, add)
    if two_kernels:
        mk2 = xe.MappedDFTKernel([stubs.make_abs_eval(env, "G0", 4, pol=(mode == "POL"))], _featlist(env), mode,
                                 stubs.make_abs_baseline(env, "M2"), None if not with_add else stubs.make_abs_baseline(env, "A2"))

        class _S:
            normalizers = None
        model = xe.MappedXC([mk, mk2], _S())
        call = lambda: model(X.copy(), rhocut=rc)
    else:
        call = lambda: mk(X.copy(), rhocut=rc)
    ok, out = env.attempt("call_returns", call)
    if not ok:
        return
    res, dres = out
    env.check("shapes", np.shape(res) == (1,) and np.shape(dres) == (nspin, N0, 1), "%s %s" % (np.shape(res), np.shape(dres)))
    for s in range(nspin):
        for i in range(N0):
            env.deriv("dres_s%d_x%d" % (s, i), res[0], ("X", (s, i, 0)), dres[s, i, 0])
    # cutoff consistency: a point below the cutoff contributes exactly zero value and derivative
    if mode == "SEP":
        below = [bool(X[s, 0, 0] < rc) for s in range(nspin)] if env.sym else [X[s, 0, 0] < rc for s in range(nspin)]
        for s in range(nspin):
            if below[s]:
                for i in range(N0):
                    env.zero("below_cut_dres_s%d_x%d" % (s, i), dres[s, i, 0])
        if all(below):
            env.zero("below_cut_res", res[0])
    else:
        tot = sum((X[s, 0, 0] for s in range(nspin)), env.const(0))
        if bool(tot < rc):
            env.zero("below_cut_res", res[0])
            for s in range(nspin):
                for i in range(N0):
                    env.zero("below_cut_dres_s%d_x%d" % (s, i), dres[s, i, 0])


class _Patch(object):
    def __init__(self, mod, **kw):
        self.mod, self.kw, self.old = mod, kw, {}

    def __enter__(self):
        for k, v in self.kw.items():
            self.old[k] = getattr(self.mod, k)
            setattr(self.mod, k, v)

    def __exit__(self, *a):
        for k, v in self.old.items():
            setattr(self.mod, k, v)


def _rho_tuple(env, nspin, level):
    rho = env.arr("rho", (nspin, 1), "pos", lo="1/64", hi="64")
    out = [rho]
    if level in ("GGA", "MGGA"):
        out.append(env.arr("sigma", (2 * nspin - 1, 1), "nonneg", hi="64"))
    if level == "MGGA":
        out.append(env.arr("tau", (nspin, 1), "nonneg", hi="64"))
    return tuple(out)


def h_kernel2(env, mode, nspin, mul, add=None, nevals=1):
    xe2, bl = env.m.xc_evaluator2, env.m.baselines
    level = "MGGA" if "MGGA" in mul else ("GGA" if "GGA" in mul else "LDA")
    X = _inputs(env, nspin)
    rt = _rho_tuple(env, nspin, level)
    rc = env.par("rhocut", "nonneg", hi="1")
    env.eps_zero()
    lda, gga, mgga = stubs.make_abs_libxc(env)
    mk = xe2.MappedDFTKernel2(_evals(env, mode, nevals), _featlist(env), mode, mul, add)

    class _S:
        normalizers = None
    model = xe2.MappedXC2([mk], _S())
    with _Patch(bl, get_libxc_lda_baseline=lda, get_libxc_gga_baseline=gga, get_libxc_mgga_baseline=mgga):
        ok, out = env.attempt("call_returns", lambda: model(X.copy(), tuple(r.copy() for r in rt), rhocut=rc))
    if not ok:
        return
    res, dres, vrho = out
    env.check("shapes", np.shape(res) == (1,) and np.shape(dres) == (nspin, N0, 1) and len(vrho) == len(rt))
    for s in range(nspin):
        for i in range(N0):
            env.deriv("dres_s%d_x%d" % (s, i), res[0], ("X", (s, i, 0)), dres[s, i, 0])
    for nm, v, r in zip(("rho", "sigma", "tau"), vrho, rt):
        for k in range(r.shape[0]):
            env.deriv("v%s_%d" % (nm, k), res[0], (nm, (k, 0)), v[k, 0])


def h_baseline(env, name, nspin):
    bl = env.m.baselines
    X = env.arr("X", (nspin, N0, 1), "pos", lo="1/64", hi="64")
    env.eps_zero()
    f = bl.BASELINE_CODES[name]
    lda, gga, mgga = stubs.make_abs_libxc(env)
    with _Patch(bl, get_libxc_lda_baseline=lda, get_libxc_gga_baseline=gga, get_libxc_mgga_baseline=mgga):
        ok, out = env.attempt("returns", lambda: f(X.copy()))
    if not ok:
        return
    good = isinstance(out, tuple) and len(out) == 2
    env.check("returns_(e, dedx)", good, "returned %r" % (type(out).__name__,))
    if not good:
        return
    e, de = out
    env.check("shapes", np.shape(e) == (1,) and np.shape(de) == (nspin, N0, 1))
    for s in range(nspin):
        for i in range(N0):
            env.deriv("dedx_s%d_x%d" % (s, i), e[0], ("X", (s, i, 0)), de[s, i, 0])


def h_libxc_split(env, xcid, nspin):
    """real get_libxc_baseline / _ss / _os (same-spin / opposite-spin) with libxc by contract"""
    bl = env.m.baselines
    rt = _rho_tuple(env, nspin, "GGA")
    env.eps_zero()
    lda, gga, mgga = stubs.make_abs_libxc(env)
    with _Patch(bl, get_libxc_lda_baseline=lda, get_libxc_gga_baseline=gga, get_libxc_mgga_baseline=mgga):
        ok, out = env.attempt("returns", lambda: bl.get_libxc_baseline(xcid, tuple(r.copy() for r in rt)))
    if not ok:
        return
    e, vr, vs = out
    for k in range(nspin):
        env.deriv("vrho_%d" % k, e[0], ("rho", (k, 0)), vr[k, 0])
    for k in range(2 * nspin - 1):
        env.deriv("vsigma_%d" % k, e[0], ("sigma", (k, 0)), vs[k, 0])


def h_global_linear(env, n=2):
    """concrete evaluator against the abstract contract: adds f and df into pre-filled buffers"""
    xe = env.m.xc_evaluator
    c = env.arr("c", (3,))
    X1 = env.arr("X1", (n, 3))
    r0, d0 = env.arr("r0", (n,)), env.arr("d0", (n, 3))
    ev = xe.GlobalLinearEvaluator(c.copy())
    res, dres = r0.copy(), d0.copy()
    ev(X1.copy(), res, dres)
    for g in range(n):
        env.equal("value_%d" % g, res[g] - r0[g], sum((X1[g, i] * c[i] for i in range(3)), env.const(0)))
        for i in range(3):
            env.deriv("grad_%d_%d" % (g, i), res[g] - r0[g], ("X1", (g, i)), dres[g, i] - d0[g, i])
    env.attempt("shape_mismatch_rejected", lambda: ev(X1.copy(), env.zeros((n + 1,)), dres), expect=ValueError)
    r2, d2 = ev(X1.copy())
    env.equal("default_buffers", r2[0], res[0] - r0[0])


def h_splineset_call(env, n=2):
    """SplineSetEvaluator.__call__ (the mapped evaluator of every shipped model) against the evaluator contract: it ADDS
    const + sum_t scale_t F_t(x[ind_t]) and its gradient into pre-filled buffers, each term reading and writing exactly its own feature
    columns (in the order of its index set).  The numba spline routine get_vec_eval is a contract stub: term t is an unknown
    differentiable function of its coordinates, returned with its exact gradient in coordinate order."""
    xe = env.m.xc_evaluator
    ind_sets = [[2], [0, 2], [3, 1]]
    leaves = {}
    grids = [("grid%d" % t,) for t in range(3)]
    coefs = ["coef%d" % t for t in range(3)]

    def gve(grid, coeffs, X, N):
        t = coefs.index(coeffs)
        env.check("term%d_gets_its_own_grid_and_dimension" % t, grid == grids[t] and N == len(ind_sets[t]) and np.shape(X) == (n, N), "%r %r %r" % (grid, N, np.shape(X)))
        f = leaves.setdefault(t, stubs.LeafFn(env, "F%d" % t, N))
        y, dy = env.zeros((n,)), env.zeros((n, N))
        for g in range(n):
            args = [X[g, k] for k in range(N)]
            y[g] = f.val(args)
            for k in range(N):
                dy[g, k] = f.grad(args, k)
        return y, dy
    sc = env.arr("sc", (3,), lo="-4", hi="4")
    c0 = env.par("const", "real", lo="-4", hi="4")
    X1 = env.arr("X1", (n, 4), lo="-4", hi="4")
    r0, d0 = env.arr("r0", (n,)), env.arr("d0", (n, 4))
    ev = xe.SplineSetEvaluator([sc[0], sc[1], sc[2]], ind_sets, grids, coefs, const=c0)
    old = xe.get_vec_eval
    xe.get_vec_eval = gve
    try:
        res, dres = r0.copy(), d0.copy()
        ok, _ = env.attempt("call_returns", lambda: ev(X1.copy(), res, dres))
        if not ok:
            return
        r2, d2 = ev(X1.copy())
        env.attempt("value_shape_mismatch_rejected", lambda: ev(X1.copy(), env.zeros((n + 1,)), d0.copy()), expect=ValueError)
        env.attempt("gradient_shape_mismatch_rejected", lambda: ev(X1.copy(), r0.copy(), env.zeros((n, 3))), expect=ValueError)
    finally:
        xe.get_vec_eval = old
    for g in range(n):
        want = c0 + sum((sc[t] * leaves[t].val([X1[g, i] for i in ind_sets[t]]) for t in range(3)), env.const(0))
        env.equal("value_%d" % g, res[g] - r0[g], want)
        env.equal("default_buffers_value_%d" % g, r2[g], res[g] - r0[g])
        for i in range(4):
            env.deriv("grad_%d_%d" % (g, i), res[g] - r0[g], ("X1", (g, i)), dres[g, i] - d0[g, i])
            env.equal("default_buffers_grad_%d_%d" % (g, i), d2[g, i], dres[g, i] - d0[g, i])


def h_kernel_evaluator(env, kern, n=2, nctrl=2, chunk=None):
    """the Python KernelEvaluator against the abstract evaluator contract, through the real (symbolic) kernels:
    it ADDS f = sum_a k(x, x_a) alpha_a and df/dx into pre-filled buffers, also across its internal chunk loop"""
    xe, K = env.m.xc_evaluator, env.m.kernels
    nf = 2
    X1 = env.arr("X1", (n, nf), lo="-4", hi="4")
    Xc = env.arr("Xc", (nctrl, nf), lo="-4", hi="4")
    al = env.arr("alpha", (nctrl,), lo="-4", hi="4")
    r0, d0 = env.arr("r0", (n,)), env.arr("d0", (n, nf))
    ls = env.arr("l", (nf,), "pos", lo="1/8", hi="8")
    if kern == "rbf":
        k = K.DiffRBF(length_scale=ls)
    elif kern == "const*rbf":
        k = K.DiffConstantKernel(env.par("c", "pos", hi="8")) * K.DiffRBF(length_scale=ls)
    else:
        k = K.DiffPolyKernel(gamma=ls, order=2)
    ev = xe.KernelEvaluator(k, Xc.copy(), al.copy())
    res, dres = r0.copy(), d0.copy()
    ev(X1.copy(), res, dres)
    kk = k(X1.copy(), Xc.copy())
    for g in range(n):
        f = sum((kk[g, a] * al[a] for a in range(nctrl)), env.const(0))
        env.equal("adds_kernel_sum_%d" % g, res[g] - r0[g], f)
        for i in range(nf):
            env.deriv("adds_gradient_%d_%d" % (g, i), f, ("X1", (g, i)), dres[g, i] - d0[g, i])
    r2, d2 = ev(X1.copy())
    for g in range(n):
        env.equal("default_buffers_value_%d" % g, r2[g], res[g] - r0[g])
        for i in range(nf):
            env.equal("default_buffers_grad_%d_%d" % (g, i), d2[g, i], dres[g, i] - d0[g, i])
    env.attempt("shape_mismatch_rejected", lambda: ev(X1.copy(), env.zeros((n + 1,)), dres), expect=ValueError)


def h_two_concrete_evals(env, order):
    """two concrete evaluators accumulating into the shared f/df buffers of a real MappedDFTKernel, in both orders"""
    xe, K, bl, td = env.m.xc_evaluator, env.m.kernels, env.m.baselines, env.m.td
    X = env.arr("X", (1, 3, 1), "pos", lo="1/8", hi="8")
    env.eps_zero()
    fl = td.FeatureList([td.UMap(1, env.par("g0", "pos", hi="8")), td.UMap(2, env.par("g1", "pos", hi="8"))])
    kev = xe.KernelEvaluator(K.DiffRBF(length_scale=env.arr("l", (2,), "pos", lo="1/8", hi="8")), env.arr("Xc", (2, 2), lo="0", hi="1"), env.arr("alpha", (2,), lo="-2", hi="2"))
    lev = xe.GlobalLinearEvaluator(env.arr("c", (2,), lo="-2", hi="2"))
    evs = [kev, lev] if order == "kernel,linear" else [lev, kev]
    mk = xe.MappedDFTKernel(evs, fl, "SEP", bl.lda_x, bl.zero_xc)
    res, dres = mk(X.copy())
    for i in range(3):
        env.deriv("dres_x%d" % i, res[0], ("X", (0, i, 0)), dres[0, i, 0])


def h_dft_kernel(env, mode, nspin, nc=2):
    """the training-time evaluator DFTKernel (ciderpress/models/dft_kernel.py): get_k_and_deriv returns the same kernel values as get_k
    and their exact derivative with respect to the raw features (through the real get_descriptors / apply_descriptor_grad of
    KernelEvalBase, abstract feature maps, a real DiffRBF); at the control points themselves get_k reproduces the covariance matrix
    get_kctrl builds (the K_mm and K_nm of the GP are the same function)."""
    dk, K = env.m.dft_kernel, env.m.kernels
    X = _inputs(env, nspin)
    env.eps_zero()
    fl = _featlist(env)
    kern = K.DiffRBF(length_scale=env.arr("l", (fl.nfeat,), "pos", lo="1/8", hi="8"))
    d = dk.DFTKernel(kern, fl, mode, stubs.make_abs_baseline(env, "M"), None)
    shape = (2, nc, fl.nfeat) if mode == "POL" else (nc, fl.nfeat)
    d.X1ctrl = env.arr("Xc", shape, lo="-4", hi="4")
    ok, out = env.attempt("get_k_and_deriv_returns", lambda: d.get_k_and_deriv(X.copy()))
    if not ok:
        return
    k, dkdx = out
    ok, k0 = env.attempt("get_k_returns", lambda: d.get_k(X.copy()))
    if not ok:
        return
    kshape = (nc, nspin, 1) if mode == "SEP" else (nc, 1)
    env.check("shapes", np.shape(k) == kshape and np.shape(k0) == kshape and np.shape(dkdx) == (nc, nspin, N0, 1), "%s %s %s" % (np.shape(k), np.shape(k0), np.shape(dkdx)))
    if np.shape(k) != kshape or np.shape(dkdx) != (nc, nspin, N0, 1):
        return
    for c in range(nc):
        vals = [k[c, s, 0] for s in range(nspin)] if mode == "SEP" else [k[c, 0]]
        vals0 = [k0[c, s, 0] for s in range(nspin)] if mode == "SEP" else [k0[c, 0]]
        for n, (a, b) in enumerate(zip(vals, vals0)):
            env.equal("get_k_equals_get_k_and_deriv_c%d_%d" % (c, n), a, b)
        tot = sum(vals, env.const(0))
        for s in range(nspin):
            for i in range(N0):
                env.deriv("dk_c%d_s%d_x%d" % (c, s, i), tot, ("X", (s, i, 0)), dkdx[c, s, i, 0])
                if mode == "SEP":
                    for s2 in range(nspin):
                        if s2 != s:
                            env.deriv("channel_%d_kernel_ignores_channel_%d_c%d_x%d" % (s2, s, c, i), k[c, s2, 0], ("X", (s, i, 0)), env.const(0))


def tasks(tier):
    out = []
    for kern in ("rbf", "const*rbf", "poly"):
        out.append(Task("kernel_evaluator/%s" % kern, h_kernel_evaluator, dict(kern=kern), mods="kernels"))
    for order in ("kernel,linear", "linear,kernel"):
        out.append(Task("two_concrete_evaluators/%s" % order, h_two_concrete_evals, dict(order=order), mods="kernels"))
    for mode in ("SEP", "NPOL", "POL"):
        for nspin in (1, 2):
            out.append(Task("kernel1/%s/nspin%d" % (mode, nspin), h_kernel1, dict(mode=mode, nspin=nspin), max_paths=64))
            if tier == "thorough":
                out.append(Task("kernel1/%s/nspin%d/2evals" % (mode, nspin), h_kernel1, dict(mode=mode, nspin=nspin, nevals=2)))
                out.append(Task("kernel1/%s/nspin%d/2kernels" % (mode, nspin), h_kernel1, dict(mode=mode, nspin=nspin, two_kernels=True)))
        out.append(Task("kernel1/%s/no_additive" % mode, h_kernel1, dict(mode=mode, nspin=1, with_add=False)))
    out.append(Task("kernel1/SEP/nspin2/2evals", h_kernel1, dict(mode="SEP", nspin=2, nevals=2)))
    out.append(Task("kernel1/NPOL/nspin2/2kernels", h_kernel1, dict(mode="NPOL", nspin=2, two_kernels=True)))
    for mode in ("SEP", "NPOL"):
        out.append(Task("kernel1/%s/concrete_leaves" % mode, h_kernel1, dict(mode=mode, nspin=2, concrete=True), max_paths=256))
    muls = [("LDA_X", None), ("GGA_X_PBE", "GGA_C_PBE"), ("MGGA_X_R2SCAN", None)]
    if tier == "thorough":
        muls += [("SS_GGA_C_PBE", None), ("OS_GGA_C_PBE", "LDA_C_PW_MOD")]
    for mode in ("SEP", "NPOL", "POL"):
        for nspin in (1, 2):
            for mul, add in (muls if tier == "thorough" else muls[1:2] + ([muls[2]] if mode == "SEP" else [])):
                out.append(Task("kernel2/%s/nspin%d/%s" % (mode, nspin, mul), h_kernel2, dict(mode=mode, nspin=nspin, mul=mul, add=add)))
    for name in ["RHO", "ZERO", "ONE", "LDA_X", "NLDA_X_DAMP", "GGA_X_PBE", "GGA_X_CHACHIYO", "GGA_C_PBE"]:
        for nspin in (1, 2):
            out.append(Task("baseline/%s/nspin%d" % (name, nspin), h_baseline, dict(name=name, nspin=nspin)))
    for xcid in ("GGA_C_PBE", "SS_GGA_C_PBE", "OS_GGA_C_PBE"):
        for nspin in (1, 2):
            out.append(Task("libxc_split/%s/nspin%d" % (xcid, nspin), h_libxc_split, dict(xcid=xcid, nspin=nspin)))
    out.append(Task("global_linear", h_global_linear, {}))
    # the C-backed evaluators (value and gradient consistent with each other and with the kernel), through the IR of model_utils.c
    from . import c11
    out.append(Task("c_evaluator/RBFEvaluator", c11.h_rbf, dict(kind="const*full"), mods="kernels", max_paths=16))
    out.append(Task("c_evaluator/AntisymRBFEvaluator", c11.h_antisym, {}, mods="kernels", max_paths=16))
    out.append(Task("c_evaluator/SpinRBFEvaluator", c11.h_spin, {}, mods="kernels", max_paths=16))
    out.append(Task("splineset_call", h_splineset_call, {}))
    for mode, ns in [("SEP", 2), ("NPOL", 2), ("POL", 2), ("POL", 1)] + ([("SEP", 1), ("NPOL", 1)] if tier == "thorough" else []):
        out.append(Task("dft_kernel/%s/nspin%d" % (mode, ns), h_dft_kernel, dict(mode=mode, nspin=ns), mods="kernels", max_paths=64, timeout_ms=60000))
    from . import c04_libxc
    out += c04_libxc.tasks(tier)
    return out


def prepare(tier):
    m = sym_mods()
    m.td, m.fn, m.settings, m.baselines, m.xc_evaluator, m.xc_evaluator2, m.kernels
    from . import c11
    c11.prepare(tier)
    # every key of BASELINE_CODES must be covered by a task
    keys = set(m.baselines.BASELINE_CODES)
    have = {"RHO", "ZERO", "ONE", "LDA_X", "NLDA_X_DAMP", "GGA_X_PBE", "GGA_X_CHACHIYO", "GGA_C_PBE"}
    if keys - have:
        raise RuntimeError("BASELINE_CODES has keys without a harness: %s" % sorted(keys - have))


META = dict(
    explanation="symbolic execution of the real evaluator assembly code with contract stubs for verified leaves; z3 decides "
                "dres == d(res)/d(X0T) and vrho_tuple == d(res)/d(rho tuple) on every path through the cutoff comparisons",
    functions=['ciderpress/lib/xc_utils/libxc_baselines.c (clang IR): get_lda_baseline, get_gga_baseline, get_mgga_baseline with libxc as a contract (libxc_wrapper_history/*)', 'ciderpress/dft/xc_evaluator.py: SplineSetEvaluator.__call__ (splineset_call)', "ciderpress/models/dft_kernel.py: DFTKernel.__init__, get_k, get_k_and_deriv (dft_kernel/*)", "ciderpress/dft/xc_evaluator.py: KernelEvalBase.get_descriptors/apply_descriptor_grad/apply_baseline/_baseline, MappedDFTKernel.__call__, MappedXC.__call__, GlobalLinearEvaluator.__call__",
               "ciderpress/dft/xc_evaluator2.py: KernelEvalBase2.get_descriptors/apply_descriptor_grad/apply_libxc_baseline_/_get_baseline, MappedDFTKernel2.__call__, MappedXC2.__call__",
               "ciderpress/dft/baselines.py: every function in BASELINE_CODES, _sl_x_helper, get_sigma, get_dsigma, get_gga_c, get_libxc_baseline, get_libxc_baseline_ss, get_libxc_baseline_os"],
    bounds=dict(sample_points=1, nspin="1, 2", modes="SEP, NPOL, POL", raw_features=4, evaluators="1-2 accumulating", kernels="1-2 summed",
                rhocut="symbolic in [0, 1]", features="[0, 64]"),
    stubs=["libxc_wrapper_history: xc_func_init binds (id, nspin) to the handle it is given; xc_{lda,gga,mgga}_exc_vxc write uninterpreted functions named after the binding of the handle of each point's inputs in libxc's layout for that nspin; xc_func_set_dens_threshold / xc_func_end no-ops", "feature maps / evaluators / native baselines: uninterpreted differentiable functions with declared partials (vf.stubs); "
           "POL evaluator contract F(a,b) = G(a,b) + G(b,a)", "libxc: uninterpreted E(rho, sigma, tau) per functional and spin count with v = dE/d. (libxc manual); dens_threshold ignored",
           "concrete leaves (UMap, TMap, VMap, WMap, lda_x, GlobalLinearEvaluator) in the overlap configuration"],
    assumptions=["SplineSetEvaluator (numba) and NNEvaluator (torch absent) are outside", "C kernels and Python kernel evaluator are decided under C11/C15",
                 "replay of stubbed composites uses fixed smooth concrete leaf functions"],
)
