"""C01, SDMX plan link: SDMXBasePlan.get_features / get_vxc (ciderpress/dft/plans.py), the value/potential pair every SDMX plan
class inherits.  Features are F_i = fac * sum_q (M_i p)_q^2 (l=0) and fac * sum_{v,q} (M_i p_v)_q^2 (l=1) with fac = -nspin^2/4;
get_vxc returns, for E = sum_i w_i F_i, exactly HALF of dE/dp - the drivers add the XC matrix to its transpose afterwards (the
symmetrisation decided in the nr_rks / nr_uks harness of C09), which supplies the other half.  Fit matrices, projections p and
weights are symbolic; pyscf.lib.dot / einsum are replaced by numpy's (their documented meaning)."""
import types

import numpy as np


def h_sdmx_plan(env, n0, n1, nspin, na=2, nq=2, ng=1, both_tmp_none=False):
    plans = env.m.plans

    class P(plans.SDMXBasePlan):
        num_l0_feat = n0
        num_l1_feat = n1
    p = object.__new__(P)
    p.nspin, p.nalpha, p.has_coul_list = nspin, na, True
    p.settings = types.SimpleNamespace(nfeat=n0 + n1)
    p.fit_matrices = [env.arr("M%d" % i, (nq, na), lo="-2", hi="2") for i in range(n0 + n1)]
    nv = 4 if n1 else 1
    x = env.arr("p", (nv, na, ng), lo="-2", hi="2")
    w = env.arr("w", (n0 + n1, ng), lo="-2", hi="2")
    l0tmp = env.zeros((n0, nq, ng))
    l1tmp = env.zeros((n1, 3, nq, ng))
    old = plans.pyscflib
    plans.pyscflib = types.SimpleNamespace(dot=lambda a, b: np.dot(a, b), einsum=lambda s, a, b: np.einsum(s, a, b))
    try:
        ok, feat = env.attempt("get_features_returns", lambda: p.get_features(x.copy(), out=env.zeros((n0 + n1, ng)), l0tmp=l0tmp, l1tmp=l1tmp))
        if not ok:
            return
        xin = x.copy()
        feat2 = p.get_features(xin, out=env.zeros((n0 + n1, ng)), l0tmp=env.zeros((n0, nq, ng)), l1tmp=env.zeros((n1, 3, nq, ng)))
        ok, out = env.attempt("get_vxc_returns", lambda: p.get_vxc(w.copy(), l0tmp, l1tmp if n1 else None))
        if not ok:
            return
    finally:
        plans.pyscflib = old
    env.check("shapes", np.shape(feat) == (n0 + n1, ng) and np.shape(out) == (nv, na, ng), "%s %s" % (np.shape(feat), np.shape(out)))
    fac = env.const(-nspin * nspin) / 4
    for i in range(n0 + n1):
        for g in range(ng):
            vs = [0] if i < n0 else [1, 2, 3]
            want = sum(((sum((p.fit_matrices[i][q, a] * x[v, a, g] for a in range(na)), env.const(0))) ** 2 for v in vs for q in range(nq)), env.const(0)) * fac
            env.equal("feature_%d_g%d_is_documented_quadratic_form" % (i, g), feat[i, g], want)
            env.equal("repeated_call_feature_%d_g%d" % (i, g), feat2[i, g], feat[i, g])
    ys = [feat[i, g] for i in range(n0 + n1) for g in range(ng)]
    sd = [w[i, g] for i in range(n0 + n1) for g in range(ng)]
    for v in range(nv):
        for a in range(na):
            for g in range(ng):
                env.vjp("twice_get_vxc_v%d_a%d_g%d_is_dE_dp" % (v, a, g), ys, sd, ("p", (v, a, g)), out[v, a, g] * 2)
                env.equal("get_features_keeps_its_input_v%d_a%d_g%d" % (v, a, g), xin[v, a, g], x[v, a, g])


# ---------------------------------------------------------------------------------------------------------------------------------
# generator level: the real EXXSphGenerator.get_features / get_vxc_ (ciderpress/pyscf/sdmx.py) for SDMX settings without l=1 terms

def _small_mol():
    from pyscf import gto
    bas = gto.basis.parse("H S\n 3.0 0.2 0.1\n 1.0 0.5 0.3\nH P\n 0.8 1.0\n")      # a generally contracted s shell (2 radial functions) and a p shell
    return gto.M(atom="H 0 0 0", basis={"H": bas}, spin=1, verbose=0)


def h_sdmx_generator(env, nfeat=2, nalpha=2, nq=2, nset=1):
    """E[DM] = sum_i w_i F_i with F = EXXSphGenerator.get_features(DM) for a symmetric symbolic density matrix; get_vxc_ accumulates a
    matrix V0 into the XC matrix and V0 + V0^T (the drivers' symmetrisation) is dE/dDM.  Real code: get_features, get_vxc_,
    _contract_ao_to_bas(_bwd), _contract_ao_to_bas_helper/_single_, _eval_crho_potential, SDMXBasePlan.get_features/get_vxc and, interpreted,
    SDMXcontract_ao_to_bas(_bwd).  Symbolic: the AO values, the convolved-shell values cao, the Y_lm table, the fit matrices, the weights
    and DM.  PySCF's _dot_ao_dm / _dot_ao_ao / _scale_ao / lib.einsum are numpy statements of their documented formulas (with PySCF's
    memory layout for _dot_ao_dm, which the C code reads through a raw pointer).  nset = 2: one call with two density matrices (3-d
    input, per-matrix weights); each accumulated matrix must be the derivative with respect to its own density matrix only."""
    if nset > 1:
        return _h_sdmx_generator_sets(env, nfeat, nalpha, nq, nset)
    sd, plans = env.m.sdmx, env.m.plans
    mol = _small_mol()
    nao, nrf, ng = int(mol.nao_nr()), int(sd._get_nrf(mol)), 1
    ny = int(sd._get_ylm_atom_loc(mol)[-1])

    class P(plans.SDMXBasePlan):
        num_l0_feat = nfeat
        num_l1_feat = 0
    plan = object.__new__(P)
    plan.nspin, plan.nalpha, plan.has_coul_list, plan.fit_metric = 1, nalpha, True, "ovlp"
    plan.settings = types.SimpleNamespace(nfeat=nfeat, n1terms=0)
    plan.fit_matrices = [env.arr("M%d" % i, (nq, nalpha), lo="-2", hi="2") for i in range(nfeat)]
    ao = env.arr("ao", (ng, nao), lo="-2", hi="2")
    cao = env.arr("cao", (nalpha, ng, nrf), lo="-2", hi="2")
    ylm = env.arr("ylm", (1, ny, ng), lo="-2", hi="2")
    w = env.arr("w", (nfeat, ng), lo="-2", hi="2")
    tri = env.arr("dm", (nao, nao), lo="-2", hi="2")
    dm = tri.copy()
    for i in range(nao):
        for j in range(i):
            dm[i, j] = tri[j, i]            # symmetric: the entry below the diagonal is the same variable as the one above
    coords = np.ascontiguousarray(np.array([[0.3, -0.2, 0.5]]))
    gen = sd.EXXSphGenerator(plan)
    gen._get_ylm = lambda mol_, coords_, ylm_atom_loc=None, savebuf=True: ylm.copy()
    from ..sym import SArr
    as_obj = lambda a: np.asarray(a, dtype=object if env.sym else float)
    sa = lambda a: a.view(SArr) if env.sym else a          # symbolic arrays must stay SArr: their .ctypes yields a handle, not an address
    ref = dict(_dot_ao_dm=lambda mol_, ao_, dm_, non0tab, shls_slice, ao_loc, out=None: sa(np.ascontiguousarray(np.dot(as_obj(dm_).T, as_obj(ao_).T))).T,
               _dot_ao_ao=lambda mol_, a1, a2, non0tab, shls_slice, ao_loc, hermi=0: sa(np.dot(as_obj(a1).T, as_obj(a2))),
               _scale_ao=lambda a, wv, out=None: sa(np.einsum("npi,np->pi", as_obj(a), as_obj(wv))))
    old = {k: getattr(sd, k) for k in ref}
    old_lib = sd.lib
    if env.sym:
        for k, v in ref.items():
            setattr(sd, k, v)
        sd.lib = types.SimpleNamespace(einsum=lambda s_, a, b: sa(np.einsum(s_, as_obj(a), as_obj(b))))
    old_pl = plans.pyscflib
    if env.sym:
        plans.pyscflib = types.SimpleNamespace(dot=lambda a, b: np.dot(a, b), einsum=lambda s_, a, b: np.einsum(s_, a, b))
    cast = (lambda a: a.copy()) if env.sym else (lambda a: np.ascontiguousarray(a, dtype=float))
    try:
        ok, feat = env.attempt("get_features_returns", lambda: gen.get_features(cast(dm), mol, coords, ao=cast(ao), cao=cast(cao)))
        if not ok:
            return
        v0 = env.zeros((nao, nao))
        ok, _ret = env.attempt("get_vxc_returns", lambda: gen.get_vxc_(v0, cast(w)))
        if not ok:
            return
        vm = v0               # get_vxc_ accumulates into the caller's matrix (its return value is a 3-d view of it)
    finally:
        for k, v in old.items():
            setattr(sd, k, v)
        sd.lib, plans.pyscflib = old_lib, old_pl
    env.check("shapes", np.shape(feat) == (nfeat, ng) and np.shape(vm) == (nao, nao), "%s %s" % (np.shape(feat), np.shape(vm)))
    ys = [feat[i, g] for i in range(nfeat) for g in range(ng)]
    sdw = [w[i, g] for i in range(nfeat) for g in range(ng)]
    for i in range(nao):
        for j in range(i, nao):
            sym_v = vm[i, j] + vm[j, i]
            env.vjp("symmetrised_matrix_%d_%d_is_dE_dDM" % (i, j), ys, sdw, ("dm", (i, j)), sym_v if i == j else sym_v * 2)


def _h_sdmx_generator_sets(env, nfeat, nalpha, nq, nset):
    sd, plans = env.m.sdmx, env.m.plans
    mol = _small_mol()
    nao, nrf, ng = int(mol.nao_nr()), int(sd._get_nrf(mol)), 1
    ny = int(sd._get_ylm_atom_loc(mol)[-1])

    class P(plans.SDMXBasePlan):
        num_l0_feat = nfeat
        num_l1_feat = 0
    plan = object.__new__(P)
    plan.nspin, plan.nalpha, plan.has_coul_list, plan.fit_metric = 1, nalpha, True, "ovlp"
    plan.settings = types.SimpleNamespace(nfeat=nfeat, n1terms=0)
    plan.fit_matrices = [env.arr("M%d" % i, (nq, nalpha), lo="-2", hi="2") for i in range(nfeat)]
    ao = env.arr("ao", (ng, nao), lo="-2", hi="2")
    cao = env.arr("cao", (nalpha, ng, nrf), lo="-2", hi="2")
    ylm = env.arr("ylm", (1, ny, ng), lo="-2", hi="2")
    w = env.arr("w", (nset, nfeat, ng), lo="-2", hi="2")
    dms = env.zeros((nset, nao, nao))
    for k in range(nset):
        tri = env.arr("dm%d" % k, (nao, nao), lo="-2", hi="2")
        for i in range(nao):
            for j in range(nao):
                dms[k, i, j] = tri[min(i, j), max(i, j)]
    coords = np.ascontiguousarray(np.array([[0.3, -0.2, 0.5]]))
    gen = sd.EXXSphGenerator(plan)
    gen._get_ylm = lambda mol_, coords_, ylm_atom_loc=None, savebuf=True: ylm.copy()
    from ..sym import SArr
    as_obj = lambda a: np.asarray(a, dtype=object if env.sym else float)
    sa = lambda a: a.view(SArr) if env.sym else a
    ref = dict(_dot_ao_dm=lambda mol_, ao_, dm_, non0tab, shls_slice, ao_loc, out=None: sa(np.ascontiguousarray(np.dot(as_obj(dm_).T, as_obj(ao_).T))).T,
               _dot_ao_ao=lambda mol_, a1, a2, non0tab, shls_slice, ao_loc, hermi=0: sa(np.dot(as_obj(a1).T, as_obj(a2))),
               _scale_ao=lambda a, wv, out=None: sa(np.einsum("npi,np->pi", as_obj(a), as_obj(wv))))
    old = {k: getattr(sd, k) for k in ref}
    old_lib, old_pl = sd.lib, plans.pyscflib
    if env.sym:
        for k, v in ref.items():
            setattr(sd, k, v)
        sd.lib = types.SimpleNamespace(einsum=lambda s_, a, b: sa(np.einsum(s_, as_obj(a), as_obj(b))))
        plans.pyscflib = types.SimpleNamespace(dot=lambda a, b: np.dot(a, b), einsum=lambda s_, a, b: np.einsum(s_, a, b))
    cast = (lambda a: a.copy()) if env.sym else (lambda a: np.ascontiguousarray(a, dtype=float))
    try:
        ok, feat = env.attempt("get_features_returns", lambda: gen.get_features(cast(dms), mol, coords, ao=cast(ao), cao=cast(cao)))
        if not ok:
            return
        v0 = env.zeros((nset, nao, nao))
        ok, _ret = env.attempt("get_vxc_returns", lambda: gen.get_vxc_(v0, cast(w)))
        if not ok:
            return
        # the drivers' other calling convention: one get_features for all matrices, then one get_vxc_ per matrix on a 2-d slice
        v1 = env.zeros((nset, nao, nao))
        gen2 = sd.EXXSphGenerator(plan)
        gen2._get_ylm = gen._get_ylm
        feats1 = []
        for k in range(nset):
            feats1.append(gen2.get_features(cast(dms[k]), mol, coords, ao=cast(ao), cao=cast(cao)))
            gen2.get_vxc_(v1[k], cast(w[k]))
    finally:
        for k, v in old.items():
            setattr(sd, k, v)
        sd.lib, plans.pyscflib = old_lib, old_pl
    env.check("shapes", np.shape(feat) == (nset, nfeat, ng) and np.shape(v0) == (nset, nao, nao), "%s %s" % (np.shape(feat), np.shape(v0)))
    ys = [feat[k, i, g] for k in range(nset) for i in range(nfeat) for g in range(ng)]
    sdw = [w[k, i, g] for k in range(nset) for i in range(nfeat) for g in range(ng)]
    for k in range(nset):
        for i in range(nao):
            for j in range(i, nao):
                sym_v = v0[k, i, j] + v0[k, j, i]
                env.vjp("set%d_symmetrised_matrix_%d_%d_is_dE_dDM%d" % (k, i, j, k), ys, sdw, ("dm%d" % k, (i, j)), sym_v if i == j else sym_v * 2)
        for i in range(nfeat):
            env.equal("set%d_feature_%d_equals_separate_call" % (k, i), feat[k, i, 0], feats1[k][i, 0])
        for i in range(nao):
            for j in range(nao):
                env.equal("set%d_matrix_%d_%d_equals_separate_call" % (k, i, j), v0[k, i, j], v1[k, i, j])


def h_sdmx_plan_variant(env, kind, nspin=2, na=2, ng=1):
    """the two other implementations of the same value/potential pair: SADMPlan (one fit matrix, one feature) and SDMXIntPlan
    (numerical-integration weights per feature); again get_vxc is half of dE/dp"""
    plans = env.m.plans
    old = plans.pyscflib
    plans.pyscflib = types.SimpleNamespace(dot=lambda a, b: np.dot(a, b), einsum=lambda s, a, b: np.einsum(s, a, b))
    try:
        if kind == "SADMPlan":
            p = object.__new__(plans.SADMPlan)
            p.nspin, p.nalpha, p.settings = nspin, na, types.SimpleNamespace(nfeat=1)
            p.fit_matrix = env.arr("M", (2, na), lo="-2", hi="2")
            n0, n1, nv = 1, 0, 1
            mk0, mk1 = (lambda: env.zeros((1, 2, ng))), (lambda: None)
        else:
            n0, n1, nv = 2, 1, 4
            p = object.__new__(plans.SDMXIntPlan)
            p.nspin, p.nalpha, p.settings = nspin, na, types.SimpleNamespace(nfeat=n0 + n1)
            p._num_l0_feat, p._num_l1_feat = n0, n1
            p.wt_dict = [env.arr("wt%d" % i, (na,), lo="-2", hi="2") for i in range(n0 + n1)]
            mk0, mk1 = (lambda: env.zeros((na, ng))), (lambda: env.zeros((3, na, ng)))
        x = env.arr("p", (nv, na, ng), lo="-2", hi="2")
        w = env.arr("w", (n0 + n1, ng), lo="-2", hi="2")
        l0tmp, l1tmp = mk0(), mk1()
        ok, feat = env.attempt("get_features_returns", lambda: p.get_features(x.copy(), out=env.zeros((n0 + n1, ng)), l0tmp=l0tmp, l1tmp=l1tmp))
        if not ok:
            return
        ok, out = env.attempt("get_vxc_returns", lambda: p.get_vxc(w.copy(), l0tmp, l1tmp))
        if not ok:
            return
    finally:
        plans.pyscflib = old
    env.check("shapes", np.shape(feat) == (n0 + n1, ng) and np.shape(out) == (nv, na, ng), "%s %s" % (np.shape(feat), np.shape(out)))
    ys = [feat[i, g] for i in range(n0 + n1) for g in range(ng)]
    sd = [w[i, g] for i in range(n0 + n1) for g in range(ng)]
    for v in range(nv):
        for a in range(na):
            for g in range(ng):
                env.vjp("twice_get_vxc_v%d_a%d_g%d_is_dE_dp" % (v, a, g), ys, sd, ("p", (v, a, g)), out[v, a, g] * 2)
