"""C01 link L3 (generator level): the real LCAONLDFGenerator.get_features / get_potential (ciderpress/dft/lcao_nldf_generator.py)
with the real NLDFAuxiliaryPlan underneath (get_rho_tuple, get_interpolation_arguments, get_function_to_convolve incl. the
rho_mult='expnt' product rule, eval_rho_full / eval_vxc_full and everything they call).  Contract stubs: the interpolation
coefficients p_q(a) (leaf functions with dp = dp/da, decided on the C in C02/C11) and the chain
reduce_angc_ylm_ -> convert_rad2orb_ -> transform -> multiply_atc_integrals -> transform -> project_orb2grid, which is a linear map
theta -> f whose backward routine is its transpose (decided pair by pair on the C in C05): here one symbolic matrix M and M^T.
Oracle: for E = sum_i v_i feat_i(rho), get_potential(v) returns dE/d(rho_data) including the gradient chain rule 2 sigma' grad rho."""
from fractions import Fraction

import numpy as np

from ..run import Task
from . import c01_l2, common


class _NS(object):
    pass


def _make_generator(env, plan, s, ng, perm, padding=0):
    gen_mod = env.m.lcao_nldf_generator
    nalpha = plan.nalpha
    nout = (0 if s.nldf_type == "i" else nalpha) + plan.num_vi_ints
    nin = ng * nalpha
    M = env.arr("M", (ng * nout, nin), lo="-2", hi="2")
    w = env.arr("w", (ng,), "pos", lo="1/8", hi="4")

    class Gen(gen_mod.LCAONLDFGenerator):
        def _perform_fwd_convolution(self, theta_gq, grad_mode=False):
            t = theta_gq.reshape(-1)
            out = env.zeros((ng, nout))
            for r in range(ng * nout):
                out[r // nout, r % nout] = sum((M[r, c] * t[c] for c in range(nin)), env.const(0))
            return out

        def _perform_bwd_convolution(self, vf_gq):
            v = vf_gq.reshape(-1)
            out = env.zeros((ng, nalpha))
            for c in range(nin):
                out[c // nalpha, c % nalpha] = sum((M[r, c] * v[r] for r in range(ng * nout)), env.const(0))
            return out

    ccl, interp, gi = _NS(), _NS(), _NS()
    ccl.atco_inp, ccl.atco_out = _NS(), _NS()
    ccl.atco_inp.nao, ccl.atco_out.nao, ccl.num_out = 1, 1, nout
    interp.num_out = nout
    interp.atom_coords = np.zeros((1, 3))
    gi.empty_rlmq = lambda nalpha_: np.zeros((1, 1, nalpha_))
    gi.ngrids = ng
    gi.idx_map = np.array(perm, dtype=np.int64)
    gi.all_weights = w
    gi.padding = padding
    return Gen(plan, ccl, interp, gi), M, w


def h_l3(env, version, level, rho_mult, nspin, ng=2, perm=(1, 0)):
    plan, s = c01_l2.make_plan(env, version, level, rho_mult, nspin, "gq")
    gen, M, w = _make_generator(env, plan, s, ng, perm)
    nrho = 5 if level == "MGGA" else 4
    rho = env.arr("rho", (nrho, ng), lo="-8", hi="8")
    for g in range(ng):
        env.assume(rho[0, g] > env.const(Fraction(1, 10 ** 6)))
        if nrho == 5:
            env.assume(rho[4, g] >= 0)
    env.eps_zero()
    ok, feat = env.attempt("get_features_returns", lambda: gen.get_features(rho.copy(), spin=0))
    if not ok:
        return
    nfeat = s.nfeat
    env.check("feature_shape", np.shape(feat) == (nfeat, ng), str(np.shape(feat)))
    v = env.arr("v", (nfeat, ng), lo="-8", hi="8")
    ok, vrho = env.attempt("get_potential_returns", lambda: gen.get_potential(v.copy(), spin=0))
    if not ok:
        return
    ys = [feat[i, g] for i in range(nfeat) for g in range(ng)]
    sd = [v[i, g] for i in range(nfeat) for g in range(ng)]
    for c in range(nrho):
        for g in range(ng):
            env.vjp("vrho_c%d_g%d" % (c, g), ys, sd, ("rho", (c, g)), vrho[c, g])
    # the potential call needs the forward call
    gen2, _, _ = _make_generator(env, plan, s, ng, perm)
    env.attempt("potential_without_features_rejected", lambda: gen2.get_potential(v.copy(), spin=0), expect=ValueError)


def tasks(tier):
    out = []
    # (version, level, rho_mult, nspin, grid points): the version-ij chain is only decidable at one grid point within the time-outs
    cfgs = [("j", "MGGA", "one", 2, 2), ("j", "MGGA", "expnt", 1, 2), ("i", "GGA", "expnt", 2, 2), ("ij", "GGA", "one", 1, 1), ("ij", "MGGA", "one", 2, 1)]
    if tier == "thorough":
        cfgs = [(v, lv, rm, ns, (1 if v == "ij" else 2)) for v in ("j", "i", "ij") for lv in ("MGGA", "GGA") for rm in ("one", "expnt") for ns in (1, 2)]
    for v, lv, rm, ns, ng in cfgs:
        out.append(Task("L3/%s/%s/%s/nspin%d/ng%d" % (v, lv, rm, ns, ng), h_l3, dict(version=v, level=lv, rho_mult=rm, nspin=ns, ng=ng, perm=tuple(reversed(range(ng)))),
                        mods="numint", max_paths=256, timeout_ms=60000))
    return out
