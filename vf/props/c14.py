"""C14 - saved models / feature lists reload to objects that evaluate identically.

Decided at the dict level with symbolic parameters (E1): for every class of the registry that the
loaded transform_data module itself exposes (ALL_CLASSES), from_dict(as_dict()) gives the same type and
the *identical term* from fill_feat_/fill_deriv_ on symbolic input, for all parameter values; FeatureList
and SplineSetEvaluator likewise; every XCEvalSerializable subclass that defines to_dict must return.
Rejection of unknown codes/formats is decided by CrossHair on the real functions (symbolic strings).
One concrete YAML/joblib file round trip per class is done as translation validation of the dict
level (PyYAML/joblib float round-trip is otherwise an assumption)."""
import inspect
import os
import tempfile

import numpy as np

from ..run import Task
from . import common
from .c12 import map_spec, REAL_PARAMS, ROLE_DOM

PROP_ID = "C14"
sym_mods = common.sym_mods
real_mods = common.real_mods
replay = common.generic_replay


def _build(env, td, cls, tag="", assign=None):
    C = getattr(td, cls)
    idxn, parn = map_spec(C)
    ps = [env.par(tag + p, "real" if p in REAL_PARAMS else "pos") for p in parn]
    if assign is None:
        assign = tuple(range(len(idxn)))
    return C(*assign, *ps), len(idxn)


def h_roundtrip(env, cls, assign=None):
    """`assign`: the feature indices given to the constructor (default 0..n-1 in argument order; the variants use descending and
    repeated indices, which a loader must hand back to the same constructor arguments)"""
    td = env.m.td
    m, nx = _build(env, td, cls, assign=assign)
    x = env.arr("x", (nx, 1), "pos", hi="1e9")
    ok, d = env.attempt("as_dict_returns", lambda: m.as_dict())
    if not ok:
        return
    env.check("dict_has_registered_code", d.get("code") in td.ALL_CLASS_DICT and td.ALL_CLASS_DICT.get(d.get("code")) is type(m),
              "code=%r registry keys=%r" % (d.get("code"), sorted(map(str, td.ALL_CLASS_DICT))))
    d_mem = d
    d = _yaml_contract(env, d)       # the dict as a YAML file round trip hands it back (mappings in sorted-key order)
    ok, m2 = env.attempt("from_dict_returns", lambda: td.FeatureNormalizer.from_dict(d))
    if not ok:
        return
    env.check("same_type", type(m2) is type(m), "%s vs %s" % (type(m2).__name__, type(m).__name__))
    y1, y2 = env.zeros((1,)), env.zeros((1,))
    m.fill_feat_(y1, x.copy())
    m2.fill_feat_(y2, x.copy())
    env.equal("value_identical", y1[0], y2[0])
    dy = env.arr("dy", (1,))
    g1, g2 = env.zeros((nx, 1)), env.zeros((nx, 1))
    m.fill_deriv_(g1, dy.copy(), x.copy())
    m2.fill_deriv_(g2, dy.copy(), x.copy())
    for r in range(nx):
        env.equal("deriv_identical_%d" % r, g1[r, 0], g2[r, 0])
    b1, b2 = m.bounds, m2.bounds
    for k in range(2):
        env.equal("bounds_%d" % k, _num(env, b1[k]), _num(env, b2[k]))
    # second cycle: as_dict is a fixed point
    d2 = m2.as_dict()
    env.check("second_cycle_keys", sorted(d2) == sorted(d), "%r vs %r" % (sorted(d2), sorted(d)))
    for k in sorted(d):
        if k in ("code", "bounds"):
            continue
        env.equal("second_cycle_%s" % k, _num(env, d[k]), _num(env, d2[k]))


def _num(env, v):
    if isinstance(v, float) and v in (float("inf"), float("-inf")):
        return env.const(10 ** 30 if v > 0 else -10 ** 30)
    return v


def _yaml_contract(env, d):
    """what a YAML file round trip does to the *structure* of a dumped dict.  Symbolic runs use PyYAML's documented behaviour as a
    contract stub: `yaml.dump` (default sort_keys=True) writes every mapping with its keys sorted and `yaml.load` rebuilds each
    mapping in file order, so a reloaded mapping iterates in sorted-key order whatever order it was built in; sequences keep their
    order and scalars their value.  Concrete replays go through the real yaml.dump / yaml.load (the loader FeatureList.load uses),
    which also validates the stub."""
    if env.sym:
        def walk(v):
            if isinstance(v, dict):
                try:
                    keys = sorted(v)
                except TypeError:
                    keys = list(v)
                return {k: walk(v[k]) for k in keys}
            if isinstance(v, list):
                return [walk(x) for x in v]
            return v
        return walk(d)
    import yaml
    return yaml.load(yaml.dump(d), Loader=yaml.Loader)


def h_featlist_roundtrip(env, classes, yaml_layer=False):
    td = env.m.td
    objs = []
    nx = 0
    for k, cls in enumerate(classes):
        m, n = _build(env, td, cls, tag="m%d_" % k)
        objs.append(m)
        nx = max(nx, n)
    x = env.arr("x", (nx, 1), "pos", hi="1e9")
    fl = td.FeatureList(objs)
    ok, d = env.attempt("as_dict_returns", lambda: fl.as_dict())
    if not ok:
        return
    if yaml_layer:
        d = _yaml_contract(env, d)
    ok, fl2 = env.attempt("from_dict_returns", lambda: td.FeatureList.from_dict(d))
    if not ok:
        return
    env.check("nfeat", fl2.nfeat == fl.nfeat)
    y1 = fl(x.T.copy())
    y2 = fl2(x.T.copy())
    for k in range(len(classes)):
        env.check("type_%d" % k, type(fl2[k]) is type(fl[k]))
        env.equal("value_%d" % k, y1[0, k], y2[0, k])


def _object_state_roundtrip(env, obj, prefix="ciderpress"):
    """what pickle / joblib / yaml's python-object tags do to an object graph: every instance of a repository class is rebuilt as
    cls.__new__(cls) and given its state back - through __setstate__ if the class defines one, by updating __dict__ otherwise (the
    state is what __getstate__ returns, or __dict__); lists, tuples and dicts are rebuilt element by element, scalars are kept.
    Symbolic runs apply this contract directly; concrete replays use pickle.loads(pickle.dumps(obj))."""
    if not env.sym:
        import pickle
        return pickle.loads(pickle.dumps(obj))

    def walk(v):
        if isinstance(v, list):
            return [walk(x) for x in v]
        if isinstance(v, tuple):
            return tuple(walk(x) for x in v)
        if isinstance(v, dict):
            return {k: walk(x) for k, x in v.items()}
        cls = type(v)
        if getattr(cls, "__module__", "").startswith(prefix) and hasattr(v, "__dict__"):
            gs = getattr(v, "__getstate__", None)
            state = gs() if gs is not None else None
            if state is None:
                state = dict(v.__dict__)
            state = walk(state)
            new = cls.__new__(cls)
            ss = getattr(new, "__setstate__", None)
            if ss is not None:
                ss(state)
            else:
                new.__dict__.update(state)
            return new
        return v
    return walk(obj)


def h_object_state(env, slmode):
    """a FeatNormalizerList (the normaliser list inside FeatureSettings of every saved MappedXC) with symbolic constants and a symbolic
    density cutoff >= 0 (0 is a supported value: no floor) evaluates identically after the object-state round trip that joblib / yaml
    perform, below and above the cutoff"""
    fn = env.m.fn
    cutoff = env.par("cutoff", "nonneg", hi="1/1000")
    c1, c2, p1, p2 = env.par("c1", "pos", hi="8"), env.par("c2", "nonneg", hi="8"), env.par("p1", "real", lo="-2", hi="2"), env.par("p2", "real", lo="-2", hi="2")
    norms = [None, None, None, fn.DensityNormalizer(env.par("d1", "pos", hi="8"), env.par("dp", "real", lo="-2", hi="2")), fn.GeneralNormalizer(c1, c2, p1, p2)]
    nl = fn.FeatNormalizerList(norms, slmode, cutoff=cutoff)
    ok, nl2 = env.attempt("state_roundtrip_returns", lambda: _object_state_roundtrip(env, nl))
    if not ok:
        return
    env.check("type", type(nl2) is type(nl) and nl2.nfeat == nl.nfeat and nl2.slmode == nl.slmode)
    env.equal("cutoff_preserved", nl2.cutoff, nl.cutoff)
    X = env.arr("X", (1, 5, 1), "nonneg", hi="64")
    env.eps_zero()
    y1 = nl.get_normalized_feature_vector(X.copy())
    y2 = nl2.get_normalized_feature_vector(X.copy())
    for i in range(5):
        env.equal("normalised_feature_%d" % i, y1[0, i, 0], y2[0, i, 0])


def h_object_state_evaluator(env, kind):
    """the C-backed kernel evaluators inside a saved model (RBFEvaluator and its subclasses AntisymRBFEvaluator / SpinRBFEvaluator) after
    the object-state round trip joblib / yaml perform: same type, and the reloaded object evaluates to the same value and gradient as the
    original on a symbolic sample (both through the interpreted model_utils.c, as in C11) - in particular it still calls its own C kernel"""
    xe, K = env.m.xc_evaluator, env.m.kernels
    n, nctrl = 1, 2
    al = env.arr("alpha", (nctrl,), lo="-4", hi="4")
    c = env.par("c", "pos", hi="8")
    if kind == "RBFEvaluator":
        nf = 2
        X1, Xc = env.arr("X1", (n, nf), lo="-4", hi="4"), env.arr("Xc", (nctrl, nf), lo="-4", hi="4")
        kern = K.DiffConstantKernel(c) * K.DiffRBF(length_scale=env.arr("l", (nf,), "pos", lo="1/8", hi="8"))
        ev, shp = xe.RBFEvaluator(kern, Xc.copy(), al.copy()), (n, nf)
    elif kind == "AntisymRBFEvaluator":
        nf = 3
        X1, Xc = env.arr("X1", (n, nf), lo="-4", hi="4"), env.arr("Xc", (nctrl, nf), lo="-4", hi="4")
        kern = K.DiffConstantKernel(c) * K.DiffAntisymRBF(length_scale=env.arr("l", (nf - 1,), "pos", lo="1/8", hi="8"))
        ev, shp = xe.AntisymRBFEvaluator(kern, Xc.copy(), al.copy()), (n, nf)
    else:
        nf = 2
        X1, Xc = env.arr("X1", (2, n, nf), lo="-4", hi="4"), env.arr("Xc", (2, nctrl, nf), lo="-4", hi="4")
        kern = K.DiffConstantKernel(c) * K.DiffRBF(length_scale=env.arr("l", (nf,), "pos", lo="1/8", hi="8"))
        ev, shp = xe.SpinRBFEvaluator(kern, Xc.copy(), al.copy()), (2, n, nf)
    ok, ev2 = env.attempt("state_roundtrip_returns", lambda: _object_state_roundtrip(env, ev))
    if not ok:
        return
    env.check("type", type(ev2) is type(ev), "%s vs %s" % (type(ev2).__name__, type(ev).__name__))
    r1, d1, r2, d2 = env.zeros((n,)), env.zeros(shp), env.zeros((n,)), env.zeros(shp)
    ev(X1.copy(), r1, d1)
    ok, _ = env.attempt("reloaded_evaluator_call_returns", lambda: ev2(X1.copy(), r2, d2))
    if not ok:
        return
    env.equal("reloaded_value", r2[0], r1[0])
    for k, (a, b) in enumerate(zip(d2.ravel(), d1.ravel())):
        env.equal("reloaded_gradient_%d" % k, a, b)


def h_unknown_code(env):
    td = env.m.td
    for code in ("", "Omega ", "u", "NOPE", None, 0):
        if code in td.ALL_CLASS_DICT:
            continue
        env.attempt("unknown_code_%r_rejected" % (code,), lambda: td.FeatureNormalizer.from_dict({"code": code, "i": 0}), expect=ValueError)
    env.check("registry_keys_are_strings", all(isinstance(k, str) for k in td.ALL_CLASS_DICT), sorted(map(str, td.ALL_CLASS_DICT)))
    env.check("registry_complete", len(td.ALL_CLASS_DICT) == len(td.ALL_CLASSES))


def h_splineset(env):
    xe = env.m.xc_evaluator
    scale = [env.par("s0"), env.par("s1")]
    const = env.par("c")
    grids = [("g0",), ("g1",)]
    coeffs = [np.arange(3.0), np.arange(4.0)]
    ev = xe.SplineSetEvaluator(scale, [(0,), (1, 2)], grids, coeffs, const=const)
    ok, d = env.attempt("to_dict_returns", lambda: ev.to_dict())
    if not ok:
        return
    d = _yaml_contract(env, d)
    ok, ev2 = env.attempt("from_dict_returns", lambda: xe.SplineSetEvaluator.from_dict(d))
    if not ok:
        return
    env.check("type", type(ev2) is type(ev))
    env.check("nterms", ev2.nterms == ev.nterms)
    env.check("ind_sets", list(ev2.ind_sets) == list(ev.ind_sets))
    env.check("grids", list(ev2.spline_grids) == list(ev.spline_grids))
    env.check("coeffs", all(np.array_equal(a, b) for a, b in zip(ev2.coeff_sets, ev.coeff_sets)))
    for k in range(2):
        env.equal("scale_%d" % k, ev2.scale[k], ev.scale[k])
    env.equal("const", ev2.const, ev.const)


def h_serializable_contract(env, modname, clsname):
    """every XCEvalSerializable subclass that *defines* to_dict must return from it (not raise)"""
    mod = getattr(env.m, modname)
    C = getattr(mod, clsname)
    td = env.m.td
    bl = env.m.baselines
    fl = td.FeatureList([td.UMap(0, env.par("g", "pos"))])
    if clsname in ("MappedDFTKernel", "MappedDFTKernel2"):
        # an evaluator that itself implements to_dict, so that the only thing exercised is the kernel's own code
        ev = env.m.xc_evaluator.SplineSetEvaluator([env.par("s0")], [(0,)], [("g0",)], [np.arange(3.0)], const=env.par("c"))
        if clsname == "MappedDFTKernel":
            obj = C([ev], fl, "SEP", bl.lda_x, bl.zero_xc)
        else:
            obj = C([ev], fl, "SEP", "LDA_X")
    else:
        return
    env.attempt("to_dict_returns", lambda: obj.to_dict())


def c_file_roundtrip(cfg):
    """concrete translation validation of the file layer: FeatureList.dump/load (YAML) per class, and
    yaml/joblib round trip of a whole MappedXC through load_cider_model; bit-identical evaluation"""
    import yaml
    import joblib
    seed = cfg.get("seed", 0)
    rng = np.random.default_rng(seed)
    m = common.real_mods()
    td = m.td
    recs = []

    def rec(name, ok, detail=""):
        recs.append(dict(kind="fact", name="file/" + name, path="", verdict="unsat" if ok else "sat", t=0.0, size=1,
                         trivial=False, phase="concrete-file-roundtrip", detail=detail, model={}, model_float={}))

    tmp = tempfile.mkdtemp(prefix="verif_c14_")
    try:
        for C in td.ALL_CLASSES:
            idxn, parn = map_spec(C)
            ps = [float(rng.uniform(0.3, 2.0)) for _ in parn]
            obj = C(*range(len(idxn)), *ps)
            fl = td.FeatureList([obj])
            x = rng.uniform(0.1, 2.0, size=(3, max(len(idxn), 1)))
            p = os.path.join(tmp, "fl.yaml")
            try:
                fl.dump(p)
                fl2 = td.FeatureList.load(p)
                same = type(fl2[0]) is type(obj) and np.array_equal(fl(x.copy()), fl2(x.copy()))
                rec("yaml_featlist/%s" % C.__name__, same, "bitwise comparison of FeatureList(x)")
            except Exception as e:  # noqa
                rec("yaml_featlist/%s" % C.__name__, False, "%s: %s" % (type(e).__name__, e))
        # whole model through load_cider_model
        try:
            mu = m.model_utils
            st = m.settings
            xe = m.xc_evaluator
            bl = m.baselines
            sl = st.SemilocalSettings("npa")
            fs = st.FeatureSettings(sl_settings=sl)
            fs.assign_reasonable_normalizer()
            fl = td.FeatureList([td.UMap(1, 0.3), td.TMap(1, 2)])
            mk = xe.MappedDFTKernel([xe.GlobalLinearEvaluator([0.3, -0.2])], fl, "SEP", bl.lda_x, bl.zero_xc)
            mx = xe.MappedXC([mk], fs)
            X0T = rng.uniform(0.2, 1.5, size=(1, 3, 4))
            ref = mx(X0T.copy())
            for fmt in ("yaml", "joblib"):
                p = os.path.join(tmp, "model." + fmt)
                if fmt == "yaml":
                    with open(p, "w") as f:
                        yaml.dump(mx, f)
                else:
                    joblib.dump(mx, p)
                for given in (None, fmt):
                    mx2 = mu.load_cider_model(p, given)
                    got = mx2(X0T.copy())
                    same = type(mx2) is type(mx) and np.array_equal(ref[0], got[0]) and np.array_equal(ref[1], got[1])
                    rec("model_%s_format=%s" % (fmt, given), same)
            # a second, different model written to the SAME path must be what the next load returns
            mk_b = xe.MappedDFTKernel([xe.GlobalLinearEvaluator([-0.7, 0.45])], td.FeatureList([td.UMap(1, 0.9), td.TMap(1, 2)]), "SEP", bl.lda_x, bl.zero_xc)
            mx_b = xe.MappedXC([mk_b], fs)
            ref_b = mx_b(X0T.copy())
            for fmt in ("yaml", "joblib"):
                p = os.path.join(tmp, "model." + fmt)
                if fmt == "yaml":
                    with open(p, "w") as f:
                        yaml.dump(mx_b, f)
                else:
                    joblib.dump(mx_b, p)
                for given in (None, fmt):
                    got = mu.load_cider_model(p, given)(X0T.copy())
                    rec("overwritten_%s_format=%s_returns_the_model_on_disk" % (fmt, given), np.array_equal(ref_b[0], got[0]) and np.array_equal(ref_b[1], got[1]),
                        "max |dev| from the model on disk: %r" % float(np.max(np.abs(ref_b[0] - got[0]))))
                m_again = mu.load_cider_model(p, None)
                m_again2 = mu.load_cider_model(p, None)
                rec("repeated_loads_are_independent_objects_%s" % fmt, m_again is not m_again2)
            for bad, fmtb in ((os.path.join(tmp, "model.txt"), None), (os.path.join(tmp, "model.yaml"), "json")):
                try:
                    mu.load_cider_model(bad, fmtb)
                    rec("unsupported_format_rejected/%s" % fmtb, False, "returned")
                except ValueError:
                    rec("unsupported_format_rejected/%s" % fmtb, True)
            try:
                mu.load_cider_model({"not": "a model"}, None)
                rec("non_model_rejected", False, "returned")
            except ValueError:
                rec("non_model_rejected", True)
        except Exception as e:  # noqa
            import traceback
            rec("model_roundtrip", False, "%s: %s %s" % (type(e).__name__, e, traceback.format_exc()[-400:]))
    finally:
        import shutil
        shutil.rmtree(tmp, True)
    return dict(records=recs, paths=0, solver_time=0.0)


def tasks(tier):
    td = sym_mods().td
    out = []
    for C in td.ALL_CLASSES:
        out.append(Task("roundtrip/%s" % C.__name__, h_roundtrip, dict(cls=C.__name__), max_paths=600))
        n = len(map_spec(C)[0])
        if n >= 2:
            import itertools
            variants = [tuple(reversed(range(n)))]
            if tier == "thorough":
                variants = [a for a in itertools.product(range(n), repeat=n) if a != tuple(range(n))]
            for a in variants:
                out.append(Task("roundtrip/%s/idx=%s" % (C.__name__, ",".join(map(str, a))), h_roundtrip, dict(cls=C.__name__, assign=a), max_paths=600))
    names = [C.__name__ for C in td.ALL_CLASSES]
    groups = [names[i:i + 3] for i in range(0, len(names), 3)] if tier == "thorough" else [names[:3], names[-3:]]
    for n, g in enumerate(groups):
        out.append(Task("featlist_roundtrip/%d" % n, h_featlist_roundtrip, dict(classes=g), max_paths=600))
    # through the YAML layer (mappings come back in sorted-key order): long enough that "10" sorts before "2"
    out.append(Task("featlist_roundtrip/yaml/12maps", h_featlist_roundtrip, dict(classes=[names[i % len(names)] for i in range(12)], yaml_layer=True), max_paths=600))
    out.append(Task("featlist_roundtrip/yaml/3maps", h_featlist_roundtrip, dict(classes=names[3:6], yaml_layer=True), max_paths=600))
    for slmode in (("npa", "ns") if tier == "quick" else ("npa", "nst", "np", "ns")):
        out.append(Task("object_state/FeatNormalizerList/%s" % slmode, h_object_state, dict(slmode=slmode), max_paths=256))
    for kind in ("RBFEvaluator", "AntisymRBFEvaluator", "SpinRBFEvaluator"):
        out.append(Task("object_state/%s" % kind, h_object_state_evaluator, dict(kind=kind), mods="kernels", max_paths=64))
    out.append(Task("unknown_code", h_unknown_code, {}))
    out.append(Task("splineset", h_splineset, {}))
    out.append(Task("to_dict/MappedDFTKernel", h_serializable_contract, dict(modname="xc_evaluator", clsname="MappedDFTKernel")))
    out.append(Task("to_dict/MappedDFTKernel2", h_serializable_contract, dict(modname="xc_evaluator2", clsname="MappedDFTKernel2")))
    out.append(Task("file", c_file_roundtrip, dict(seed=int(os.environ.get("VERIF_SEED", "0") or 0)), engine="custom"))
    from .. import xh
    out += xh.tasks_for("c14", tier)
    return out


def prepare(tier):
    m = sym_mods()
    m.td, m.xc_evaluator, m.xc_evaluator2, m.baselines
    from . import c11
    mk = sym_mods("kernels")
    mk.kernels, mk.xc_evaluator
    c11._install()


def replay(task, rec):
    if task.engine == "custom":
        if rec["name"].startswith("file/"):
            out = c_file_roundtrip(task.cfg)
            for r in out["records"]:
                if r["name"] == rec["name"]:
                    return dict(confirmed=r["verdict"] == "sat", detail=r.get("detail"))
            return dict(confirmed=False, detail="not produced")
        from .. import xh
        return xh.replay(task, rec)
    return common.generic_replay(task, rec)


META = dict(
    explanation="symbolic execution of as_dict/from_dict/to_dict of the real classes with symbolic parameters; "
                "z3 decides that original and reloaded object produce the identical term; CrossHair (z3) on the "
                "real from_dict/load_cider_model dispatch with symbolic strings; concrete YAML/joblib file round trip as validation",
    functions=['ciderpress/dft/xc_evaluator.py: RBFEvaluator / AntisymRBFEvaluator / SpinRBFEvaluator through the object-state round trip, evaluated through model_utils.c (object_state/*Evaluator)', 'ciderpress/dft/feat_normalizer.py: FeatNormalizerList / normaliser classes through the object-state round trip (__getstate__/__setstate__/__dict__), get_normalized_feature_vector (object_state/*)', "ciderpress/dft/transform_data.py: <every class in ALL_CLASSES>.as_dict/from_dict, FeatureNormalizer.from_dict, FeatureList.as_dict/from_dict/dump/load",
               "ciderpress/dft/xc_evaluator.py: SplineSetEvaluator.to_dict/from_dict, MappedDFTKernel.to_dict", "ciderpress/dft/xc_evaluator2.py: MappedDFTKernel2.to_dict",
               "ciderpress/dft/model_utils.py: load_cider_model"],
    bounds=dict(index_assignments="constructor indices 0..n-1 in argument order and in descending order (quick); every assignment in {0..n-1}^n (thorough)", parameters="symbolic reals", features="symbolic in (0, 1e9]", cycles="2 save/load cycles", feature_lists="3 maps per list (all classes over the groups); through the YAML contract: 3 and 12 maps",
                strings="CrossHair: symbolic str, per-condition timeout", file_layer="one concrete round trip per class and format"),
    stubs=["yaml/joblib file I/O is not executed symbolically; contract stub for the YAML layer: every mapping is rebuilt with its keys in sorted order "
           "(yaml.dump sort_keys=True + yaml.load file order), sequences and scalars unchanged; concrete replays use the real yaml.dump/yaml.load with the loader FeatureList.load uses"],
    assumptions=["PyYAML and joblib round-trip float64 exactly (checked concretely on one sample per class)",
                 "ElectronAnalyzer.dump/load (HDF5 + PySCF objects) not covered", "NNEvaluator (torch absent) not covered"],
)
