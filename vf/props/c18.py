"""C18 - bookkeeping is consistent, bad input is rejected, C calls stay inside their buffers.  (filled in below)"""
from fractions import Fraction

import numpy as np

from ..run import Task
from . import common

PROP_ID = "C18"
sym_mods = common.sym_mods
real_mods = common.real_mods


from . import c01_l2


def _stub_plan_cls(env):
    plans = env.m.plans

    class P(plans.NLDFAuxiliaryPlan):
        def _run_setup(self):
            pass

        def _get_interpolation_arguments(self, rho_tuple, i=-1):
            return self.eval_feat_exp(rho_tuple, i=i)

        def _get_interpolation_coefficients(self, arg_g, i=-1, vbuf=None, dbuf=None):
            raise NotImplementedError

        def _get_transformed_interpolation_terms(self, p_xx, i=-1, fwd=True, inplace=False):
            return p_xx
    return P


def h_plan_ctor(env, case):
    """NLDFAuxiliaryPlan.__init__: every documented-illegal argument raises; the numeric ones are symbolic over their whole illegal
    region (the solver looks for a value in the region that is accepted)"""
    st = env.m.settings
    s = st.NLDFSettingsVJ("MGGA", [1.0, 0.0, 0.03125], "one", ["se"], [[1.0, 0.0, 0.03125]])
    P = _stub_plan_cls(env)
    kw = dict(nldf_settings=s, nspin=1, alpha0=0.01, lambd=2.0, nalpha=3)
    expect = ValueError
    if case == "alpha0<=0":
        kw["alpha0"] = env.par("alpha0", lo="-4", hi="0")
    elif case == "lambd<=1":
        kw["lambd"] = env.par("lambd", lo="-4", hi="1")
    elif case == "rhocut<0":
        kw["rhocut"] = env.par("rhocut", lo="-4", hi="-1/1048576")
    elif case == "expcut<0":
        kw["expcut"] = env.par("expcut", lo="-4", hi="-1/1048576")
    elif case == "rhocut,expcut>=0":
        kw["rhocut"] = env.par("rhocut", "nonneg", hi="4")
        kw["expcut"] = env.par("expcut", "nonneg", hi="4")
        kw["nspin"] = 2
        expect = None
    elif case.startswith("nalpha="):
        kw["nalpha"] = {"0": 0, "-1": -1, "2.5": 2.5, "str": "3", "None": None}[case.split("=")[1]]
    elif case.startswith("nspin="):
        kw["nspin"] = {"0": 0, "3": 3, "-1": -1, "None": None}[case.split("=")[1]]
    elif case == "coef_order":
        kw["coef_order"] = "xg"
    elif case == "alpha_formula":
        kw["alpha_formula"] = "even"
    elif case == "settings_type":
        kw["nldf_settings"] = st.SemilocalSettings("nst")
    elif case == "valid":
        expect = None
    else:
        raise ValueError(case)
    ok, p = env.attempt("constructor_%s" % ("returns" if expect is None else "raises_ValueError"), lambda: P(**kw), expect=expect)
    if expect is None and ok:
        env.check("nalpha_alphas", len(p.alphas) == 3 == p.nalpha, str(p.alphas))
        if case == "rhocut,expcut>=0":
            env.equal("rhocut_is_per_spin", p.rhocut, kw["rhocut"] / 2)
            env.equal("expcut_kept", p.expcut, kw["expcut"])


def h_large_exponent(env, level, version, nspin, i, ng=1):
    """eval_feat_exp with raise_large_expnt_error: a call that returns never hands back an exponent above max(alphas) at a
    point with rho > rhocut (it raises instead of extrapolating silently)"""
    plan, s = c01_l2.make_plan(env, version, level, "one", nspin, "gq", nalpha=2, raise_large=True)
    rho = env.arr("rho", (ng,), lo="-1", hi="64")
    sigma = env.arr("sigma", (ng,), "nonneg", hi="64")
    tup = (rho, sigma)
    if level == "MGGA":
        tup = tup + (env.arr("tau", (ng,), "nonneg", hi="64"),)
    env.eps_zero()
    ok, res = env.attempt("eval_feat_exp", lambda: plan.eval_feat_exp(tuple(x.copy() for x in tup), i=i), expect=None)
    amax = max(plan.alphas[0], plan.alphas[1]) if not env.sym else plan.alphas[1]
    if not ok:
        # raising is always allowed by the property; record that the only error is the documented one
        env.obls[-1].got = isinstance(res, RuntimeError)
        env.obls[-1].name = "eval_feat_exp_raises_only_the_documented_error"
        return
    env.obls[-1].name = "eval_feat_exp_returned"
    a = res[0]
    for g in range(ng):
        if rho[g] > plan.rhocut:
            env.holds("returned_exponent_%d_within_interpolation_range" % g, a[g] <= amax)
    env.attempt("feature_index_out_of_range_rejected", lambda: plan.eval_feat_exp(tuple(x.copy() for x in tup), i=len(s.feat_params)), expect=ValueError)


GRIDS_C = "ciderpress/lib/mod_cider/cider_grids.c"
CSTATS = {}


def h_reduce_angc_wrapper(env, nalpha, stride, offset, a2y, nw=(2, 3), lmax=1):
    """AtomicGridsIndexer.reduce_angc_ylm_ (the real wrapper, asserts included) -> clang IR of reduce_angc_to_ylm / reduce_ylm_to_angc with
    every buffer an exactly sized bounds-checked object: an accepted call touches nothing outside the arrays it was given, and the
    call is refused when offset + nalpha > stride"""
    gi = env.m.grids_indexer
    nlm = (lmax + 1) ** 2
    nrad = len(nw)
    ng = sum(nw)
    rad_loc = np.array([0] + list(np.cumsum(nw)), dtype=np.int32)
    ylm_loc = np.array([0] + list(np.cumsum(nw))[:-1], dtype=np.int32)
    ylm = env.arr("ylm", (ng, nlm), lo="-2", hi="2")
    ix = gi.AtomicGridsIndexer(1, lmax, env.arr("rad", (nrad,), "pos", hi="8"), np.zeros(nrad, dtype=np.int32), np.array([0, nrad], dtype=np.int32), rad_loc, ylm, ylm_loc)
    ix.set_weights(env.arr("w", (ng,), "pos", hi="8"))
    th_rlmq = env.arr("t", (nrad, nlm, nalpha), lo="-2", hi="2")
    th_gq = env.arr("g", (ng, stride), lo="-2", hi="2")
    legal = nalpha + (offset or 0) <= stride
    a, b = th_rlmq.copy(), th_gq.copy()
    ok, _ = env.attempt("accepted_call_returns_without_out_of_bounds_access" if legal else "offset+nalpha>stride_rejected",
                        lambda: ix.reduce_angc_ylm_(a, b, a2y=a2y, offset=offset), expect=None if legal else AssertionError)
    if not (legal and ok):
        return
    if a2y:
        for g in range(ng):
            for c in range(stride):
                env.equal("input_untouched_%d_%d" % (g, c), b[g, c], th_gq[g, c])
    else:
        off = offset or 0
        for g in range(ng):
            for c in range(stride):
                if not (off <= c < off + nalpha):
                    env.equal("outside_window_untouched_%d_%d" % (g, c), b[g, c], th_gq[g, c])
        for idx in np.ndindex(*th_rlmq.shape):
            env.equal("input_untouched_%s" % "_".join(map(str, idx)), a[idx], th_rlmq[idx])
    # wrong shapes are refused before the C call
    env.attempt("wrong_theta_rlmq_shape_rejected", lambda: ix.reduce_angc_ylm_(env.zeros((nrad, nlm + 1, nalpha)), th_gq.copy(), a2y=a2y, offset=offset), expect=AssertionError)
    env.attempt("wrong_theta_gq_rows_rejected", lambda: ix.reduce_angc_ylm_(th_rlmq.copy(), env.zeros((ng - 1, stride)), a2y=a2y, offset=offset), expect=AssertionError)


def h_convert_rad2orb(env, nlm, rad2orb, nalpha=2, stride=3, offset=1):
    """ATCBasis.convert_rad2orb_ (the real wrapper on a real basis struct with l <= 1 shells, C interpreted with exactly sized,
    bounds-checked buffers): with enough spherical-harmonic columns (nlm >= (lmax+1)^2 = 4) the accepted call stays inside its arrays;
    with too few the call must be refused, not passed on to C, which indexes column l*l + m without looking at nlm"""
    from . import c05, c05_grid
    W = c05._real_world()
    lc = env.m.lcao_convolutions
    atco = c05_grid._twin(lc.ATCBasis, W["atco"]) if env.sym else W["atco"]
    nao = W["atco"].nao
    rads = np.ascontiguousarray(np.array([0.3, 0.9, 0.4, 1.1, 1.7]))
    loc = np.array([0, 2, 5], dtype=np.int32) if rad2orb else np.array([0, 0, 1, 1, 1], dtype=np.int32)
    th = env.arr("t", (5, nlm, nalpha), lo="-2", hi="2")
    p = env.arr("p", (nao, stride), lo="-2", hi="2")
    cast = (lambda a: a.copy()) if env.sym else (lambda a: np.ascontiguousarray(a, dtype=float))
    a, b = cast(th), cast(p)
    enough = nlm >= 4
    name = "accepted_call_returns_without_out_of_bounds_access" if enough else "too_few_spherical_harmonic_columns_rejected"
    ok, _ = env.attempt(name, lambda: atco.convert_rad2orb_(a, b, loc, rads, rad2orb=rad2orb, offset=offset), expect=None if enough else (AssertionError, ValueError))
    if not (enough and ok):
        return
    for u in range(nao):
        for c in range(stride):
            if not (offset <= c < offset + nalpha) or not rad2orb:
                env.equal("p_outside_window_or_input_untouched_%d_%d" % (u, c), b[u, c], p[u, c])
    if rad2orb:
        for idx in np.ndindex(5, nlm, nalpha):
            env.equal("theta_input_untouched_%s" % "_".join(map(str, idx)), a[idx], th[idx])


def h_shape_checks(env, which):
    """Python-level shape guards in front of the numerical kernels (concrete shapes one off in each dimension)"""
    if which == "FeatNormalizerList":
        fn = env.m.fn
        nl = fn.FeatNormalizerList([None, fn.ConstantNormalizer(env.const(2)), None], slmode="nst")
        good = env.arr("x", (1, 3, 2), "pos", hi="8")
        ok, out = env.attempt("right_shape_accepted", lambda: nl.get_normalized_feature_vector(good.copy()))
        if ok:
            env.check("output_shape", tuple(out.shape) == (1, 3, 2), str(out.shape))
        for nm, shp in [("nfeat+1", (1, 4, 2)), ("nfeat-1", (1, 2, 2)), ("ndim2", (3, 2)), ("ndim4", (1, 1, 3, 2))]:
            env.attempt("wrong_shape_%s_rejected" % nm, lambda: nl.get_normalized_feature_vector(env.zeros(shp) + env.const(1)), expect=ValueError)
    elif which == "KernelEvaluator":
        xe, K = env.m.xc_evaluator, env.m.kernels
        ev = xe.KernelEvaluator(K.DiffRBF(length_scale=env.arr("l", (2,), "pos", lo="1/8", hi="8")), env.arr("Xc", (2, 2), lo="-4", hi="4"), env.arr("al", (2,), lo="-4", hi="4"))
        X = env.arr("X", (1, 2), lo="-4", hi="4")
        env.attempt("right_shapes_accepted", lambda: ev(X.copy(), env.zeros((1,)), env.zeros((1, 2))))
        env.attempt("wrong_res_shape_rejected", lambda: ev(X.copy(), env.zeros((2,)), env.zeros((1, 2))), expect=ValueError)
        env.attempt("wrong_dres_shape_rejected", lambda: ev(X.copy(), env.zeros((1,)), env.zeros((1, 3))), expect=ValueError)
        env.attempt("wrong_dres_rows_rejected", lambda: ev(X.copy(), env.zeros((1,)), env.zeros((2, 2))), expect=ValueError)
    elif which == "ModelWithNormalizer":
        xe, fn = env.m.xc_evaluator, env.m.fn

        class M(object):
            nfeat = 3
        env.attempt("matching_sizes_accepted", lambda: xe.ModelWithNormalizer(M(), fn.FeatNormalizerList([None] * 3, slmode="nst")))
        env.attempt("fewer_normalizers_rejected", lambda: xe.ModelWithNormalizer(M(), fn.FeatNormalizerList([None] * 2, slmode="nst")), expect=ValueError)
        env.attempt("more_normalizers_rejected", lambda: xe.ModelWithNormalizer(M(), fn.FeatNormalizerList([None] * 4, slmode="nst")), expect=ValueError)
    elif which in ("ConvolutionCollection", "ConvolutionCollectionK"):
        # default-output call: the array the wrapper allocates itself has the documented shape and passes the wrapper's own asserts
        lc = env.m.lcao_convolutions

        class B(object):
            def __init__(self, nao):
                self.nao = nao

        class Rec(object):
            def __getattr__(self, k):
                return lambda *a: None
        saved = lc.libcider
        lc.libcider = Rec()
        try:
            class T(getattr(lc, which)):
                def __del__(self):
                    pass
            me = object.__new__(T)
            me.atco_inp, me.atco_out, me._nalpha, me._nbeta, me._integrals_initialized, me._ccl = B(2), B(3), 2, 2, True, None
            for fwd in (True, False):
                x = env.arr("x%d" % fwd, ((2 if fwd else 3), 2), lo="-2", hi="2")
                ok, out = env.attempt("default_output_%s_accepted" % ("fwd" if fwd else "bwd"), lambda: me.multiply_atc_integrals(x.copy(), fwd=fwd))
                if ok:
                    env.check("default_output_%s_shape" % ("fwd" if fwd else "bwd"), tuple(out.shape) == ((3 if fwd else 2), 2), str(out.shape))
                env.attempt("wrong_input_rows_%s_rejected" % ("fwd" if fwd else "bwd"), lambda: me.multiply_atc_integrals(env.zeros(((3 if fwd else 2), 2)), fwd=fwd), expect=AssertionError)
        finally:
            lc.libcider = saved
    else:
        raise ValueError(which)


COEFS_C = "ciderpress/lib/mod_cider/cider_coefs.c"


def h_spline_plan(env, nalpha, spline_size, formula, order, ng=1):
    """NLDFSplinePlan.get_a2q_fast + _get_interpolation_coefficients (real wrappers -> IR of cider_ind_*, cider_ind_clip,
    cider_coefs_spline_*) with raise_large_expnt_error=False (the accepted saturating mode) and a spline table of exactly
    spline_size rows: for every exponent the index handed to C is the documented knot coordinate clipped to [0, spline_size - 1),
    and the coefficient routine reads only inside the table"""
    plans, st = env.m.plans, env.m.settings
    s = st.NLDFSettingsVJ("GGA", [1.0, 0.0], "one", ["se"], [[1.0, 0.0]])
    S = spline_size if spline_size is not None else nalpha

    class P(plans.NLDFSplinePlan):
        def _run_setup(self):
            tabs = [env.arr("w%d" % k, (S, self.nalpha, 4), lo="-2", hi="2") for k in range(2)]
            self._alpha_transform = tabs
            self._local_alpha_transform = tabs
    ok, plan = env.attempt("plan_constructed", lambda: P(s, 1, 0.5, 2.0, nalpha, coef_order=order, alpha_formula=formula, spline_size=spline_size, raise_large_expnt_error=False))
    if not ok:
        return
    a = env.arr("a", (ng,), "pos", lo="1/64", hi="4096")
    ok, out = env.attempt("get_a2q_fast_returns", lambda: plan.get_a2q_fast(a.copy()))
    if not ok:
        return
    di, ddi = out
    log = plans.np.log if env.sym else np.log
    a0, lam = env.const(Fraction(float(plan.alpha0))), env.const(Fraction(float(plan.lambd)))     # exact constants (log of a float would be a rounded number)
    for g in range(ng):
        q = log(a[g] / a0) / log(lam) if formula == "etb" else log(a[g] / a0 + 1) / log(lam)
        t = q * env.const(Fraction(S - 1, nalpha - 1))          # knot coordinate of this exponent in the spline table
        env.holds("index_%d_nonnegative" % g, di[g] >= 0)
        env.holds("index_%d_below_last_knot" % g, di[g] < S - 1)
        if bool(t > 0) and bool(t < S - 1):
            env.equal("index_%d_is_documented_knot_coordinate" % g, di[g], t)
            env.deriv("index_%d_derivative" % g, di[g], ("a", (g,)), ddi[g])
        else:
            env.equal("clipped_index_%d_derivative_zero" % g, ddi[g], env.const(0))
    if env.sym:
        from ..llsym import bridge
        bridge.FLOOR_HINTS = list(range(S + 4))
    try:
        ok, _ = env.attempt("coefficient_routine_reads_inside_the_table", lambda: plan._get_interpolation_coefficients(di.copy(), i=0, local=False))
    finally:
        if env.sym:
            bridge.FLOOR_HINTS = ()


def tasks(tier):
    out = []
    for case in ["alpha0<=0", "lambd<=1", "rhocut<0", "expcut<0", "rhocut,expcut>=0", "nalpha=0", "nalpha=-1", "nalpha=2.5", "nalpha=str", "nspin=0", "nspin=3", "nspin=None",
                 "coef_order", "alpha_formula", "settings_type", "valid"]:
        out.append(Task("plan_ctor/%s" % case, h_plan_ctor, dict(case=case), mods="dft"))
    for level, version, nspin, i, ng in [("MGGA", "j", 1, -1, 1), ("MGGA", "j", 2, 0, 1), ("GGA", "k", 1, 1, 2), ("GGA", "ij", 2, -1, 1)] + \
            ([("MGGA", "k", 2, 1, 2), ("GGA", "j", 1, 0, 2), ("MGGA", "ij", 1, 0, 2), ("MGGA", "j", 1, -1, 2)] if tier == "thorough" else []):
        out.append(Task("large_exponent/%s/%s/nspin%d/i%d/ng%d" % (level, version, nspin, i, ng), h_large_exponent, dict(level=level, version=version, nspin=nspin, i=i, ng=ng), mods="dft", max_paths=256))
    # C buffers through the real wrappers (every load/store of the interpreted C is checked against the exact buffer sizes)
    lay = [(2, 2, None, True), (2, 3, 1, False), (1, 3, 2, True), (2, 3, 0, False), (2, 3, 2, True), (3, 3, 1, False)]
    if tier == "thorough":
        lay += [(1, 1, 0, True), (1, 1, 0, False), (2, 4, 2, True), (2, 4, 2, False), (3, 4, 2, True), (1, 4, 4, False)]
    for nalpha, stride, offset, a2y in lay:
        out.append(Task("buffers/reduce_angc_ylm_/%s/nalpha%d_stride%d_offset%s" % ("a2y" if a2y else "y2a", nalpha, stride, offset), h_reduce_angc_wrapper,
                        dict(nalpha=nalpha, stride=stride, offset=offset, a2y=a2y), mods="grids"))
    sp = [(3, None, "etb", "gq"), (3, 5, "etb", "gq"), (3, 5, "zexp", "qg"), (4, 3, "etb", "qg")]
    if tier == "thorough":
        sp += [(3, 5, "etb", "qg"), (3, 5, "zexp", "gq"), (4, 3, "zexp", "gq"), (3, 7, "etb", "gq"), (5, 3, "etb", "gq")]
    for nlm in (4, 9, 1):
        for r2o in (True, False):
            out.append(Task("buffers/convert_rad2orb_/nlm%d/%s" % (nlm, "rad2orb" if r2o else "orb2rad"), h_convert_rad2orb, dict(nlm=nlm, rad2orb=r2o), mods="kernels"))
    for nalpha, S, formula, order in sp:
        out.append(Task("buffers/NLDFSplinePlan/nalpha%d_spline%s/%s/%s" % (nalpha, S, formula, order), h_spline_plan, dict(nalpha=nalpha, spline_size=S, formula=formula, order=order),
                        mods="dft", max_paths=256))
    from . import c11, c20
    for kind in ["const*subset_slice_open", "const*subset_slice_step", "const*subset_list", "full"]:
        out.append(Task("buffers/RBFEvaluator/%s" % kind, c11.h_rbf, dict(kind=kind), mods="kernels", max_paths=16))
    out.append(Task("buffers/SpinRBFEvaluator", c11.h_spin, {}, mods="kernels"))
    for cfg in c20._cfgs("quick")[:: (4 if tier == "quick" else 1)]:
        dims, nt, fwd, r2c, inplace, bf = cfg
        out.append(Task("buffers/FFTWrapper/%s/nt%d/%s%s%s%s" % ("x".join(map(str, dims)), nt, "f" if fwd else "b", "r" if r2c else "c", "i" if inplace else "o", "F" if bf else "L"),
                        c20.h_fft, dict(dims=dims, nt=nt, fwd=fwd, r2c=r2c, inplace=inplace, bf=bf), mods="fft"))
    for which in ["FeatNormalizerList", "KernelEvaluator", "ModelWithNormalizer", "ConvolutionCollection", "ConvolutionCollectionK"]:
        out.append(Task("shape_guards/%s" % which, h_shape_checks, dict(which=which), mods="kernels"))
    from .. import xh
    out += xh.tasks_for("c18", tier)
    return out


def prepare(tier):
    from ..llsym import bridge
    from . import c11, c20
    m = sym_mods("dft")
    m.settings, m.plans
    c11.prepare(tier)
    c20.prepare(tier)
    g = sym_mods("grids")
    g.grids_indexer
    bridge.install(common.ctx(), "libmcider", GRIDS_C, ["reduce_angc_to_ylm", "reduce_ylm_to_angc"], hybrid=True, stats=CSTATS)
    bridge.module(GRIDS_C)
    bridge.install(common.ctx(), "libmcider", COEFS_C, ["cider_ind_etb", "cider_ind_zexp", "cider_ind_clip", "cider_coefs_spline_gq", "cider_coefs_spline_qg"], hybrid=True, stats=CSTATS)
    bridge.module(COEFS_C)
    k = sym_mods("kernels")
    k.fn, k.xc_evaluator, k.kernels, k.lcao_convolutions
    from . import c05, c05_grid
    W = c05._real_world()
    bridge.install(common.ctx(), "libmcider", c05.CONV_C, ["contract_rad_to_orb", "contract_orb_to_rad"], hybrid=True, stats=CSTATS)
    lib = common.ctx().load_library("libmcider")
    for name in c05_grid.PASSTHROUGH:
        lib.handlers[name] = (lambda *a, _f=getattr(W["lc"].libcider, name): _f(*a))
    lib.handlers["free_atc_basis_set"] = lambda *a: None


NEEDS_FFT = True


def replay(task, rec):
    if task.engine == "custom":
        from .. import xh
        return xh.replay(task, rec)
    if task.name.startswith("buffers/FFTWrapper"):
        from . import c20
        return c20.replay(task, rec)
    return common.generic_replay(task, rec)


def real_mods_for(task):
    if task.name.startswith("buffers/FFTWrapper"):
        from . import c20
        return c20._Real()
    return real_mods(task.real_mods)


def extra_evidence(results):
    from ..llsym import ir
    return dict(ir_sources_sha256={k.replace("/repo/", ""): v for k, v in ir.EMITTED.items()})


META = dict(
    explanation="(1) CrossHair (z3 per path) on the real settings constructors with arguments decoded from small symbolic integers/floats: each constructor raises iff an argument "
                "is illegal per its docstring, and accepted settings have nfeat == len(get_feat_usps()) == len(ueg_vector()) == len(get_reasonable_normalizer()) with "
                "FeatureSettings.get_feat_loc the running sum, for every combination of families; (2) symbolic execution of NLDFAuxiliaryPlan.__init__ over the whole illegal region of "
                "each numeric argument and of eval_feat_exp with symbolic densities (a returning call never yields an exponent above max(alphas) at rho > rhocut); (3) the real ctypes "
                "wrappers (reduce_angc_ylm_, RBFEvaluator family, FFTWrapper) run clang IR of the C in a bounds-checked interpreter with exactly sized buffers; (4) Python shape guards",
    functions=['ciderpress/dft/lcao_convolutions.py: ATCBasis.convert_rad2orb_ + convolutions.c contract_rad_to_orb / contract_orb_to_rad (buffers/convert_rad2orb_/*)', "ciderpress/dft/settings.py: NLDFSettingsVI/VJ/VIJ/VK, SemilocalSettings, SADMSettings, FracLaplSettings, SDMX*Settings, FeatureSettings (constructors, nfeat, get_feat_usps, ueg_vector, get_reasonable_normalizer, get_feat_loc)",
               "ciderpress/dft/plans.py: NLDFAuxiliaryPlan.__init__, eval_feat_exp", "ciderpress/dft/grids_indexer.py: AtomicGridsIndexer.reduce_angc_ylm_ -> cider_grids.c: reduce_angc_to_ylm, reduce_ylm_to_angc (via dgemm_ model)",
               "ciderpress/dft/xc_evaluator.py: RBFEvaluator/SpinRBFEvaluator/KernelEvaluator/ModelWithNormalizer; model_utils.c evaluate_se_kernel*", "ciderpress/lib/fft_plan.py + cider_fft.c (write_fft_input/read_fft_output copies)",
               "ciderpress/dft/feat_normalizer.py: FeatNormalizerList._check_shape", "ciderpress/dft/lcao_convolutions.py: ConvolutionCollection(K).multiply_atc_integrals default output and asserts"],
    bounds=dict(settings="spec lists of length <= 2 (3 for VJ counts) from the allowed strings plus one illegal string; parameter lists of length 1-5 with symbolic floats in [-2,2]; dot entries in [-2,3]; "
                         "FeatureSettings: 5 x 5 x 3 x 4 family combinations", plans="alpha0 in [-4,0], lambd in [-4,1], cut-offs in [-4,-2^-20]; nalpha/nspin/strings enumerated",
                large_exponent="1-2 grid points, 4 (8 thorough) settings/spin/feature-index combinations", buffers="nalpha 1-3, stride 1-4, offset 0-4 incl. offset+nalpha == stride; 2 radial shells of 2 and 3 points; lmax 1",
                crosshair="per-condition timeout 90-150 s quick, x3 thorough; a condition counts only when 'Confirmed over all paths' and its reachability twin is refuted"),
    stubs=["interpreted C: double = exact real; dgemm_ reference model; FFTW contract model", "CrossHair: ints reaching numpy are case-split into concrete values first (_enum), so no symbolic value is realised"],
    assumptions=["NotImplementedError from ueg_vector/get_reasonable_normalizer (dot products whose scaling power has no recommended normaliser, unsupported SDMX ratios) is an explicit refusal, not an inconsistency",
                 "not covered: SDMX plan/initialiser classes of the PySCF layer, multiply_atc_integrals buffers through the wrappers (their struct set-up is C; window/bounds are covered on the C level in C05), "
                 "library-owned struct memory", "out-of-bounds counterexamples are confirmed under valgrind memcheck on the freshly compiled library (confirmation only)"],
)
