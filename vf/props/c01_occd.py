"""C01, feature-derivative links of ciderpress/dft/plans.py that the potential tasks do not execute:

  * SemilocalPlan.get_occd / FracLaplPlan.get_occd: the change of the features along a density perturbation (an orbital occupation)
    is the directional derivative of get_feat, and the features returned alongside are get_feat's;
  * SemilocalPlan2.get_vxc (the (rho, sigma, tau)-tuple variant used by the GPAW interface): the reverse-mode counterpart of
    _BaseSemilocalPlan.get_feat(rho, sigma, tau)."""
import numpy as np


def h_semilocal_occd(env, mode, nspin):
    st, plans = env.m.settings, env.m.plans
    sl = st.SemilocalSettings(mode)
    plan = plans.SemilocalPlan(sl, nspin)
    rho = env.arr("rho", (nspin, 5, 1), lo="-8", hi="8")
    drho = env.arr("drho", (nspin, 5, 1), lo="-8", hi="8")
    for s in range(nspin):
        env.assume(rho[s, 0, 0] > env.const(1) / 1000000)
        # physical inputs: tau >= tau_W = |grad n|^2 / (8 n) (get_alpha clamps the unphysical region to 0 on purpose, dalpha does not)
        env.assume(rho[s, 4, 0] * 8 * rho[s, 0, 0] > rho[s, 1, 0] ** 2 + rho[s, 2, 0] ** 2 + rho[s, 3, 0] ** 2)
    env.eps_zero()
    feat = plan.get_feat(rho.copy())
    ok, out = env.attempt("get_occd_returns", lambda: plan.get_occd(rho.copy(), drho.copy()))
    if not ok:
        return
    f2, occd = out
    env.check("shapes", np.shape(f2) == np.shape(feat) == np.shape(occd) == (nspin, sl.nfeat, 1), "%s %s %s" % (np.shape(f2), np.shape(feat), np.shape(occd)))
    ncomp = 5 if sl.level == "MGGA" else 4
    for s in range(nspin):
        for i in range(sl.nfeat):
            env.equal("features_equal_get_feat_s%d_f%d" % (s, i), f2[s, i, 0], feat[s, i, 0])
            env.jvp("occd_s%d_f%d_is_directional_derivative" % (s, i), feat[s, i, 0], [("rho", (s, c, 0)) for c in range(ncomp)], [drho[s, c, 0] for c in range(ncomp)], occd[s, i, 0])


def h_plan2_vxc(env, mode, nspin):
    st, plans = env.m.settings, env.m.plans
    sl = st.SemilocalSettings(mode)
    plan = plans.SemilocalPlan2(sl, nspin)
    mgga = sl.level == "MGGA"
    rho = env.arr("rho", (nspin, 1), "pos", lo="1/64", hi="64")
    sig = env.arr("sig", (nspin, 1), "nonneg", hi="64")
    tau = env.arr("tau", (nspin, 1), "nonneg", hi="64") if mgga else None
    if mgga:
        for s_ in range(nspin):
            env.assume(tau[s_, 0] * 8 * rho[s_, 0] > sig[s_, 0])       # physical inputs: tau >= tau_W
    env.eps_zero()
    feat = plan.get_feat(rho.copy(), sig.copy(), tau.copy() if mgga else None)
    vfeat = env.arr("vf", (nspin, sl.nfeat, 1), lo="-8", hi="8")
    r0 = [env.arr(n, (nspin, 1), lo="-2", hi="2") for n in ("vr0", "vs0", "vt0")]       # pre-filled: the routine accumulates
    vr, vs, vt = r0[0].copy(), r0[1].copy(), (r0[2].copy() if mgga else None)
    ok, _ = env.attempt("get_vxc_returns", lambda: plan.get_vxc(vfeat.copy(), rho.copy(), vr, sig.copy(), vs, tau.copy() if mgga else None, vt))
    if not ok:
        return
    for s in range(nspin):
        ys = [feat[s, i, 0] for i in range(sl.nfeat)]
        sd = [vfeat[s, i, 0] for i in range(sl.nfeat)]
        env.vjp("vrho_s%d" % s, ys, sd, ("rho", (s, 0)), vr[s, 0] - r0[0][s, 0])
        env.vjp("vsigma_s%d" % s, ys, sd, ("sig", (s, 0)), vs[s, 0] - r0[1][s, 0])
        if mgga:
            env.vjp("vtau_s%d" % s, ys, sd, ("tau", (s, 0)), vt[s, 0] - r0[2][s, 0])


def h_fraclapl_occd(env):
    st, plans = env.m.settings, env.m.plans
    s = st.FracLaplSettings([-1.0, 0.5], 2, 1, [(-1, 0), (0, 0)], nd1=1, ld_dots=[(0, 0), (-1, 0)], ndd=1)
    plan = plans.FracLaplPlan(s, 1)
    nrow = 5 + s.nrho
    rho = env.arr("rho", (nrow, 1), lo="-8", hi="8")
    od = env.arr("od", (2, nrow, 1), lo="-8", hi="8")
    env.eps_zero()
    feat = plan.get_feat(rho[None, :].copy())
    ok, occd = env.attempt("get_occd_returns", lambda: plan.get_occd(rho.copy(), od.copy()))
    if not ok:
        return
    env.check("shape", np.shape(occd) == (2, s.nfeat, 1), str(np.shape(occd)))
    for o in range(2):
        for i in range(s.nfeat):
            env.jvp("orbital%d_f%d_is_directional_derivative" % (o, i), feat[0, i, 0], [("rho", (c, 0)) for c in range(nrow)], [od[o, c, 0] for c in range(nrow)], occd[o, i, 0])


def h_nldf_occd(env, version, level, order):
    """NLDFAuxiliaryPlan.eval_occd_full: the change of the NLDF features along a perturbation of the convolved functions f and of the
    density data is the directional derivative of eval_rho_full's features (same contract-stub plan as link L2: interpolation
    coefficients are unknown differentiable functions of the exponent)"""
    from . import c01_l2
    plan, s = c01_l2.make_plan(env, version, level, "one", 1, order)
    f, rho = c01_l2.plan_inputs(env, plan, s)
    of = env.arr("of", f.shape, lo="-8", hi="8")
    orho = env.arr("orho", rho.shape, lo="-8", hi="8")
    env.eps_zero()
    feat, _ = c01_l2.run_fwd(plan, f, rho)
    qg = plan.coef_order == "qg"
    fin = f.copy() if qg else np.ascontiguousarray(f.T.copy())
    ofin = of.copy() if qg else np.ascontiguousarray(of.T.copy())
    ok, occd = env.attempt("eval_occd_full_returns", lambda: plan.eval_occd_full(fin, rho.copy(), ofin, orho.copy()))
    if not ok:
        return
    env.check("shape", np.shape(occd) == (s.nfeat, 1), str(np.shape(occd)))
    wrts = [("f", (a, 0)) for a in range(f.shape[0])] + [("rho", (c, 0)) for c in range(rho.shape[0])]
    tans = [of[a, 0] for a in range(f.shape[0])] + [orho[c, 0] for c in range(rho.shape[0])]
    for i in range(s.nfeat):
        env.jvp("feature%d_occupation_derivative_is_directional_derivative" % i, feat[i, 0], wrts, tans, occd[i, 0])


def tasks(tier):
    from ..run import Task
    out = []
    for mode, ns in [("npa", 1), ("nst", 2), ("np", 2), ("ns", 1)] + ([(m, n) for m in ("npa", "nst", "np", "ns") for n in (1, 2)] if tier == "thorough" else []):
        name = "L2o/SemilocalPlan.get_occd/%s/nspin%d" % (mode, ns)
        if not any(t.name == name for t in out):
            out.append(Task(name, h_semilocal_occd, dict(mode=mode, nspin=ns), mods="numint", max_paths=64))
    for mode, ns in [("npa", 2), ("nst", 1), ("np", 1), ("ns", 2)]:
        out.append(Task("L2o/SemilocalPlan2.get_vxc/%s/nspin%d" % (mode, ns), h_plan2_vxc, dict(mode=mode, nspin=ns), mods="numint", max_paths=64))
    out.append(Task("L2o/FracLaplPlan.get_occd", h_fraclapl_occd, {}, mods="numint"))
    for v, lv, od in [("j", "MGGA", "gq"), ("ij", "GGA", "qg"), ("i", "MGGA", "qg")] + ([("k", "MGGA", "gq"), ("j", "GGA", "qg"), ("ij", "MGGA", "gq")] if tier == "thorough" else []):
        out.append(Task("L2o/NLDFAuxiliaryPlan.eval_occd_full/%s/%s/%s" % (v, lv, od), h_nldf_occd, dict(version=v, level=lv, order=od), mods="numint", max_paths=256, timeout_ms=60000))
    return out
