"""C02 - fast non-local feature evaluation reproduces the documented definitions: the *formula layer*.

Truncation accuracy of the auxiliary expansion and agreement with numerical quadrature are statements of
numerical analysis; they are not applicable to this technique (DESIGN.md 4/C02).  Decided here, exactly:
  * the interpolation coefficients the C code produces for every J/K spec id are the Gaussian overlap of the
    kernel *as documented in docs/features/nldf.rst* with exp(-alpha r^2), and dp = dp/da (also the C01-L2
    contract), through the real wrapper _get_ovlp_fit_interpolation_coefficients -> FFI -> clang IR;
  * version-k damping coefficients, exponent->index maps (etb, zexp), index clipping, cubic-spline coefficient
    evaluation, smooth exponent saturation: value formulas and derivative consistency;
  * spec-id tables: every allowed spec maps to a distinct id the C switch handles;
  * the l=1 contraction of the plan equals the documented dot products with the documented nspin factors;
  * the length-scale exponents equal the documented a_i[n]."""
from fractions import Fraction

import numpy as np

from ..run import Task
from . import common, c01_l2
from ..llsym.ccall import ccall, STATS

PROP_ID = "C02"
sym_mods = common.sym_mods
real_mods = common.real_mods
replay = common.generic_replay

CC = "ciderpress/lib/mod_cider/cider_coefs.c"


def _pi(env):
    from ..sym import PI
    return PI if env.sym else np.pi


def _exp(env, x):
    return x.exp() if env.sym else np.exp(x)


def _log(env, x):
    return x.log() if env.sym else np.log(x)


def _gauss_moment(env, m, c):
    return _pi(env) ** env.const(Fraction(3, 2)) * {0: 1, 1: 3, 2: 15}[m] / (2 ** m * c ** m * c ** env.const(Fraction(3, 2)))


J_DOC = {"se": (0, 0), "se_ar2": (1, 1), "se_a2r4": (2, 2)}     # k(a, r) = a^p r^(2m) exp(-a r^2)


def h_gto(env, spec, order, ng=2, na=2, level="MGGA"):
    """through the real Python wrapper and the FFI bridge"""
    plans, st = env.m.plans, env.m.settings
    a = env.arr("a", (ng,), "pos", lo="1/64", hi="64")
    al = env.arr("alpha", (na,), "pos", lo="1/64", hi="64")
    erf = 0.5

    class P(plans.NLDFAuxiliaryPlan):
        def _run_setup(self):
            pass

        def _get_interpolation_arguments(self, rho_tuple, i=-1):
            raise NotImplementedError

        def _get_interpolation_coefficients(self, arg_g, i=-1, vbuf=None, dbuf=None):
            raise NotImplementedError

        def _get_transformed_interpolation_terms(self, p_xx, i=-1, fwd=True, inplace=False):
            raise NotImplementedError
    if level == "MGGA":
        s = st.NLDFSettingsVJ("MGGA", [1.0, 0.0, 0.03125], "one", [spec], [[2.0, 0.0, 0.04] + ([erf] if spec == "se_erf_rinv" else [])])
    else:
        # GGA-level parameter lists have no tau multiplier: [a0, grad_mul] (+ the erf ratio for se_erf_rinv)
        s = st.NLDFSettingsVJ("GGA", [1.0, 0.0], "one", [spec], [[2.0, 0.0] + ([erf] if spec == "se_erf_rinv" else [])])
    plan = P(s, 1, 0.01, 2.0, na, coef_order=order)
    plan.alphas = al.copy()
    plan.local_alphas = al.copy()
    ok, out = env.attempt("wrapper_returns", lambda: plans._get_ovlp_fit_interpolation_coefficients(plan, a.copy(), i=0, local=False))
    if not ok:
        return
    p, dp = out
    if not env.sym and spec == "se_erf_rinv":
        # concrete replay of a symbolic run that could not complete the call (e.g. the C kernel read past the extra-argument array):
        # the call returning is not enough, the returned coefficients must be the erf-damped overlaps for the settings' ratio
        pr = np.asarray(p, float).reshape((ng, na) if order == "gq" else (na, ng))
        pr = pr if order == "gq" else pr.T
        bb = np.asarray(a, float)[:, None] + np.asarray(al, float)[None, :]
        ref = np.pi ** 1.5 / (bb * np.sqrt(bb + erf * np.asarray(a, float)[:, None]))
        err = float(np.max(np.abs(pr - ref) / np.abs(ref)))
        if err > 1e-9:
            for o in env.obls:
                if o.name == "wrapper_returns":
                    o.got = False
                    o.meta["detail"] = "returned, but the se_erf_rinv coefficients differ from the erf-damped overlaps for the stored ratio by %.3e (relative)" % err
    env.check("shape", np.shape(p) == ((ng, na) if order == "gq" else (na, ng)), "%s" % (np.shape(p),))
    for g in range(ng):
        for q in range(na):
            idx = (g, q) if order == "gq" else (q, g)
            env.deriv("dp_is_dp_da_g%d_q%d" % (g, q), p[idx], ("a", (g,)), dp[idx])
            if spec in J_DOC:
                pw, m = J_DOC[spec]
                env.equal("p_is_documented_overlap_g%d_q%d" % (g, q), p[idx], a[g] ** pw * _gauss_moment(env, m, a[g] + al[q]))
            elif spec == "se_erf_rinv":
                # kernel exp(-a r^2) * (sqrt(pi)/2) erf(sqrt(c a) r) / (sqrt(c a) r) with c = the settings' erf ratio (-> 1 at r = 0);
                # overlap with exp(-alpha r^2) by the lemma int_0^inf r exp(-b r^2) erf(k r) dr = k / (2 b sqrt(b + k^2)):
                #   pi^(3/2) / (b sqrt(b + c a)),  b = a + alpha.   Decides that the ratio stored in feat_params is the one the C kernel receives.
                b_ = a[g] + al[q]
                pi = env.m.plans.np.pi if env.sym else np.pi
                half = env.const(Fraction(1, 2))
                env.equal("p_is_erf_damped_overlap_with_the_settings_ratio_g%d_q%d" % (g, q), p[idx],
                          pi ** env.const(Fraction(3, 2)) / (b_ * (b_ + env.const(Fraction(erf)) * a[g]) ** half))
            for g2 in range(ng):
                if g2 != g:
                    env.deriv("local_g%d_q%d_wrt_a%d" % (g, q, g2), p[idx], ("a", (g2,)), env.const(0))
    # theta coefficients (i = -1) always use the plain squared exponential
    p0, dp0 = plans._get_ovlp_fit_interpolation_coefficients(plan, a.copy(), i=-1, local=False)
    idx = (0, 0)
    env.equal("theta_coefficients_are_se", p0[idx], _gauss_moment(env, 0, a[0] + al[0]))


def h_vk1(env, order, ng=2, na=2):
    a = env.arr("a", (ng,), "pos", lo="1/64", hi="64")
    al = env.arr("alpha", (na,), "pos", lo="1/64", hi="64")
    shape = (ng, na) if order == "gq" else (na, ng)
    p, dp = env.zeros(shape), env.zeros(shape)
    ccall(env, CC, "cider_coefs_vk1_" + order, [p, dp, a.copy(), al.copy(), ng, na])
    for g in range(ng):
        for q in range(na):
            idx = (g, q) if order == "gq" else (q, g)
            env.equal("vk_damping_g%d_q%d" % (g, q), p[idx], _exp(env, -env.const(Fraction(3, 2)) * a[g] / al[q]))
            env.deriv("dp_g%d_q%d" % (g, q), p[idx], ("a", (g,)), dp[idx])


def h_ind(env, formula, ng=2):
    a = env.arr("a", (ng,), "pos", lo="1/64", hi="64")
    a0, lam = env.par("alpha0", "pos", lo="1/64", hi="4"), env.par("lambd", "real", lo="9/8", hi="4")
    di, dd = env.zeros((ng,)), env.zeros((ng,))
    ccall(env, CC, "cider_ind_" + formula, [di, dd, a.copy(), ng, a0, lam])
    for g in range(ng):
        if formula == "etb":
            env.equal("index_g%d" % g, di[g], _log(env, a[g] / a0) / _log(env, lam))        # alpha_j = alpha0 lambd^j
        else:
            env.equal("index_g%d" % g, di[g], _log(env, a[g] / a0 + 1) / _log(env, lam))    # alpha_j = alpha0 (lambd^j - 1) (alpha0 pre-divided)
        env.deriv("dindex_g%d" % g, di[g], ("a", (g,)), dd[g])


def h_clip(env, size=3):
    """cider_ind_clip keeps the spline index inside [0, size-1) and zeroes the derivative where it clips"""
    d = env.arr("di", (1,), lo="-8", hi="8")
    dd = env.arr("ddi", (1,), lo="-8", hi="8")
    di, ddi = d.copy(), dd.copy()
    ccall(env, CC, "cider_ind_clip", [di, ddi, size - 1, 1])
    env.nonneg("clipped_index_nonnegative", di[0])
    env.nonneg("clipped_index_not_above_size_minus_1", (size - 1) - di[0])
    inside = bool(d[0] > 0) and bool(d[0] < size - 1)
    if inside:
        env.equal("inside_unchanged", di[0], d[0])
        env.equal("inside_derivative_unchanged", ddi[0], dd[0])
    else:
        env.equal("clipped_derivative_zero", ddi[0], env.const(0))
        if bool(d[0] >= size - 1):
            # strictly below size-1, so that (int)di <= size-2 and the spline table row exists
            env.equal("upper_clip_value", di[0], env.const(size - 1) - env.const(Fraction(1, 10 ** 10)))
        else:
            env.equal("lower_clip_value", di[0], env.const(0))


def h_spline(env, order, size=3, na=2):
    """cubic-spline coefficient evaluation: p = cubic in the fractional index, dp = dp/d(index); all reads inside w_iap"""
    d = env.arr("di", (1,), "nonneg", hi=str(size - 1))
    env.assume(d[0] < env.const(size - 1))
    w = env.arr("w", (size - 1, na, 4), lo="-8", hi="8")
    shape = (1, na) if order == "gq" else (na, 1)
    p, dp = env.zeros(shape), env.zeros(shape)
    ccall(env, CC, "cider_coefs_spline_" + order, [p, dp, d.copy(), w.copy(), 1, na, 2.0], floor_hints=range(size))
    for i in range(size - 1):
        if bool(d[0] >= i) and bool(d[0] < i + 1):
            t = d[0] - i
            for q in range(na):
                idx = (0, q) if order == "gq" else (q, 0)
                env.equal("value_q%d" % q, p[idx], w[i, q, 0] + t * (w[i, q, 1] + t * (w[i, q, 2] + t * w[i, q, 3])))
                env.deriv("deriv_q%d" % q, p[idx], ("di", (0,)), dp[idx])
            break


def h_smooth(env, nd=2):
    a = env.arr("a", (1,), "pos", hi="64")
    amax = env.par("amax", "pos", lo="1", hi="64")
    das = [env.arr("da%d" % k, (1,), lo="-8", hi="8") for k in range(nd)]
    av, dv = a.copy(), [x.copy() for x in das]
    ccall(env, CC, "smooth_cider_exponents", [av, dv, amax, 1, nd])
    # chain rule: new derivative = d(sat(a))/da * old derivative
    for k in range(nd):
        env.deriv("saturated_exponent_chain_rule_%d" % k, av[0], ("a", (0,)), dv[k][0], seed=das[k][0])
    x = a[0] / amax
    tot = sum((x ** m / m for m in range(1, 13)), env.const(0))
    env.equal("saturation_formula", av[0], amax * (1 - _exp(env, -tot)))


def h_tables(env):
    plans, st = env.m.plans, env.m.settings
    env.check("every_j_spec_has_an_id", set(st.ALLOWED_J_SPECS) == set(plans.VJ_ID_MAP), "%s vs %s" % (st.ALLOWED_J_SPECS, sorted(plans.VJ_ID_MAP)))
    env.check("j_ids_distinct_and_handled_by_the_C_switch", sorted(plans.VJ_ID_MAP.values()) == [0, 1, 2, 3], sorted(plans.VJ_ID_MAP.values()))
    allowed_i = set(st.ALLOWED_I_SPECS_L0) | set(st.ALLOWED_I_SPECS_L1)
    env.check("every_i_spec_has_an_id", allowed_i == set(plans.VI_ID_MAP), "%s vs %s" % (sorted(allowed_i), sorted(plans.VI_ID_MAP)))
    env.check("i_ids_distinct", len(set(plans.VI_ID_MAP.values())) == len(plans.VI_ID_MAP))
    # the documented order se, se_ar2, se_a2r4 = ids 0, 1, 2 (R0, R2, R4 Gaussians of cider_coefs.c)
    env.check("j_id_order", [plans.VJ_ID_MAP[s] for s in ("se", "se_ar2", "se_a2r4", "se_erf_rinv")] == [0, 1, 2, 3])

    class _P:
        pass
    p = _P()
    p.nldf_settings = st.NLDFSettingsVIJ("MGGA", [1.0, 0.0, 0.03125], "one", ["se_ap", "se_lapl"], ["se_grad", "se_rvec"], [(0, 1)], ["se"], [[2.0, 0.0, 0.04]])
    has_vj, ids = plans.get_ccl_settings(p)
    env.check("ccl_settings", has_vj is True and ids == [plans.VI_ID_MAP[s] for s in ("se_ap", "se_lapl", "se_grad", "se_rvec")], "%s %s" % (has_vj, ids))


def h_contraction(env, nspin):
    """version-i contraction: l=0 features are the integrals themselves, l=1 features the documented dot products
    g_j . g_k (and g_j . grad n), all multiplied by the documented spin factors (nspin for linear, nspin^2 for quadratic)"""
    plan, s = c01_l2.make_plan(env, "i", "MGGA", "one", nspin, "qg")
    f, rho = c01_l2.plan_inputs(env, plan, s)
    env.eps_zero()
    feat, dfeat = c01_l2.run_fwd(plan, f, rho)
    nl0 = len(s.l0_feat_specs)
    for i in range(nl0):
        env.equal("l0_feature_%d" % i, feat[i, 0], nspin * f[i, 0])
    vec = [[f[nl0 + 3 * j + x, 0] for x in range(3)] for j in range(len(s.l1_feat_specs))] + [[rho[1 + x, 0] for x in range(3)]]
    for n, (j, k) in enumerate(s.l1_feat_dots):
        dot = sum((vec[j][x] * vec[k][x] for x in range(3)), env.const(0))
        env.equal("l1_dot_%d_(%d,%d)" % (n, j, k), feat[nl0 + n, 0], nspin * nspin * dot)


def h_exponent_doc(env, level, nspin):
    """a_i[n] = pi (n/2)^(2/3) [A + B |grad n|^2/(8 n tau_0) + C (tau/tau_0 - 1)] with A = a0, B = grad_mul, C = tau_mul in the
    code's units (B and C carry the factor 1.2 (6 pi^2)^(2/3)/pi * pi/2^(2/3) / (pi (1/2)^(2/3) ) = 1.2 (6 pi^2)^(2/3) / pi ... see coverage note)"""
    st = env.m.settings
    rho, sig, tau = env.arr("rho", (1,), "pos", lo="1/64", hi="64"), env.arr("sig", (1,), "nonneg", hi="64"), env.arr("tau", (1,), "nonneg", hi="64")
    a0, gm, tm = env.par("a0", "pos", hi="8"), env.par("gm", "pos", hi="8"), env.par("tm", "nonneg", hi="1/64")
    env.eps_zero()
    pi = _pi(env)
    n = rho[0] * nspin          # total density of the closed-shell-equivalent channel
    sg = sig[0] * nspin * nspin
    tt = tau[0] * nspin
    tau0 = env.const(Fraction(3, 10)) * (3 * pi * pi) ** env.const(Fraction(2, 3)) * n ** env.const(Fraction(5, 3))
    fac = env.const(Fraction(6, 5)) * (6 * pi * pi) ** env.const(Fraction(2, 3)) / pi       # the code's unit for grad_mul / tau_mul
    base = pi * (n / 2) ** env.const(Fraction(2, 3))
    if level == "MGGA":
        got = st.get_cider_exponent(rho.copy(), sig.copy(), tau.copy(), a0=a0, grad_mul=gm, tau_mul=tm, rhocut=env.const(Fraction(1, 10 ** 10)), nspin=nspin)[0][0]
        doc = base * (a0 + fac * gm * sg / (8 * n * tau0) + fac * tm * (tt / tau0 - 1))
    else:
        got = st.get_cider_exponent_gga(rho.copy(), sig.copy(), a0=a0, grad_mul=gm, rhocut=env.const(Fraction(1, 10 ** 10)), nspin=nspin)[0][0]
        doc = base * (a0 + fac * gm * sg / (8 * n * tau0))
    env.equal("exponent_is_documented_formula", got, doc)


SDMX_C = "ciderpress/lib/mod_cider/fast_sdmx.c"


def _sdmx_mol():
    from pyscf import gto
    bas_h = gto.basis.parse("H S\n 3.0 0.2 0.1\n 1.0 0.5 0.3\nH P\n 0.8 1.0 0.4\n 0.3 0.2 1.0\n")      # s and p shells with two contractions each
    bas_he = gto.basis.parse("He S\n 2.0 1.0\nHe D\n 1.1 1.0\n")
    return gto.M(atom="H 0 0 0; He 0 0 1.2", basis={"H": bas_h, "He": bas_he}, spin=1, verbose=0)


def h_sdmx_contract(env, ng=2):
    """SDMXcontract_ao_to_bas: the projection of the atomic orbitals of every *radial function* (each contraction of every shell)
    onto that atom's real spherical harmonics, b[irf, g] = sum_m Y_{l m}(g; atom) * ao[ao_loc[shell] + ictr (2l+1) + m, g]
    (PySCF's AO order is contraction-major inside a shell), for a basis with generally contracted s and p shells"""
    from ..llsym.ccall import ccall
    mol = _sdmx_mol()
    nbas, natm = mol.nbas, mol.natm
    bas, atm, envv = mol._bas.astype(np.int32), mol._atm.astype(np.int32), mol._env.astype(np.float64)
    ao_loc = mol.ao_loc_nr().astype(np.int32)
    nctr = bas[:, 3]
    rf_loc = np.append([0], np.cumsum(nctr)).astype(np.int32)
    yl = np.zeros(natm + 1, dtype=np.int32)
    for ia in range(natm):
        lm = int(np.max(bas[bas[:, 0] == ia, 1])) + 1
        yl[ia + 1] = yl[ia] + lm * lm
    nrf, nao = int(rf_loc[-1]), int(ao_loc[-1])
    ylm = env.arr("ylm", (int(yl[-1]), ng), lo="-2", hi="2")
    ao = env.arr("ao", (nao, ng), lo="-2", hi="2")
    vb = env.arr("vb0", (nrf, ng), lo="-2", hi="2")          # pre-filled: the routine overwrites (does not accumulate)
    out = vb.copy()
    ccall(env, SDMX_C, "SDMXcontract_ao_to_bas", [ng, out, ylm.copy(), ao.copy(), np.array([0, nbas], dtype=np.int32), ao_loc, yl, atm.reshape(-1).copy(), natm, bas.reshape(-1).copy(), nbas,
                                                   envv.copy(), nrf, rf_loc])
    for sh in range(nbas):
        ia, l = int(bas[sh, 0]), int(bas[sh, 1])
        for ic in range(int(nctr[sh])):
            irf = int(rf_loc[sh]) + ic
            for g in range(ng):
                want = sum((ylm[int(yl[ia]) + l * l + m, g] * ao[int(ao_loc[sh]) + ic * (2 * l + 1) + m, g] for m in range(2 * l + 1)), env.const(0))
                env.equal("shell%d_contraction%d_g%d" % (sh, ic, g), out[irf, g], want)
    # the backward routine is the transpose (potential w.r.t. the AO values)
    vin = env.arr("v", (nrf, ng), lo="-2", hi="2")
    aob = env.zeros((nao, ng))
    ccall(env, SDMX_C, "SDMXcontract_ao_to_bas_bwd", [ng, vin.copy(), ylm.copy(), aob, np.array([0, nbas], dtype=np.int32), ao_loc, yl, atm.reshape(-1).copy(), natm, bas.reshape(-1).copy(), nbas,
                                                       envv.copy(), nrf, rf_loc])
    lhs = sum((out[i, g] * vin[i, g] for i in range(nrf) for g in range(ng)), env.const(0))
    rhs = sum((ao[u, g] * aob[u, g] for u in range(nao) for g in range(ng)), env.const(0))
    env.equal("backward_is_transpose", lhs, rhs)


def tasks(tier):
    out = []
    for spec in ("se", "se_ar2", "se_a2r4", "se_erf_rinv"):
        for order in ("gq", "qg"):
            out.append(Task("gto/%s/%s" % (spec, order), h_gto, dict(spec=spec, order=order), mods="numint"))
    for spec, order in (("se_erf_rinv", "gq"), ("se_erf_rinv", "qg"), ("se_ar2", "gq")):
        out.append(Task("gto/%s/%s/GGA" % (spec, order), h_gto, dict(spec=spec, order=order, level="GGA"), mods="numint"))
    for order in ("gq", "qg"):
        out.append(Task("vk1/%s" % order, h_vk1, dict(order=order)))
        out.append(Task("spline/%s" % order, h_spline, dict(order=order), max_paths=64))
    for formula in ("etb", "zexp"):
        out.append(Task("index/%s" % formula, h_ind, dict(formula=formula)))
    out.append(Task("clip", h_clip, {}, max_paths=64))
    out.append(Task("sdmx_contract/ao_to_bas", h_sdmx_contract, {}))
    from . import c02_spline
    for order in ("gq", "qg"):
        out.append(Task("spline_plan/knots/%s" % order, c02_spline.h_spline_knots, dict(order=order), mods="numint"))
    out.append(Task("contribution_layout/2_vector_features", c02_spline.h_contrib_layout, {}, mods="numint"))
    out.append(Task("contribution_layout/vj+2_vector_features", c02_spline.h_contrib_layout, dict(ifeat_ids=(2, 7, 6), has_vj=True), mods="numint"))
    for v, lv, rm, pk in [("j", "MGGA", "expnt", "spline"), ("j", "MGGA", "expnt", "gaussian"), ("i", "GGA", "expnt", "spline"), ("j", "GGA", "one", "spline")] + \
            ([(v, lv, rm, pk) for v in ("j", "i", "ij") for lv in ("MGGA", "GGA") for rm in ("one", "expnt") for pk in ("spline", "gaussian")] if tier == "thorough" else []):
        nm = "generator/theta/%s/%s/%s/%s" % (v, lv, rm, pk)
        if not any(t.name == nm for t in out):
            out.append(Task(nm, c02_spline.h_generator_theta, dict(version=v, level=lv, rho_mult=rm, plan_kind=pk), mods="numint", max_paths=64, timeout_ms=60000))
    out.append(Task("smooth_exponent", h_smooth, {}))
    out.append(Task("tables", h_tables, {}, mods="numint"))
    for nspin in (1, 2):
        out.append(Task("contraction/nspin%d" % nspin, h_contraction, dict(nspin=nspin), mods="numint", max_paths=64))
        for level in ("MGGA", "GGA"):
            out.append(Task("exponent_doc/%s/nspin%d" % (level, nspin), h_exponent_doc, dict(level=level, nspin=nspin), max_paths=16))
    return out


def prepare(tier):
    m = sym_mods()
    m.settings, m.plans, m.numint, m.lcao_nldf_generator
    from ..llsym import bridge
    bridge.install(common.ctx(), "libmcider", CC, ["cider_coefs_gto_gq", "cider_coefs_gto_qg", "cider_coefs_vk1_gq", "cider_coefs_vk1_qg"], hybrid=True, stats=STATS)


def extra_evidence(results):
    from ..llsym import ir
    return dict(ir_sources_sha256={k.replace("/repo/", ""): v for k, v in ir.EMITTED.items()})


META = dict(
    explanation="formula layer only: clang IR of cider_coefs.c executed symbolically (through the real Python wrapper where one exists) and "
                "compared by z3 with the documented kernels integrated by the Gaussian-moment lemma; plan contraction and exponent formulas by E1",
    functions=['ciderpress/dft/lcao_nldf_generator.py: LCAONLDFGenerator.get_features + ciderpress/dft/plans.py: get_function_to_convolve / get_interpolation_arguments (generator/theta/*)', 'ciderpress/dft/lcao_convolutions.py: ConvolutionCollection.__init__, n0, n1, nbeta (contribution_layout/*)', 'ciderpress/dft/plans.py: NLDFSplinePlan._run_setup, NLDFGaussianPlan._run_setup, _construct_cubic_splines, get_interpolation_coefficients, get_transformed_interpolation_terms (spline_plan/knots/*; cider_coefs_gto_* by contract, Cholesky as exact solve)', "ciderpress/lib/mod_cider/cider_coefs.c (clang -O1 IR): cider_coefs_gto_gq/qg (4 feature ids), cider_coefs_vk1_gq/qg, cider_ind_etb, cider_ind_zexp, "
               "cider_ind_clip, cider_coefs_spline_gq/qg, smooth_cider_exponents, _expnt_sat_func, _expnt_sat_deriv",
               "ciderpress/dft/plans.py: _get_ovlp_fit_interpolation_coefficients, VJ_ID_MAP, VI_ID_MAP, get_ccl_settings, NLDFAuxiliaryPlan.eval_rho_full/eval_rho_vi_",
               "ciderpress/dft/settings.py: get_cider_exponent(_gga), ALLOWED_*_SPECS"],
    bounds=dict(ngrids=2, nalpha=2, spline_intervals=2, exponents="symbolic in [1/64, 64]", erf_mul="0.5 (concrete)"),
    stubs=["FFI bridge into the IR interpreter; pow(4 atan 1, 3/2) = PI^(3/2) exactly (-fno-builtin)"],
    assumptions=["Gaussian moment lemma trusted; documented kernels transcribed from docs/features/nldf.rst",
                 "NOT APPLICABLE and not claimed: version-i kernel integrals in convolutions.c, SDMX fit accuracy, fast-vs-slow agreement, convergence under refinement "
                 "(numerical analysis over function spaces; slow paths do not run with the installed PySCF)",
                 "se_erf_rinv: only dp = dp/da (no closed form in the documentation)"],
)
