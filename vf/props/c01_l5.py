"""C01 link L5 (matrix assembly) and the batching / blocking part of C09.

The real nr_rks / nr_uks / nr_rks_nldf / nr_uks_nldf, CiderNumInt.contract_wv and _tau_dot_sparse are
executed symbolically.  PySCF primitives are replaced by numpy reference implementations of their
documented formulas; eval_xc_cider is an uninterpreted exc(rho, features) with declared potentials (the L1
contract); the NLDF generator is a contract stub that keeps the real object's statefulness (one cache per
spin, filled by get_features and read by get_potential)."""
from fractions import Fraction

import numpy as np

from ..run import Task
from .. import stubs
from . import common

NAO = 2


def _patches(env):
    numint = env.m.numint

    def _scale_ao_sparse(ao, wv, mask, ao_loc, out=None):
        if ao.ndim == 3:
            return np.einsum("cgm,cg->gm", ao[:len(wv)], wv)
        return ao * wv[:, None]

    def _dot_ao_ao_sparse(bra, ket, wv, nbins, mask, pair_mask, ao_loc, hermi=0, out=None):
        k = ket if wv is None else ket * wv[:, None]
        r = np.einsum("gm,gn->mn", bra, k)
        if out is None:
            return r
        out += r
        return out

    class _Lib(object):
        def __init__(self, real):
            self._real = real

        def hermi_sum(self, a, axes=None, hermi=1, inplace=False, out=None):
            return a + a.transpose(0, 2, 1)

        def __getattr__(self, k):
            return getattr(self._real, k)

    class _NM(object):
        def __init__(self, real):
            self._real = real

        def _format_uks_dm(self, dms):
            return dms[0], dms[1]

        def __getattr__(self, k):
            return getattr(self._real, k)

    def eval_ao(mol, coords, deriv=0, **kw):
        # the harness grid carries the point index in its first coordinate
        return mol._AO[0][[int(c) for c in coords[:, 0]]]

    return dict(eval_ao=eval_ao, _scale_ao_sparse=_scale_ao_sparse, _dot_ao_ao_sparse=_dot_ao_ao_sparse, lib=_Lib(numint.lib), numint=_NM(numint.numint))


class _Patch(object):
    def __init__(self, mod, kw):
        self.mod, self.kw, self.old = mod, kw, {}

    def __enter__(self):
        for k, v in self.kw.items():
            self.old[k] = getattr(self.mod, k)
            setattr(self.mod, k, v)

    def __exit__(self, *a):
        for k, v in self.old.items():
            setattr(self.mod, k, v)


class FakeMol(object):
    nao = NAO
    nbas = 1

    def ao_loc_nr(self):
        return None

    def get_overlap_cond(self):
        return np.zeros((1, 1))


def make_world(env, ng, level, nldf, blocks=None, sdmx=False, spin_symmetric=False):
    """symbolic AO values, weights; returns (mol, grids, NI factory)"""
    numint = env.m.numint
    AO = env.arr("ao", (4, ng, NAO), lo="-4", hi="4")
    W = env.arr("w", (ng,), "pos", hi="4")
    blocks = blocks or [(0, ng)]

    class FakeGrids(object):
        cutoff = 1e-12
        size = ng
        grids_indexer = object()

        def __init__(self):
            self.weights = W
            self.coords = np.zeros((ng, 3))
            self.coords[:, 0] = np.arange(ng)

    nfeat = 1
    nrow = 5 if level == "MGGA" else 4
    xcf = {}
    genf = stubs.LeafFn(env, "NLDF", nrow * ng + 1)

    class FakeGen(object):
        """contract stub of the NLDF feature generator: feat_g = G(g; rho_in) non-local in rho_in; get_potential(v) =
        sum_g v_g dfeat_g/drho_in evaluated at the rho_in cached by the last get_features of that spin"""

        def __init__(self):
            self._cache = {}

        def get_extra_ao(self):
            return 0

        def get_features(self, rho, spin=0):
            self._cache[spin] = rho.copy()
            out = env.zeros((nfeat, ng))
            for g in range(ng):
                out[0, g] = genf.val([g] + list(rho.ravel()))
            return out

        def get_potential(self, vfeat, spin=0):
            rho = self._cache[spin]
            out = env.zeros(rho.shape)
            flat = list(rho.ravel())
            for g in range(ng):
                k = 1
                for c in range(rho.shape[0]):
                    for h in range(ng):
                        out[c, h] = out[c, h] + vfeat[0, g] * genf.grad([g] + flat, k)
                        k += 1
            return out

    CV = env.arr("sdmx_c", (NAO,), lo="-2", hi="2") if sdmx else None

    class FakeSdmx(object):
        """contract stub of the SDMX generator with the real object's statefulness and calling conventions (EXXSphGenerator):
        get_features takes one (2-d) or several (3-d) density matrices and caches, per matrix, the intermediate p_g = sum_mn ao_gm
        DM_mn c_n; the one feature is p_g^2.  get_vxc_(V, v) adds, for a 2-d V, the potential of cached matrix 0, and for a 3-d V
        that of cached matrix k to V[k]; V0 + V0^T is dE/dDM as for the real class"""
        fast = True

        def __init__(self):
            self._cached_ao_data = None

        def get_extra_ao(self, mol):
            return 0

        def get_cao(self, mol, coords, save_buf=True):
            return None

        def get_features(self, dms, mol, coords, non0tab=None, cutoff=None, save_buf=False, ao=None, cao=None):
            nd = dms.ndim
            if nd not in (2, 3):
                raise ValueError
            d3 = dms[None] if nd == 2 else dms
            n = ao.shape[0]
            out = env.zeros((len(d3), 1, n))
            terms = []
            for k in range(len(d3)):
                pk = np.einsum("gm,mn,n->g", ao, d3[k], CV)
                terms.append(pk)
                out[k, 0] = pk * pk
            self._cached_ao_data = (ao, terms)
            return out[0] if nd == 2 else out

        def get_vxc_(self, vxc_mat, vxc_grid):
            if self._cached_ao_data is None:
                raise RuntimeError("Must call get_features first")
            if vxc_mat.ndim == 2:
                vxc_mat, vxc_grid = vxc_mat[None], vxc_grid[None]
            elif vxc_mat.ndim != 3:
                raise ValueError
            ao, terms = self._cached_ao_data
            for k in range(len(vxc_mat)):
                vxc_mat[k] += np.einsum("g,gm,n->mn", vxc_grid[k][0] * terms[k], ao, CV)
            return vxc_mat

    class _SL(object):
        pass
    _SL.level = level

    class _E(object):
        is_empty = True
        nfeat = 0
        nrho = 0

    _nf = nfeat if nldf else 0

    class _N(object):
        is_empty = not nldf
        nfeat = _nf

    class _SD(object):
        is_empty = not sdmx
        nfeat = 1 if sdmx else 0

    class _ST(object):
        sl_settings = _SL()
        nlof_settings = _E()
        nldf_settings = _N()
        sdmx_settings = _SD()
        has_sdmx = bool(sdmx)
        has_nldf = bool(nldf)

    class _T(object):
        def start(self, *a):
            pass

        def stop(self, *a):
            pass

    base = numint.NLDFNumInt if nldf else numint.CiderNumInt

    class NI(base):
        def __init__(self):
            self.nldfgen = FakeGen() if nldf else None
            self.sdmxgen = FakeSdmx() if sdmx else None
            self.cutoff = 1e-13
            self.timer = _T()
            self.mol = None

        settings = property(lambda s: _ST)
        has_sdmx = bool(sdmx)
        has_nldf = bool(nldf)

        def initialize_feature_generators(self, mol, grids, nspin):
            pass

        def _gen_rho_evaluator(self, mol, dms, hermi=0, with_lapl=True, grids=None):
            d = dms if dms.ndim == 3 else dms[None]

            def make_rho(i, ao, mask, xctype):
                dm = d[i]
                n = ao.shape[1]
                rho = env.zeros((nrow, n))
                c0 = np.einsum("gm,mn->gn", ao[0], dm)
                rho[0] = np.einsum("gn,gn->g", c0, ao[0])
                for c in range(1, 4):
                    rho[c] = 2 * np.einsum("gn,gn->g", c0, ao[c])
                if nrow == 5:
                    t = env.zeros((n,))
                    for c in range(1, 4):
                        t = t + np.einsum("gm,mn,gn->g", ao[c], dm, ao[c])
                    rho[4] = t / 2
                return rho
            return make_rho, d.shape[0], NAO

        def block_loop(self, mol, grids, nao=None, deriv=0, max_memory=2000, **kw):
            for a, b in blocks:
                yield AO[:, a:b], None, grids.weights[a:b], grids.coords[a:b]

        def extra_block_loop(self, mol, grids, max_memory=2000, extra_ao=None, **kw):
            for a, b in blocks:
                yield None, grids.weights[a:b], grids.coords[a:b]

        def eval_xc_cider(self, xc_code, rho, nldf_feat, sdmx_feat, deriv=1, xctype=None, **kw):
            # L1 contract: exc per particle, vxc = d(n exc)/d rho rows, vxc_nldf = d(n exc)/d feature (point-wise)
            if isinstance(rho, tuple):
                rho = np.stack(rho)
            ns = 2 if rho.ndim == 3 else 1
            r = rho.reshape(ns, nrow, -1)
            n = r.shape[2]
            f = None if nldf_feat is None else nldf_feat.reshape(ns, -1, n)
            nn = 0 if f is None else f.shape[1]
            if sdmx_feat is not None:
                sf = sdmx_feat.reshape(ns, -1, n)
                f = sf if f is None else np.concatenate([f, sf], axis=1)
            nargs = ns * nrow + (0 if f is None else ns * f.shape[1])
            leaf = xcf.setdefault((ns, nargs), stubs.LeafFn(env, "EXC_ns%d" % ns, nargs))
            exc = env.zeros((n,))
            vxc = env.zeros((ns, nrow, n))
            vn = None if f is None else env.zeros((ns, f.shape[1], n))
            for g in range(n):
                args = [r[s, c, g] for s in range(ns) for c in range(nrow)] + ([] if f is None else [f[s, i, g] for s in range(ns) for i in range(f.shape[1])])
                dens = sum((r[s, 0, g] for s in range(ns)), env.const(0))
                if spin_symmetric and ns == 2:
                    # a functional that does not care which channel is called "a": F(a, b) = (L(a, b) + L(b, a)) / 2 for the leaf L
                    nfe = 0 if f is None else f.shape[1]
                    perm = [nrow + c for c in range(nrow)] + list(range(nrow)) + [2 * nrow + nfe + i for i in range(nfe)] + [2 * nrow + i for i in range(nfe)]
                    sw = [args[j] for j in perm]
                    val = (leaf.val(args) + leaf.val(sw)) / 2
                    grad = lambda k_: (leaf.grad(args, k_) + leaf.grad(sw, perm[k_])) / 2
                else:
                    val = leaf.val(args)
                    grad = lambda k_: leaf.grad(args, k_)
                exc[g] = val
                k = 0
                for s in range(ns):
                    for c in range(nrow):
                        vxc[s, c, g] = dens * grad(k) + (exc[g] if c == 0 else 0)
                        k += 1
                if f is not None:
                    for s in range(ns):
                        for i in range(f.shape[1]):
                            vn[s, i, g] = dens * grad(k)
                            k += 1
            vs = None
            if sdmx_feat is not None:
                vn, vs = (vn[:, :nn] if nn else None), vn[:, nn:]
            if ns == 1:
                return exc, (vxc[0], None if vn is None else vn[0], vs), None, None
            return exc, (vxc, vn, vs), None, None

    mol = FakeMol()
    mol._AO = AO
    return mol, FakeGrids, NI


def sym_dm(env, name):
    a = env.arr(name, (NAO, NAO), lo="-2", hi="2")
    for i in range(NAO):
        for j in range(i):
            a[i, j] = a[j, i]
    return a


def _dE(env, name, E, vm, tag):
    """sym(vmat) = d E / d dm with dm symmetric: d/d d_ij (i<j) sees both entries"""
    for i in range(NAO):
        for j in range(i, NAO):
            got = vm[i, j] if i == j else vm[i, j] + vm[j, i]
            env.deriv("%s_dE_d%s_%d%d" % (tag, name, i, j), E, (name, (i, j)), got)


def h_l5(env, kind, level, ng=2, blocks=None, sdmx=False):
    numint = env.m.numint
    nldf = kind.endswith("nldf")
    mol, Grids, NI = make_world(env, ng, level, nldf, blocks, sdmx)
    with _Patch(numint, _patches(env)):
        if kind.startswith("rks"):
            dm = sym_dm(env, "dm")
            fn = numint.nr_rks_nldf if nldf else numint.nr_rks
            ok, out = env.attempt("returns", lambda: fn(NI(), mol, Grids(), "PBE", dm.copy()))
            if not ok:
                return
            nelec, exc, vmat = out
            _dE(env, "dm", exc, vmat, "rks")
            ni = NI()
            rho = ni._gen_rho_evaluator(mol, dm, 1, False, None)[0](0, env.inputs["ao"], None, level)
            env.equal("nelec_is_grid_integral", nelec, sum((env.inputs["w"][g] * rho[0, g] for g in range(ng)), env.const(0)))
        else:
            da, db = sym_dm(env, "dma"), sym_dm(env, "dmb")
            fn = numint.nr_uks_nldf if nldf else numint.nr_uks
            ok, out = env.attempt("returns", lambda: fn(NI(), mol, Grids(), "PBE", (da.copy(), db.copy())))
            if not ok:
                return
            nelec, exc, vmat = out
            _dE(env, "dma", exc, vmat[0], "uks_a")
            _dE(env, "dmb", exc, vmat[1], "uks_b")


def h_batch(env, kind, level, ng=2, sdmx=False):
    """C09: a batched call (nset = 2) gives, for each density matrix, exactly what a separate call on a fresh object gives"""
    numint = env.m.numint
    nldf = kind.endswith("nldf")
    mol, Grids, NI = make_world(env, ng, level, nldf, None, sdmx)
    with _Patch(numint, _patches(env)):
        if kind.startswith("rks"):
            d0, d1 = sym_dm(env, "p"), sym_dm(env, "q")
            fn = numint.nr_rks_nldf if nldf else numint.nr_rks
            ok, out = env.attempt("batched_call_returns", lambda: fn(NI(), mol, Grids(), "PBE", np.stack([d0, d1])))
            if not ok:
                return
            nb, eb, vb = out
            for k, d in enumerate((d0, d1)):
                n1, e1, v1 = fn(NI(), mol, Grids(), "PBE", d.copy())
                env.equal("nelec_dm%d" % k, nb[k], n1)
                env.equal("excsum_dm%d" % k, eb[k], e1)
                for i in range(NAO):
                    for j in range(NAO):
                        env.equal("vmat_dm%d_%d%d" % (k, i, j), vb[k, i, j], v1[i, j])
        else:
            a0, a1, b0, b1 = sym_dm(env, "pa"), sym_dm(env, "qa"), sym_dm(env, "pb"), sym_dm(env, "qb")
            fn = numint.nr_uks_nldf if nldf else numint.nr_uks
            ok, out = env.attempt("batched_call_returns", lambda: fn(NI(), mol, Grids(), "PBE", (np.stack([a0, a1]), np.stack([b0, b1]))))
            if not ok:
                return
            nb, eb, vb = out
            for k, (da, db) in enumerate(((a0, b0), (a1, b1))):
                n1, e1, v1 = fn(NI(), mol, Grids(), "PBE", (da.copy(), db.copy()))
                env.equal("excsum_dm%d" % k, eb[k], e1)
                for s in range(2):
                    env.equal("nelec_spin%d_dm%d" % (s, k), nb[s, k], n1[s])
                    for i in range(NAO):
                        for j in range(NAO):
                            env.equal("vmat_spin%d_dm%d_%d%d" % (s, k, i, j), vb[s, k, i, j], v1[s, i, j])


def h_blocking(env, kind, level, sdmx=False):
    """C09: one block of two grid points gives exactly what two blocks of one point give"""
    numint = env.m.numint
    nldf = kind.endswith("nldf")
    res = []
    with _Patch(numint, _patches(env)):
        dm = sym_dm(env, "dm")
        dmb = sym_dm(env, "dmb") if kind.startswith("uks") else None
        for blocks in ([(0, 2)], [(0, 1), (1, 2)]):
            mol, Grids, NI = make_world(env, 2, level, nldf, blocks, sdmx)
            if kind.startswith("rks"):
                fn = numint.nr_rks_nldf if nldf else numint.nr_rks
                res.append(fn(NI(), mol, Grids(), "PBE", dm.copy()))
            else:
                fn = numint.nr_uks_nldf if nldf else numint.nr_uks
                res.append(fn(NI(), mol, Grids(), "PBE", (dm.copy(), dmb.copy())))
    (n0, e0, v0), (n1, e1, v1) = res
    env.equal("excsum", e0, e1)
    for a, b in zip(np.asarray(n0, dtype=object).ravel(), np.asarray(n1, dtype=object).ravel()):
        env.equal("nelec", a, b)
    for k, (a, b) in enumerate(zip(np.asarray(v0, dtype=object).ravel(), np.asarray(v1, dtype=object).ravel())):
        env.equal("vmat_%d" % k, a, b)


def tasks(tier):
    out = []
    for kind in ("rks", "uks", "rks_nldf", "uks_nldf"):
        for level in (("MGGA", "GGA") if tier == "thorough" else ("MGGA",)):
            out.append(Task("L5/%s/%s" % (kind, level), h_l5, dict(kind=kind, level=level), mods="numint", max_paths=16))
    for kind in ("rks", "uks") + (("rks_nldf", "uks_nldf") if tier == "thorough" else ()):
        out.append(Task("L5/%s/MGGA/with_sdmx" % kind, h_l5, dict(kind=kind, level="MGGA", sdmx=True), mods="numint", max_paths=16))
    if tier == "thorough":
        out.append(Task("L5/rks_nldf/MGGA/2blocks", h_l5, dict(kind="rks_nldf", level="MGGA", blocks=[(0, 1), (1, 2)]), mods="numint", max_paths=16))
    return out


def c09_tasks(tier):
    out = []
    for kind in ("rks", "uks", "rks_nldf", "uks_nldf"):
        out.append(Task("batch/%s" % kind, h_batch, dict(kind=kind, level="MGGA"), mods="numint", max_paths=16))
        out.append(Task("blocking/%s" % kind, h_blocking, dict(kind=kind, level="MGGA"), mods="numint", max_paths=16))
        out.append(Task("batch/%s/with_sdmx" % kind, h_batch, dict(kind=kind, level="MGGA", sdmx=True), mods="numint", max_paths=16))
        if tier == "thorough" or kind == "rks":
            out.append(Task("blocking/%s/with_sdmx" % kind, h_blocking, dict(kind=kind, level="MGGA", sdmx=True), mods="numint", max_paths=16))
    return out
