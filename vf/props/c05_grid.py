"""C05, grid link: the public pair LCAOInterpolator.project_orb2grid / project_grid2orb (ciderpress/dft/lcao_interpolation.py),
i.e. conv2spline -> interpolate_fwd against interpolate_bwd -> spline2conv, executed as the repository's own Python with every C
routine on the data path interpreted from clang's IR of the current source:

    project_conv_to_spline / project_spline_to_conv, fill_l1_coeff_fwd / _bwd, compute_mol_convs_single_new /
    compute_pot_convs_single_new, add_lp1_term_fwd / _bwd     (conv_interpolation.c; dgemm_ by its reference-BLAS model)

The orbital coefficients x (nao x num_in) and the grid-side vector y (ngrids x num_out) are symbolic reals.  Concrete, computed by
the freshly compiled library through the unmodified wrappers: the two ATCBasis structs, the spline tables w0_rsp / wm_rsp, the
Gaunt table, the grid ordering (compute_num_spline_contribs_new, compute_spline_ind_order_new) and the spline basis values at the
(fixed) grid coordinates (compute_spline_bas_separate); every one of those doubles enters the identity as the exact rational it is.

Obligations: <A x, y> = <x, B y> (a polynomial identity over the rationals, decided by normal form), the forward pass leaves the
scratch column `ig` of the l=1 terms zero, the backward pass does not depend on the caller's scratch column, and neither direction
changes its input array outside that scratch column."""
import ctypes

import numpy as np

from ..llsym import bridge
from ..sym import SArr, szeros

INTERP_FNS = ("project_conv_to_spline", "project_spline_to_conv", "fill_l1_coeff_fwd", "fill_l1_coeff_bwd",
              "compute_mol_convs_single_new", "compute_pot_convs_single_new", "add_lp1_term_fwd", "add_lp1_term_bwd")

COORDS = np.ascontiguousarray(np.array([[0.11, 0.05, -0.07], [0.02, -0.2, 0.9], [0.3, 0.1, 1.5], [-0.15, 0.25, 0.6], [0.4, -0.3, 2.1]]))


class _Lib(object):
    """stands in for the module-level `libcider` of lcao_interpolation: the data-path routines run in the interpreter (hybrid mode:
    library-owned structs and float arrays are read from process memory, symbolic arrays are the wrapper's own object arrays), the
    set-up routines, which only see concrete coordinates, go to the compiled library"""

    def __init__(self, real, cfile, stats):
        self._real, self._cfile, self._stats = real, cfile, stats
        self.called = []

    def __getattr__(self, name):
        if name not in INTERP_FNS:
            return getattr(self._real, name)

        def run(*args):
            it = bridge.new_interp(self._cfile, hybrid=True)
            it.call(name, [bridge.to_arg(it, a, "%s.arg%d" % (name, k)) for k, a in enumerate(args)])
            self._stats["instructions"] += it.steps
            self.called.append(name)
        return run


class _Np(object):
    """numpy for the wrapper module, except that the intermediate buffers the wrappers allocate themselves hold exact symbolic
    zeros (they receive symbolic values from the interpreted C)"""

    def __init__(self, real):
        self._real = real

    def __getattr__(self, name):
        return getattr(self._real, name)

    def zeros(self, shape, *a, **k):
        if a or k.get("dtype") not in (None, float, np.float64):
            return self._real.zeros(shape, *a, **k)
        return szeros(shape)


def make_interp(W, n0=1, n1=1):
    key = "grid_interp_%d_%d" % (n0, n1)
    if key not in W:
        li = W["li"]
        ip = li.LCAOInterpolator(np.array([[0.0, 0.0, 0.0], [0.0, 0.0, 1.4]]), W["atco_l1"], n0, n1, aparam=0.5, dparam=0.4, nrad=6)
        ip.set_coords(COORDS.copy())
        W[key] = ip
    return W[key]


def h_orb2grid(env, W, cfile, stats, dot, n0=1, n1=1):
    ip = make_interp(W, n0, n1)
    li = W["li"]
    nao, ng = ip.atco.nao, COORDS.shape[0]
    x = env.arr("x", (nao, ip.num_in), lo="-2", hi="2")
    y = env.arr("y", (ng, ip.num_out), lo="-2", hi="2")
    scratch = [ip.num_out + i1 - n1 for i1 in range(n1)]
    keep = [c for c in range(ip.num_out) if c not in scratch]
    if env.sym:
        lib = _Lib(li.libcider, cfile, stats)
        old = li.libcider, li.np
        li.libcider, li.np = lib, _Np(np)
        try:
            xin, yin = x.copy(), y.copy()
            ok, Ax = env.attempt("project_orb2grid_returns", lambda: ip.project_orb2grid(xin))
            if not ok:
                return
            ok, By = env.attempt("project_grid2orb_returns", lambda: ip.project_grid2orb(yin))
            if not ok:
                return
            y0 = y.copy()
            for c in scratch:
                y0[:, c] = env.const(0)
            By0 = ip.project_grid2orb(y0)
        finally:
            li.libcider, li.np = old
        env.check("interpreted_routines_reached", set(lib.called) == set(f for f in INTERP_FNS if n1 > 0 or not ("l1" in f or "lp1" in f)), sorted(set(lib.called)))
    else:
        xin, yin = np.ascontiguousarray(x, dtype=float).copy(), np.ascontiguousarray(y, dtype=float).copy()
        Ax = ip.project_orb2grid(xin)
        By = ip.project_grid2orb(yin)
        y0 = np.ascontiguousarray(y, dtype=float).copy()
        y0[:, scratch] = 0
        By0 = ip.project_grid2orb(y0)
    env.check("shapes", np.shape(Ax) == (ng, ip.num_out) and np.shape(By) == (nao, ip.num_in), "%s %s" % (np.shape(Ax), np.shape(By)))
    env.equal("<Ax,y>=<x,By>", dot(env, Ax[:, keep], y[:, keep]), dot(env, x, By))
    for g in range(ng):
        for c in scratch:
            env.equal("forward_leaves_scratch_column_zero_g%d_c%d" % (g, c), Ax[g, c], env.const(0))
    for u in range(nao):
        for c in range(ip.num_in):
            env.equal("backward_ignores_callers_scratch_column_u%d_c%d" % (u, c), By[u, c], By0[u, c])
            env.equal("forward_keeps_its_input_u%d_c%d" % (u, c), xin[u, c], x[u, c])
    for g in range(ng):
        for c in keep:
            env.equal("backward_keeps_its_input_g%d_c%d" % (g, c), yin[g, c], y[g, c])


# ---------------------------------------------------------------------------------------------------------------------------------
# the production class: LCAOInterpolatorDirect with onsite_direct=True over an AtomicGridsIndexer (what the PySCF interface builds)

DIRECT_FNS = {
    "conv_interpolation.c": INTERP_FNS + ("add_lp1_onsite_new_fwd", "add_lp1_onsite_new_bwd"),
    "convolutions.c": ("contract_rad_to_orb", "contract_orb_to_rad"),
    "cider_grids.c": ("reduce_angc_to_ylm", "reduce_ylm_to_angc"),
}
_TWINS = []      # symbolic-class twins of real objects share the C structs: never collected, so no destructor runs twice


def _atco(W, lmax):
    """the interpolator's basis: l = 0..lmax on both atoms (lmax 1: the basis of the fill_l1 harness)"""
    if lmax == 1:
        return W["atco_l1"]
    key = "atco_l%d" % lmax
    if key not in W:
        lc = W["lc"]
        etb = [[(0, 2, 0.5, 2.0), (1, 1, 0.7, 2.0), (2, 1, 0.9, 2.0)], [(0, 1, 0.9, 2.0), (1, 1, 0.8, 2.0), (2, 1, 1.1, 2.0)]]
        W[key] = lc.ATCBasis(*lc.get_gamma_lists_from_etb_list(etb))
    return W[key]


def make_direct(W, n0=1, n1=1, padding=0, prune=True, lmax=1):
    """a hand-made two-atom atomic grid (4 radial shells, 8 points) wired exactly like PySCFNLDFInitializer does it:
    AtomicGridsIndexer(...).set_weights/set_idx/set_padding, LCAOInterpolatorDirect(indexer, ...).set_coords(sorted coordinates)"""
    key = "grid_direct_%d_%d_%d_%d_%d" % (n0, n1, padding, prune, lmax)
    if key in W:
        return W[key]
    import ciderpress.dft.grids_indexer as gim
    li = W["li"]
    atom_coords = np.array([[0.0, 0.0, 0.0], [0.0, 0.0, 1.4]])
    dirs = np.array([[1.0, 0.0, 0.0], [0.0, 1.0, 0.0], [0.0, 0.0, 1.0], [0.6, 0.0, 0.8], [0.0, -0.6, 0.8], [-0.48, 0.6, 0.64]])
    # the angular table comes from the library's own real spherical harmonics (sph_harm.c), as in the PySCF interface
    nlm = (lmax + 1) ** 2
    ylm = np.zeros((len(dirs), nlm))
    W["lc"].libcider.recursive_sph_harm_vec(ctypes.c_int(nlm), ctypes.c_int(len(dirs)), np.ascontiguousarray(dirs).ctypes.data_as(ctypes.c_void_p),
                                            ylm.ctypes.data_as(ctypes.c_void_p))
    rad_arr = np.ascontiguousarray(np.array([0.25, 0.8, 0.35, 1.0]))
    ar_loc = np.array([0, 0, 1, 1], dtype=np.int32)
    ra_loc = np.array([0, 2, 4], dtype=np.int32)
    rad_loc = np.array([0, 2, 5, 6, 8], dtype=np.int32)
    ylm_loc = np.array([0, 2, 5, 0], dtype=np.int32)
    gi = gim.AtomicGridsIndexer(2, lmax, rad_arr, ar_loc, ra_loc, rad_loc, ylm, ylm_loc)
    all_coords = []
    for r in range(4):
        for k in range(rad_loc[r + 1] - rad_loc[r]):
            all_coords.append(atom_coords[ar_loc[r]] + rad_arr[r] * gi.dirs[ylm_loc[r] + k])
    all_coords = np.array(all_coords)
    gi.set_weights(np.array([0.5, 0.75, 1.25, 0.25, 1.5, 0.625, 0.875, 1.125]))
    idx = np.array([3, 0, 6, 1, 7, 2, 5] + ([] if prune else [4]), dtype=np.int64)
    gi.set_idx(idx)
    gi.set_padding(padding)
    ip = li.LCAOInterpolatorDirect(gi, atom_coords, _atco(W, lmax), n0, n1, aparam=0.5, dparam=0.4, nrad=6, onsite_direct=True)
    coords = np.ascontiguousarray(np.concatenate([all_coords[idx], np.zeros((padding, 3))], axis=0))
    ip.set_coords(coords)
    W[key] = ip
    return ip


PASSTHROUGH = ("get_atco_nao", "get_atco_nbas", "get_atco_bas", "get_atco_env")    # struct queries: answered by the compiled library


def install(ctx, cfiles, stats, reallib):
    for base, fns in DIRECT_FNS.items():
        bridge.install(ctx, "libmcider", cfiles[base], list(fns), hybrid=True, stats=stats)
    lib = ctx.load_library("libmcider")
    for name in PASSTHROUGH:
        lib.handlers[name] = (lambda *a, _f=getattr(reallib, name): _f(*a))
    lib.handlers["free_atc_basis_set"] = lambda *a: None      # twins never own the struct


def _twin(symcls, real):
    o = object.__new__(symcls)
    o.__dict__.update(real.__dict__)
    _TWINS.append(o)
    return o


def h_direct(env, W, stats, dot, n0=1, n1=1, padding=0, prune=True, lmax=1):
    ipr = make_direct(W, n0, n1, padding, prune, lmax)
    nao, ng, ngpp = ipr.atco.nao, ipr.all_coords.shape[0], ipr.all_coords.shape[0] + padding
    x = env.arr("x", (nao, ipr.num_in), lo="-2", hi="2")
    y = env.arr("y", (ngpp, ipr.num_out), lo="-2", hi="2")
    scratch = [ipr.num_out + i1 - n1 for i1 in range(n1)]
    keep = [c for c in range(ipr.num_out) if c not in scratch]
    if env.sym:
        li, lc, gim = env.m.lcao_interpolation, env.m.lcao_convolutions, env.m.grids_indexer
        ip = _twin(li.LCAOInterpolatorDirect, ipr)
        ip.atco, ip.l1atco = _twin(lc.ATCBasis, ipr.atco), (_twin(lc.ATCBasis, ipr.l1atco) if ipr.l1atco is not None else None)
        ip.grids_indexer = _twin(gim.AtomicGridsIndexer, ipr.grids_indexer)
        # the grid ordering and the spline basis values at the fixed coordinates come from the compiled library (concrete set-up)
        ip._eval_spline_bas_single = ipr._eval_spline_bas_single
        before = stats.get("functions", set()).copy() if isinstance(stats.get("functions"), set) else set()
        stats["functions"] = set()
    else:
        ip = ipr
    cast = (lambda a: a.copy()) if env.sym else (lambda a: np.ascontiguousarray(a, dtype=float).copy())
    xin, yin = cast(x), cast(y)
    ok, Ax = env.attempt("project_orb2grid_returns", lambda: ip.project_orb2grid(xin))
    if not ok:
        return
    ok, By = env.attempt("project_grid2orb_returns", lambda: ip.project_grid2orb(yin))
    if not ok:
        return
    y0 = cast(y)
    for c in scratch:
        y0[:, c] = env.const(0)
    By0 = ip.project_grid2orb(y0)
    if env.sym:
        reached = set(stats["functions"])
        stats["functions"] = before | reached
        want = set(f for fns in DIRECT_FNS.values() for f in fns if n1 > 0 or not ("l1" in f or "lp1" in f))
        env.check("interpreted_routines_reached", reached == want, sorted(want ^ reached))
    env.check("shapes", np.shape(Ax) == (ngpp, ipr.num_out) and np.shape(By) == (nao, ipr.num_in), "%s %s" % (np.shape(Ax), np.shape(By)))
    env.equal("<Ax,y>=<x,By>", dot(env, Ax[:ng, keep], y[:ng, keep]), dot(env, x, By))
    for g in range(ngpp):
        for c in range(ipr.num_out):
            if c in scratch or g >= ng:
                env.equal("forward_leaves_%s_zero_g%d_c%d" % ("scratch_column" if g < ng else "padding_row", g, c), Ax[g, c], env.const(0))
    for u in range(nao):
        for c in range(ipr.num_in):
            env.equal("backward_ignores_scratch_column_and_padding_u%d_c%d" % (u, c), By[u, c], By0[u, c])
            env.equal("forward_keeps_its_input_u%d_c%d" % (u, c), xin[u, c], x[u, c])
    for g in range(ngpp):
        for c in keep:
            env.equal("backward_keeps_its_input_g%d_c%d" % (g, c), yin[g, c], y[g, c])


# ---------------------------------------------------------------------------------------------------------------------------------
def h_angc_wrapper(env, layout, nalpha=2):
    """AtomicGridsIndexer.reduce_angc_ylm_ (the real wrapper, C interpreted) for array layouts a caller may hand it: C-contiguous
    (stride > nalpha with an offset), the transpose of a qg-ordered array, an every-other-row view.  A layout the wrapper refuses
    (AssertionError / ValueError) is outside the claim; for every layout it accepts in BOTH directions the backward call must be
    the adjoint of the forward call - in particular it must write into the caller's array."""
    gim = env.m.grids_indexer
    dirs = np.array([[1.0, 0.0, 0.0], [0.0, 1.0, 0.0], [0.0, 0.0, 1.0], [0.6, 0.0, 0.8]])
    s, y00 = np.sqrt(3 / (4 * np.pi)), 1 / np.sqrt(4 * np.pi)
    ylm = np.ascontiguousarray(np.stack([np.full(len(dirs), y00), s * dirs[:, 1], s * dirs[:, 2], s * dirs[:, 0]], axis=1).round(6))
    gi = gim.AtomicGridsIndexer(1, 1, np.array([0.3, 0.9]), np.array([0, 0], dtype=np.int32), np.array([0, 2], dtype=np.int32),
                                np.array([0, 2, 4], dtype=np.int32), ylm, np.array([0, 2], dtype=np.int32))
    gi.set_weights(np.ones(4))
    ng, nrad, nlm = 4, 2, 4
    stride = nalpha + 1
    x = env.arr("x", (ng, stride), lo="-2", hi="2")
    y = env.arr("y", (nrad, nlm, nalpha), lo="-2", hi="2")
    zeros = env.zeros if env.sym else np.zeros

    def make(init):
        """the caller's theta_gq in the requested layout, holding `init` (ng x stride)"""
        if layout == "contiguous":
            a = zeros((ng, stride))
        elif layout == "transposed":
            a = zeros((stride, ng)).T
        else:
            a = zeros((2 * ng, stride))[::2]
        a[...] = init
        return a
    offset = 1
    xa = make(x if env.sym else np.asarray(x, dtype=float))
    Ax = zeros((nrad, nlm, nalpha))
    ok_f, _ = env.attempt("forward_call", lambda: gi.reduce_angc_ylm_(Ax, xa, a2y=True, offset=offset), expect=None)
    By = make(0 if not env.sym else env.const(0))
    ok_b, _ = env.attempt("backward_call", lambda: gi.reduce_angc_ylm_(y.copy() if env.sym else np.ascontiguousarray(y, dtype=float), By, a2y=False, offset=offset), expect=None)
    if layout != "contiguous":
        # refusing the layout is fine: turn the two "returns" facts into "consistent" facts
        for o in env.obls[-2:]:
            o.got = True
        env.check("both_directions_agree_on_accepting_the_layout", ok_f == ok_b, "forward accepted: %s, backward accepted: %s" % (ok_f, ok_b))
    if not (ok_f and ok_b):
        return
    win = slice(offset, offset + nalpha)
    lhs = sum((Ax[r, l, q] * y[r, l, q] for r in range(nrad) for l in range(nlm) for q in range(nalpha)), env.const(0))
    rhs = sum((x[g, offset + q] * By[g, offset + q] for g in range(ng) for q in range(nalpha)), env.const(0))
    env.equal("<Ax,y>=<x,By>", lhs, rhs)
