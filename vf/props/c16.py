"""C16 - Gaussian-process training solves the documented linear system.

The real MOLGP.__init__/reset_reactions/add_reactions/fit/compute_likelihood (ciderpress/models/train.py) are executed
symbolically.  Kernels are duck-typed stand-ins that carry exactly the state the property names (component, cov_dict, base_dict,
dcov_dict, dbase_dict, rxn_cov_list, Nctrl, get_kctrl(), alpha) with symbolic contents; Kmm symbolic with positive leading minors; scipy's cholesky/cho_solve and numpy's slogdet are replaced by their definitions over exact reals
(lower Cholesky factor with symbolic square roots for n <= 2, triangular solves).  z3 / the polynomial normal form decide the
documented identities *without inverting anything in the oracle*: (Kmm + eps I) alpha_k == Kmn alpha_mol for every kernel,
sum_k Kmn^T alpha_k + (Sigma + eps I) alpha_mol == y, labels and noises equal the documented combinations, permuting the
reaction list permutes alpha_mol and leaves every kernel.alpha unchanged, reset + re-add reproduces the lists, and
compute_likelihood equals -1/2 y^T K^-1 y - 1/2 log det K - n/2 log 2 pi (checked as  y^T K^-1 y  via  K u == y)."""
from fractions import Fraction

import numpy as np

from ..run import Task
from . import common

PROP_ID = "C16"
sym_mods = common.sym_mods
real_mods = common.real_mods
replay = common.generic_replay


def _sqrt(env, x):
    return x ** env.const(Fraction(1, 2))


def _install_linalg(env, tr):
    """exact-real definitions of the three LAPACK-backed calls MOLGP uses (symbolic mode only)"""
    if not env.sym:
        return None
    saved = (tr.cholesky, tr.cho_solve, tr.np.linalg.slogdet if hasattr(tr.np.linalg, "slogdet") else None)

    def cholesky(A, lower=True):
        """n == 1: the factor itself; n >= 2: a token carrying A (cho_solve then solves A X = B by exact elimination, which is what
        cho_solve(cholesky(A), B) computes over the reals for positive definite A)"""
        n = A.shape[0]
        L = env.zeros((n, n)).view(_Chol)
        L.A = np.array(A, dtype=object).copy()
        if n == 1:
            L[0, 0] = _sqrt(env, A[0, 0])
        return L

    def cho_solve(c_and_lower, B):
        L, lower = c_and_lower
        assert lower and isinstance(L, _Chol)
        A = L.A.copy()
        n = A.shape[0]
        X = np.array(B, dtype=object).copy()
        two_d = X.ndim == 2
        if not two_d:
            X = X.reshape(n, 1)
        # Gaussian elimination without pivoting: the leading principal minors of a positive definite matrix are positive
        for i in range(n):
            for r in range(i + 1, n):
                f = A[r, i] / A[i, i]
                A[r, :] = A[r, :] - f * A[i, :]
                X[r, :] = X[r, :] - f * X[i, :]
        for i in range(n - 1, -1, -1):
            X[i, :] = (X[i, :] - sum((A[i, k] * X[k, :] for k in range(i + 1, n)), env.const(0) * X[i, :])) / A[i, i]
        return sym.as_sarr(X if two_d else X.reshape(n))

    tr.cholesky, tr.cho_solve = cholesky, cho_solve
    return saved


def _restore_linalg(tr, saved):
    if saved is not None:
        tr.cholesky, tr.cho_solve = saved[0], saved[1]


from .. import sym


class _Chol(sym.SArr):
    def __array_finalize__(self, obj):
        self.A = getattr(obj, "A", None)


class _Kernel(object):
    """stand-in for DFTKernel: exactly the state MOLGP.add_reactions/fit read and write"""

    def __init__(self, env, tag, component, nctrl, systems, orbs):
        self.component = component
        self.Nctrl = nctrl
        # symbolic symmetric positive definite Kmm (n <= 2): entries are symbols, definiteness is an assumption on them
        K = env.zeros((nctrl, nctrl))
        d = env.arr("Kd_%s" % tag, (nctrl,), "pos", lo="1/8", hi="4")
        for i in range(nctrl):
            K[i, i] = d[i]
        if nctrl == 2:
            o = env.par("Ko_%s" % tag, lo="-4", hi="4")
            K[0, 1] = K[1, 0] = o
            env.assume(d[0] * d[1] - o * o > env.const(Fraction(1, 64)))
        assert nctrl <= 2
        self._K = K
        self.cov_dict = {s: env.arr("cov_%s_%s" % (tag, s), (nctrl,), lo="-2", hi="2") for s in systems}
        self.base_dict = {s: env.par("base_%s_%s" % (tag, s), lo="-2", hi="2") for s in systems}
        self.dcov_dict = {s: {o: env.arr("dcov_%s_%s_%s" % (tag, s, o), (nctrl,), lo="-2", hi="2") for o in orbs} for s in systems}
        self.dbase_dict = {s: {o: env.par("dbase_%s_%s_%s" % (tag, s, o), lo="-2", hi="2") for o in orbs} for s in systems}
        self.rxn_cov_list = []
        self.alpha = None

    def get_kctrl(self):
        return self._K.copy()


RXNS = {
    # name -> (mode, structs, counts, options)
    "x_plain": (0, ["A", "B"], [1, -2], {}),
    "x_orb": (0, ["A", ("B", "h")], [2, -1], dict(noise="noise0")),
    "xc_plain": (2, ["A", "B"], [1, -1], dict(energy="E0", unit="U0")),
    "xc_default_unit": (2, ["B"], [3], dict(energy="E1", noise_factor="nf1")),
    "xc_rel": (2, ["A", "B"], [1, 1], dict(energy="E2", unit="U2", noise_rel_factor="nr2", weight="w2")),
    "xc_orb": (2, [("A", "h"), "B"], [1, 1], dict(energy="E2", unit="U2")),
    "x_weight": (0, ["B"], [1], dict(weight="w3", noise_factor="nf3")),
    # the same system listed twice (homodimer dissociation written term by term) - in both modes, plain and orbital entries
    "x_dup": (0, ["A", "B", "B", ("A", "h"), ("A", "h")], [1, -1, -1, 2, 1], {}),
    "xc_dup": (2, ["B", "A", "A"], [1, -1, -1], dict(energy="E1", unit="U0")),
}


def _rxn(env, name, vals):
    mode, structs, counts, opts = RXNS[name]
    d = dict(structs=list(structs), counts=list(counts))
    for k, v in opts.items():
        d[k] = vals[v]
    if "energy" not in d and mode == 2:
        d["energy"] = vals["E0"]
    return mode, d


def _setup(env, kernels_spec, nctrl, default_noise=None):
    tr, st = env.m.train, env.m.settings
    # the documented noise of a reaction is built from the value *given* to the constructor (kept aside), not from what the object stored
    dn = env.par("default_noise", "pos", lo="1/64", hi="1") if default_noise is None else default_noise
    systems, orbs = ["A", "B"], ["h"]
    kernels = [_Kernel(env, "%s%d" % (c, i), c, nctrl, systems, orbs) for i, c in enumerate(kernels_spec)]
    settings = object.__new__(st.FeatureSettings)
    gp = tr.MOLGP(kernels, settings, default_noise=dn)
    gp._given_default_noise = dn
    gp.numerical_epsilon = env.par("eps", "nonneg", hi="1/1024")
    gp.exx_ref_dict = {s: env.par("exx_%s" % s, lo="-2", hi="2") for s in systems}
    gp.dexx_ref_dict = {s: {o: env.par("dexx_%s_%s" % (s, o), lo="-2", hi="2") for o in orbs} for s in systems}
    gp.ks_baseline_dict = {s: env.par("ks_%s" % s, lo="-2", hi="2") for s in systems}
    vals = dict(noise0=env.par("noise0", "pos", lo="1/64", hi="1"), E0=env.par("E0", lo="-4", hi="4"), U0=env.par("U0", "pos", lo="1/1024", hi="1"),
                E1=env.par("E1", lo="-4", hi="4"), nf1=env.par("nf1", "pos", lo="1/8", hi="4"), E2=env.par("E2", lo="-4", hi="4"), U2=env.par("U2", "pos", lo="1/1024", hi="1"),
                nr2=env.par("nr2", "pos", lo="1/64", hi="1"), w2=env.par("w2", "pos", lo="1/4", hi="4"), w3=env.par("w3", "pos", lo="1/4", hi="4"), nf3=env.par("nf3", "pos", lo="1/8", hi="4"))
    return tr, gp, kernels, vals


def _doc_label_noise_cov(env, gp, kernels, mode, rxn):
    """the documented label / noise / per-kernel covariance row of one reaction (docs/theory/gp.rst, add_reactions docstring)"""
    def tot(get_plain, get_orb):
        s = env.const(0)
        for sysid, c in zip(rxn["structs"], rxn["counts"]):
            s = s + c * (get_orb(sysid[0], sysid[1]) if isinstance(sysid, tuple) else get_plain(sysid))
        return s
    xk = [k for k in kernels if k.component == "x"]
    ck = [k for k in kernels if k.component != "x"]
    ref = env.const(0)
    if mode == 0:
        ref = ref + tot(lambda s: gp.exx_ref_dict[s], lambda s, o: gp.dexx_ref_dict[s][o])
    for k in xk:
        ref = ref - tot(lambda s: k.base_dict[s], lambda s, o: k.dbase_dict[s][o])
    if mode == 2:
        unit = rxn["unit"] if rxn.get("unit") is not None else env.const(Fraction("0.00159360109742136"))
        ref = ref + rxn["energy"] * unit
        for sysid, c in zip(rxn["structs"], rxn["counts"]):
            ref = ref - c * gp.ks_baseline_dict[sysid]      # plain systems only (an orbital entry has no documented KS baseline: see h_xc_orbital_entry)
        for k in ck:
            ref = ref - tot(lambda s: k.base_dict[s], lambda s, o: k.dbase_dict[s][o])
    covs = []
    for k in kernels:
        if k.component == "x" or mode == 2:
            covs.append(tot(lambda s: k.cov_dict[s], lambda s, o: k.dcov_dict[s][o]))
        else:
            covs.append(env.zeros((k.Nctrl,)))
    if rxn.get("noise") is not None:
        noise = rxn["noise"]
    elif rxn.get("noise_factor") is not None:
        noise = rxn["noise_factor"] * gp._given_default_noise
    else:
        noise = gp._given_default_noise + env.const(0)
    if rxn.get("noise_rel_factor") is not None:
        noise = noise + rxn["noise_rel_factor"] * abs(ref)
    if rxn.get("weight") is not None:
        noise = noise / _sqrt(env, rxn["weight"])
    return ref, noise, covs


def h_labels(env, kernels_spec, names, default_noise=None):
    """add_reactions: labels, noises and covariance rows are the documented combinations; reset + re-add reproduces them.
    default_noise: None = symbolic positive; a number = that constructor argument (0 = reactions without their own noise are exact)"""
    tr, gp, kernels, vals = _setup(env, kernels_spec, 2, default_noise)
    env.eps_zero()
    rl = [_rxn(env, n, vals) for n in names]
    # mode-2 reactions with orbital entries index ks_baseline_dict by the tuple: only plain systems are used with mode 2 here
    # the caller's reaction dicts: the *same* objects are added again after reset_reactions (the usual way a list is re-used)
    rl_objs = [(m, dict(r)) for m, r in rl]
    ok, _ = env.attempt("add_reactions_returns", lambda: gp.add_reactions(rl_objs))
    if not ok:
        return
    env.check("list_lengths", len(gp.rxn_ref_list) == len(gp.rxn_noise_list) == len(rl) and all(len(k.rxn_cov_list) == len(rl) for k in kernels), "")
    for i, (mode, rxn) in enumerate(rl):
        ref, noise, covs = _doc_label_noise_cov(env, gp, kernels, mode, rxn)
        env.equal("label_%d" % i, gp.rxn_ref_list[i], ref)
        env.equal("noise_%d" % i, gp.rxn_noise_list[i], noise)
        for ik, k in enumerate(kernels):
            for c in range(k.Nctrl):
                env.equal("cov_row_%d_kernel%d_%d" % (i, ik, c), k.rxn_cov_list[i][c] + env.const(0), covs[ik][c] + env.const(0))
    first = (list(gp.rxn_ref_list), list(gp.rxn_noise_list), [list(k.rxn_cov_list) for k in kernels])
    gp.reset_reactions()
    env.check("reset_clears", gp.rxn_ref_list == [] and gp.rxn_noise_list == [] and all(k.rxn_cov_list == [] for k in kernels), "")
    gp.add_reactions(rl_objs)
    for i in range(len(rl)):
        env.equal("readd_label_%d" % i, gp.rxn_ref_list[i], first[0][i])
        env.equal("readd_noise_%d" % i, gp.rxn_noise_list[i], first[1][i])
        for ik, k in enumerate(kernels):
            for c in range(k.Nctrl):
                env.equal("readd_cov_%d_kernel%d_%d" % (i, ik, c), k.rxn_cov_list[i][c] + env.const(0), first[2][ik][i][c] + env.const(0))
    env.attempt("mode1_not_implemented", lambda: gp.add_reactions([(1, dict(rl[0][1]))]), expect=NotImplementedError)
    env.attempt("mode3_rejected", lambda: gp.add_reactions([(3, dict(rl[0][1]))]), expect=ValueError)


def h_xc_orbital_entry(env):
    """the add_reactions docstring allows (structure, orbital) tuples in any reaction; a mode-2 (XC) reaction with one is accepted"""
    tr, gp, kernels, vals = _setup(env, ("x", "c"), 1)
    m, r = _rxn(env, "xc_orb", vals)
    env.attempt("mode2_reaction_with_orbital_entry_accepted", lambda: gp.add_reactions([(m, dict(r))]))


class _CovKernel(object):
    """stand-in for DFTKernel on the side _compute_mol_covs uses: per-point leaf functions for the covariance with each control
    point, the multiplicative and the additive baseline (value + gradient w.r.t. the raw features), SEP or NPOL layout"""

    def __init__(self, env, mode, nctrl, n0, component="x"):
        from .. import stubs
        self.env, self.mode, self.component, self.Nctrl, self.n0 = env, mode, component, nctrl, n0
        nargs = n0 if mode == "SEP" else 2 * n0
        self.kf = [stubs.LeafFn(env, "kcov%d" % c, nargs) for c in range(nctrl)]
        self.mf = stubs.LeafFn(env, "mbase", nargs)
        self.af = stubs.LeafFn(env, "abase", nargs)
        self.cov_dict, self.base_dict, self.dcov_dict, self.dbase_dict, self.rxn_cov_list = {}, {}, {}, {}, []

    def _args(self, X0T, s, g):
        if self.mode == "SEP":
            return [X0T[s, i, g] for i in range(self.n0)]
        return [X0T[t, i, g] for t in range(X0T.shape[0]) for i in range(self.n0)] + ([X0T[0, i, g] for i in range(self.n0)] if X0T.shape[0] == 1 else [])

    def _val_grad(self, f, X0T):
        env = self.env
        nspin, n0, ng = X0T.shape
        if self.mode == "SEP":
            v, d = env.zeros((nspin, ng)), env.zeros((nspin, n0, ng))
            for s in range(nspin):
                for g in range(ng):
                    a = self._args(X0T, s, g)
                    v[s, g] = f.val(a)
                    for i in range(n0):
                        d[s, i, g] = f.grad(a, i)
            return v, d
        v, d = env.zeros((ng,)), env.zeros((nspin, n0, ng))
        for g in range(ng):
            a = self._args(X0T, 0, g)
            v[g] = f.val(a)
            for t in range(nspin):
                for i in range(n0):
                    d[t, i, g] = f.grad(a, t * n0 + i)
        return v, d

    def multiplicative_baseline(self, X0T):
        return self._val_grad(self.mf, X0T)

    def additive_baseline(self, X0T):
        return self._val_grad(self.af, X0T)

    def get_k(self, X0T):
        return self.get_k_and_deriv(X0T)[0]

    def get_k_and_deriv(self, X0T):
        ks, ds = zip(*[self._val_grad(f, X0T) for f in self.kf])
        stack = (lambda xs: np.stack([np.asarray(x, dtype=object) for x in xs])) if self.env.sym else np.stack
        k, dk = stack(ks), stack(ds)
        if self.env.sym:
            k, dk = sym.as_sarr(k), sym.as_sarr(dk)
        return k, dk


def h_mol_covs(env, mode, nspin, deriv, ng=2, n0=2, nctrl=2, norb=1):
    """_compute_mol_covs: cov_dict[mol] = sum_g w_g sum_s k_c(x_sg) m(x_sg) (SEP) / sum_g w_g k_c(x_g) m(x_g) (NPOL) and
    base_dict[mol] = sum_g w_g a(x_g), with the documented low-density mask (value and derivative alike); the orbital-derivative
    entries are the directional derivatives of the same quantities along the stored feature derivatives; reference data are stored"""
    tr, st = env.m.train, env.m.settings
    kern = _CovKernel(env, mode, nctrl, n0)
    settings = object.__new__(st.FeatureSettings)

    class _IdNorm(object):
        def get_normalized_feature_vector(self, x):
            return x

        def get_derivative_of_normed_features(self, x, dx):
            return dx
    settings.normalizers = _IdNorm()
    gp = tr.MOLGP([kern], settings)
    desc = env.arr("desc", (nspin, n0, ng), lo="-2", hi="2")
    # densities: point 0 symbolic around the 1e-6 mask threshold (the solver forks), point 1 well above it
    for s in range(nspin):
        env.assume(desc[s, 0, 0] >= env.const(0))
        env.assume(desc[s, 0, 1] >= env.const(Fraction(1, 1000)))
    wt = env.arr("wt", (ng,), "pos", lo="1/8", hi="4")
    val = env.arr("val", (ng,), lo="-2", hi="2")
    etot, exc = env.par("e_tot_orig", lo="-8", hi="8"), env.par("exc_orig", lo="-8", hi="8")
    data = dict(wt=wt, desc=desc, val=val, e_tot_orig=etot, exc_orig=exc, nspin=nspin)
    orbs = {}
    dvals = {}
    if deriv:
        # stored format: {occ: {num: (spin, array)}} for spin-polarised data, {occ: {num: array}} otherwise; one or two orbital
        # entries per system (HOMO "O" 0 and LUMO "U" 0), each with its own feature derivative and reference value
        data["ddesc"], data["dval"] = {}, {}
        for io, occ in enumerate(("O", "U")[:norb]):
            dd = env.arr("ddesc%s" % ("" if io == 0 else occ), (n0, ng), lo="-2", hi="2")
            dval = env.par("dval%s" % ("" if io == 0 else occ), lo="-2", hi="2")
            sp = (nspin - 1 - io) % nspin if nspin == 2 else 0
            data["ddesc"][occ] = {"0": ((sp, dd) if nspin == 2 else dd)}
            data["dval"][occ] = {"0": dval}
            orbs[(occ, 0)] = (sp, dd)
            dvals[(occ, 0)] = dval
    gp.load_data = lambda ddir, mol_id, get_orb_deriv: dict(data)
    import contextlib
    import io
    with contextlib.redirect_stdout(io.StringIO()):
        ok, _ = env.attempt("compute_mol_covs_returns", lambda: gp._compute_mol_covs({}, ["M"], kern, get_orb_deriv=deriv, save_refs=True))
    if not ok:
        return
    thr = env.const(Fraction(1, 10 ** 6))

    def masked(s, g):
        d = desc[s, 0, g] if mode == "SEP" else sum((desc[t, 0, g] for t in range(nspin)), env.const(0))
        return bool(d < thr)
    cov = [env.const(0) for _ in range(nctrl)]
    base = env.const(0)
    for g in range(ng):
        if mode == "SEP":
            for s in range(nspin):
                if masked(s, g):
                    continue
                a = kern._args(desc, s, g)
                for c in range(nctrl):
                    cov[c] = cov[c] + wt[g] * kern.kf[c].val(a) * kern.mf.val(a)
                base = base + wt[g] * kern.af.val(a)
        else:
            if masked(0, g):
                continue
            a = kern._args(desc, 0, g)
            for c in range(nctrl):
                cov[c] = cov[c] + wt[g] * kern.kf[c].val(a) * kern.mf.val(a)
            base = base + wt[g] * kern.af.val(a)
    for c in range(nctrl):
        env.equal("cov_%d" % c, kern.cov_dict["M"][c] + env.const(0), cov[c])
    env.equal("baseline", kern.base_dict["M"] + env.const(0), base)
    env.equal("exx_reference", gp.exx_ref_dict["M"], sum((val[g] * wt[g] for g in range(ng)), env.const(0)))
    env.equal("ks_baseline", gp.ks_baseline_dict["M"], etot - exc)
    if deriv:
        env.check("orbital_keys", set(kern.dcov_dict["M"].keys()) == set(orbs) and set(kern.dbase_dict["M"].keys()) == set(orbs), str(list(kern.dcov_dict["M"].keys())))
        for key in orbs:
            tag = "" if key == ("O", 0) else "_%s%d" % key
            s_o, dd = orbs[key]
            wrts = [("desc", (s_o, i, g)) for i in range(n0) for g in range(ng)]
            tang = [dd[i, g] for i in range(n0) for g in range(ng)]
            for c in range(nctrl):
                env.jvp("dcov_%d_is_directional_derivative%s" % (c, tag), cov[c], wrts, tang, kern.dcov_dict["M"][key][c])
            env.jvp("dbaseline_is_directional_derivative%s" % tag, base, wrts, tang, kern.dbase_dict["M"][key])
            env.equal("dexx_reference%s" % tag, gp.dexx_ref_dict["M"][key], dvals[key])


def _fit(env, kernels_spec, names, nctrl, order=None):
    tr, gp, kernels, vals = _setup(env, kernels_spec, nctrl)
    rl = [_rxn(env, n, vals) for n in names]
    if order is not None:
        rl = [rl[i] for i in order]
    gp.add_reactions([(m, dict(r)) for m, r in rl])
    # assume-guarantee cut: how labels / noises / covariance rows are composed is decided in h_labels; fit() only consumes the
    # stored lists, so they are replaced by fresh symbols of the same shapes (keeps the rational functions small)
    n = len(rl)
    perm = list(order) if order is not None else list(range(n))
    yv = env.arr("y", (n,), lo="-4", hi="4")
    sv = env.arr("sd", (n,), "pos", lo="1/64", hi="2")
    gp.rxn_ref_list = [yv[i] for i in perm]
    gp.rxn_noise_list = [sv[i] for i in perm]
    for ik, k in enumerate(kernels):
        cv = env.arr("kmn%d" % ik, (n, k.Nctrl), lo="-2", hi="2")
        zero_rows = [isinstance(r, np.ndarray) and r.dtype != object and not np.any(r) for r in k.rxn_cov_list]
        k.rxn_cov_list = [(env.zeros((k.Nctrl,)) if zero_rows[j] else cv[i].copy()) for j, i in enumerate(perm)]
    saved = _install_linalg(env, tr)
    try:
        gp.fit()
    finally:
        _restore_linalg(tr, saved)
    return tr, gp, kernels, rl


def h_fit(env, kernels_spec, names, nctrl=2):
    """after fit: (Kmm + eps I) alpha_k == Kmn alpha_mol and sum_k Kmn^T alpha_k + (Sigma + eps I) alpha_mol == y"""
    tr, gp, kernels, rl = _fit(env, kernels_spec, names, nctrl)
    n = len(rl)
    eps = gp.numerical_epsilon
    am = gp.alpha_mol_
    y = list(gp.rxn_ref_list)
    sd = list(gp.rxn_noise_list)
    for ik, k in enumerate(kernels):
        Kmm = k.get_kctrl()
        for a in range(k.Nctrl):
            lhs = sum((Kmm[a, b] * k.alpha[b] for b in range(k.Nctrl)), env.const(0)) + eps * k.alpha[a]
            rhs = sum((k.rxn_cov_list[i][a] * am[i] for i in range(n)), env.const(0))
            env.equal("kernel%d_weights_row%d:(Kmm+eps)alpha=Kmn.alpha_mol" % (ik, a), lhs, rhs)
    for i in range(n):
        pred = sum((sum((k.rxn_cov_list[i][a] * k.alpha[a] for a in range(k.Nctrl)), env.const(0)) for ik, k in enumerate(kernels)), env.const(0))
        env.equal("reaction%d:Knm.alpha+(Sigma+eps)alpha_mol=y" % i, pred + (sd[i] ** 2 + eps) * am[i], y[i])
        env.equal("stored_label_%d" % i, gp.y_mol_[i], y[i])


def h_permutation(env, kernels_spec, names, nctrl=2):
    """permuting the reaction list permutes alpha_mol and leaves kernel.alpha unchanged"""
    n = len(names)
    order = list(range(n))[::-1] if n < 3 else [1, 2, 0]
    _, gp1, k1, _ = _fit(env, kernels_spec, names, nctrl)
    _, gp2, k2, _ = _fit(env, kernels_spec, names, nctrl, order=order)
    for j, i in enumerate(order):
        env.equal("alpha_mol_%d_follows_its_reaction" % i, gp2.alpha_mol_[j], gp1.alpha_mol_[i])
    for ik in range(len(k1)):
        for a in range(nctrl):
            env.equal("kernel%d_alpha_%d_unchanged" % (ik, a), k2[ik].alpha[a], k1[ik].alpha[a])


def h_likelihood(env, kernels_spec, names, nctrl=1):
    """compute_likelihood() == -1/2 y^T K^-1 y - 1/2 log det K - n/2 log 2 pi with K = K_ of the fit (x = (1,1) makes the code's
    rescaled matrix sigma_min-dependent: the documented value is obtained at sigma_min + 1 = 1, i.e. sigma_min = 0)"""
    tr, gp, kernels, rl = _fit(env, kernels_spec, names, nctrl)
    n = len(rl)
    saved = _install_linalg(env, tr)
    try:
        if env.sym:
            np_ = tr.np
            sl_saved = getattr(np_.linalg, "slogdet", None)

            def slogdet(A):
                assert A.shape[0] <= 2
                det = A[0, 0] if A.shape[0] == 1 else A[0, 0] * A[1, 1] - A[0, 1] * A[1, 0]
                return 1, np_.log(det)
            np_.linalg.slogdet = slogdet
        ok, lik = env.attempt("compute_likelihood_returns", lambda: gp.compute_likelihood(sigma_min=0))
    finally:
        _restore_linalg(tr, saved)
        if env.sym:
            if sl_saved is None:
                del np_.linalg.slogdet
            else:
                np_.linalg.slogdet = sl_saved
    if not ok:
        return
    # evaluating the likelihood is an observation: a second evaluation returns the same number and the fitted state is untouched
    y_before = [v for v in gp.y_mol_]
    saved2 = _install_linalg(env, tr)
    try:
        if env.sym:
            np_.linalg.slogdet = slogdet
        ok2, lik2 = env.attempt("second_compute_likelihood_returns", lambda: gp.compute_likelihood(sigma_min=0))
    finally:
        _restore_linalg(tr, saved2)
        if env.sym:
            if sl_saved is None:
                del np_.linalg.slogdet
            else:
                np_.linalg.slogdet = sl_saved
    if ok2:
        env.equal("second_evaluation_gives_the_same_likelihood", lik2, lik)
    for i in range(n):
        env.equal("labels_unchanged_by_likelihood_evaluation_%d" % i, gp.y_mol_[i], y_before[i])
    if not env.sym and (not ok2 or abs(float(lik2) - float(lik)) > 1e-9 * (1 + abs(float(lik)))):
        # concrete replay of a symbolic run in which the call itself could not be completed (e.g. a LAPACK routine the exact-real
        # definitions do not cover): the first call returning is not enough
        for o in env.obls:
            if o.name == "compute_likelihood_returns":
                o.got = False
                o.meta["detail"] = "returned %r, but a second evaluation on the same fitted model returned %r" % (float(lik), float(lik2) if ok2 else None)
    K = gp.K_
    y = y_before
    # u = K^-1 y characterised by K u == y (alpha_mol_ of the fit, already shown to satisfy it in h_fit)
    u = gp.alpha_mol_
    quad = sum((y[i] * u[i] for i in range(n)), env.const(0))
    det = K[0, 0] if n == 1 else K[0, 0] * K[1, 1] - K[0, 1] * K[1, 0]
    log = (env.m.train.np.log if env.sym else np.log)
    pi = env.m.train.np.pi if env.sym else np.pi
    doc = -quad / 2 - log(det) / 2 - env.const(Fraction(n, 2)) * log(2 * pi)
    env.equal("likelihood_is_gaussian_log_marginal", lik, doc)


def tasks(tier):
    out = []
    out.append(Task("labels/x/x_plain+x_orb", h_labels, dict(kernels_spec=("x",), names=("x_plain", "x_orb")), mods="train"))
    out.append(Task("labels/x+c/all_modes", h_labels, dict(kernels_spec=("x", "c"), names=("x_plain", "xc_plain", "xc_default_unit", "x_weight")), mods="train"))
    out.append(Task("labels/x+c/all_modes/default_noise_zero", h_labels, dict(kernels_spec=("x", "c"), names=("x_plain", "xc_plain", "xc_default_unit", "x_weight"), default_noise=0.0), mods="train"))
    out.append(Task("labels/x+c/rel_noise", h_labels, dict(kernels_spec=("x", "c"), names=("xc_rel", "x_orb")), mods="train"))
    out.append(Task("labels/x+c/repeated_systems", h_labels, dict(kernels_spec=("x", "c"), names=("x_dup", "xc_dup")), mods="train"))
    out.append(Task("labels/xc_orbital_entry", h_xc_orbital_entry, {}, mods="train"))
    for mode, nspin, deriv in [("SEP", 1, False), ("SEP", 2, True), ("NPOL", 2, True), ("NPOL", 1, False)]:
        out.append(Task("mol_covs/%s/nspin%d/%s" % (mode, nspin, "orbital_derivs" if deriv else "plain"), h_mol_covs, dict(mode=mode, nspin=nspin, deriv=deriv), mods="train", max_paths=64))
    for mode, nspin in [("SEP", 2), ("NPOL", 2)]:      # (the stand-in kernel has no consistent gradient convention for NPOL with nspin = 1)
        out.append(Task("mol_covs/%s/nspin%d/two_orbital_entries" % (mode, nspin), h_mol_covs, dict(mode=mode, nspin=nspin, deriv=True, norb=2), mods="train", max_paths=64))
    out.append(Task("fit/x/2rxn", h_fit, dict(kernels_spec=("x",), names=("x_plain", "x_orb")), mods="train", timeout_ms=60000))
    out.append(Task("fit/x+c/2rxn/nctrl1", h_fit, dict(kernels_spec=("x", "c"), names=("x_plain", "xc_plain"), nctrl=1), mods="train", timeout_ms=60000))
    if tier == "thorough":
        out.append(Task("fit/x+c/2rxn", h_fit, dict(kernels_spec=("x", "c"), names=("x_plain", "xc_plain")), mods="train", timeout_ms=120000))
    out.append(Task("permutation/x/2rxn", h_permutation, dict(kernels_spec=("x",), names=("x_plain", "x_weight")), mods="train", timeout_ms=60000))
    out.append(Task("likelihood/x/1rxn", h_likelihood, dict(kernels_spec=("x",), names=("x_plain",)), mods="train", timeout_ms=60000))
    if tier == "thorough":
        out.append(Task("labels/xc/rel_noise", h_labels, dict(kernels_spec=("x", "xc"), names=("xc_default_unit", "x_orb", "xc_rel")), mods="train"))
        out.append(Task("fit/x+c/3rxn/nctrl1", h_fit, dict(kernels_spec=("x", "c"), names=("x_plain", "xc_plain", "xc_default_unit"), nctrl=1), mods="train", timeout_ms=120000))
        out.append(Task("fit/x/nctrl1", h_fit, dict(kernels_spec=("x",), names=("x_plain", "x_orb", "x_weight"), nctrl=1), mods="train", timeout_ms=120000))
        out.append(Task("permutation/x+c/2rxn/nctrl1", h_permutation, dict(kernels_spec=("x", "c"), names=("x_plain", "xc_plain"), nctrl=1), mods="train", timeout_ms=120000))
        out.append(Task("permutation/x/3rxn", h_permutation, dict(kernels_spec=("x",), names=("x_plain", "x_orb", "x_weight"), nctrl=1), mods="train", timeout_ms=120000))
        out.append(Task("likelihood/x/2rxn", h_likelihood, dict(kernels_spec=("x",), names=("x_plain", "x_weight")), mods="train", timeout_ms=120000))
    # the matrix of the linear system: (K_mm)_ab = k(x_a, x_b) as DFTKernel.get_kctrl builds it (symmetric, the documented spin
    # combination per mode) - the fit/* tasks above take K_mm as a symbolic SPD matrix, so its construction is decided here
    from . import c15
    for mode in ("POL", "NPOL", "SEP"):
        out.append(Task("kmm/DFTKernel.get_kctrl/%s" % mode, c15.h_dft_kernel_cov, dict(mode=mode), mods="kernels"))
    out.append(Task("kmm/DFTKernel.get_kctrl/POL/const*RBF", c15.h_dft_kernel_cov, dict(mode="POL", kname="Const*RBF"), mods="kernels"))
    return out


def prepare(tier):
    m = sym_mods("train")
    m.train, m.settings
    mk = sym_mods("kernels")
    mk.kernels, mk.dft_kernel, mk.td


META = dict(
    explanation="MOLGP.add_reactions/reset_reactions/fit/compute_likelihood executed symbolically on duck-typed kernels with symbolic state; the oracle never inverts: "
                "the solved weights are substituted into the documented linear equations and the polynomial normal form / z3 decide the identities",
    functions=['ciderpress/models/train.py: MOLGP.__init__(default_noise=0) + add_reactions (labels/*/default_noise_zero)', 'ciderpress/models/train.py: _compute_mol_covs with two orbital entries (mol_covs/*/two_orbital_entries)', "ciderpress/models/dft_kernel.py: DFTKernel.set_control_points / get_kctrl (kmm/*: symmetry, documented spin combination, spin-exchange invariance)",
               "ciderpress/models/train.py: MOLGP.__init__, reset_reactions, add_reactions, fit, compute_likelihood, _compute_mol_covs (load_data stubbed with symbolic arrays), strk_to_tuplek"],
    bounds=dict(control_points="1-2 per kernel", kernels="1-2 (x, c, xc components)", reactions="1-3 with 1-2 systems each, plain and orbital-derivative entries, modes 0 and 2",
                options="noise / noise_factor / noise_rel_factor / weight / default unit", epsilon="numerical_epsilon symbolic >= 0 (the documented formula is the eps = 0 instance)"),
    stubs=["DFTKernel: duck-typed stand-in with exactly the attributes MOLGP reads/writes; Kmm symbolic with positive leading minors (assumed)", "scipy.linalg.cholesky / cho_solve, numpy.linalg.slogdet: their definitions over exact reals (n <= 2)"],
    assumptions=["_compute_mol_covs: 2 grid points (one block: the 10000-point blocking loop is not split), 2 raw features, 2 control points, SEP and NPOL, with and without one orbital-derivative entry; "
                 "kernel covariance, multiplicative and additive baselines are leaf functions with consistent gradients; normalisers are the identity",
                 "NOT covered: load_data / store_mol_covs file handling, control-point selection (_reduce_npts, pivoted Cholesky), optimize_cov_and_noise_, MOLGP2, "
                 "the x argument of fit/compute_likelihood other than the default", "compute_likelihood is compared at sigma_min = 0 (for other values the code evaluates the likelihood of a rescaled noise model by design)"],
)
