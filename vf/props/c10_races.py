"""C10 part B placeholder (filled in later in this round)"""


def tasks(tier):
    return []


def replay(task, rec):
    return dict(confirmed=False, detail="n/a")
