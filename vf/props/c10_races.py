"""C10 part B: data-race freedom of the work-shared loops, from clang's -fopenmp IR.

The harnesses of C05 / C11 / C20 / C18 (which drive the real wrappers or the C entry points on small symbolic inputs) are run
once more with the interpreter in *footprint mode* (vf/llsym/omp.py): every parallel region is executed by NVT virtual threads,
virtual thread k receiving exactly iteration k of every work-shared loop, and all loads/stores are logged per barrier phase.
Any two distinct iterations can be concurrent under some schedule and team size, so "no byte is touched by two virtual threads
in one phase with a write, outside critical/reduction sections" is exactly race freedom for all schedules at these sizes; it
also shows that the result does not depend on which thread runs which iteration (no thread-indexed state except what part A
covers).  The obligations of the reused harness (value/gradient/adjoint identities) are decided as before, now on the OpenMP
lowering of the code."""
from ..run import Task
from . import common

NVT = 8
sym_mods = common.sym_mods


def _wrap(h, NVT=NVT, sched="iter"):
    def run(env, **cfg):
        from ..llsym import bridge, omp
        if not env.sym:
            return h(env, **cfg)
        omp.reset()
        del bridge.UNINIT[:]
        bridge.OMP_NVT, bridge.OMP_SCHED = NVT, sched
        try:
            h(env, **cfg)
        finally:
            bridge.OMP_NVT, bridge.OMP_SCHED = None, "iter"
        regions = list(omp.REGIONS)
        env.check("parallel_regions_reached", len(regions) > 0, "no __kmpc_fork_call was executed")
        loops = [r for r in regions if r[2] > 0]
        env.check("work_shared_loops_reached", len(loops) > 0 or not regions, str(regions))
        if sched == "iter":
            short = [r for r in loops if r[2] > NVT]
            env.check("every_iteration_has_its_own_virtual_thread", not short, "loops longer than %d virtual threads: %s" % (NVT, short))
        by = {}
        for r in omp.RACES:
            by.setdefault(r["region"], []).append(r)
        for fn in sorted({r[0] for r in regions}):
            rs = by.get(fn, [])
            env.check("no_data_race/%s" % fn.strip("."), not rs, "; ".join(x["detail"] for x in rs[:3]))
        env.tags.append("omp regions: %s" % sorted({(r[0], r[2]) for r in regions}))
        ur = sorted({u for l in bridge.UNINIT for u in l})
        if ur:
            env.tags.append("uninitialised heap doubles read (modelled as unconstrained reals): %s" % ur[:6])
        if omp.SILENT:
            env.tags.append("silent stores to shared locations (every thread rewrites the value already there; result-neutral): %s" % sorted(set(omp.SILENT)))
    run.__name__ = "omp_" + h.__name__
    return run


def h_atc_reciprocal(env, nspin=1, nk=2, nlm=1, nq=2):
    """atc_reciprocal_convolution (convolutions.c; called by ciderpress/gpaw/atom_utils.py) on symbolic buffers:
    out[s,k,lm,q2] = sum_q1 C_k[q2,q1] in[s,k,lm,q1] with C_k built from a table the routine fills first.  Only the footprint obligations of the wrapper are decided here (no value identity: the table involves pow(x, 1.5))"""
    import numpy as np
    CFILE = "ciderpress/lib/mod_cider/convolutions.c"
    inp = env.arr("inp", (nspin, nk, nlm, nq), lo="-2", hi="2")
    kk = env.arr("k", (nk,), "nonneg", hi="4")
    al = env.arr("alpha", (nq,), "pos", lo="1/8", hi="8")
    an = env.arr("norm", (nq,), "pos", lo="1/8", hi="8")
    out = env.zeros((nspin, nk, nlm, nq))
    if env.sym:
        from ..llsym import bridge
        from ..llsym.interp import Obj, Ptr
        it = bridge.new_interp(CFILE)
        mk = lambda nm, a: Ptr(Obj(nm, bridge._Flat(a), 8), 0)
        ok, _ = env.attempt("returns", lambda: it.call("atc_reciprocal_convolution", [mk("in", inp.copy()), mk("out", out), mk("k", kk.copy()), mk("alphas", al.copy()), mk("norms", an.copy()), nspin, nk, nlm, nq]))
        if not ok:
            return
    else:
        import ctypes
        from .. import replaylibs
        lib = np.ctypeslib.load_library("libmcider", replaylibs.ensure())
        pp = lambda a: a.ctypes.data_as(ctypes.c_void_p)
        arrs = [np.ascontiguousarray(a, dtype=float) for a in (inp, kk, al, an)]
        lib.atc_reciprocal_convolution(pp(arrs[0]), pp(out), pp(arrs[1]), pp(arrs[2]), pp(arrs[3]), ctypes.c_int(nspin), ctypes.c_int(nk), ctypes.c_int(nlm), ctypes.c_int(nq))


def _make():
    from . import c02, c05, c11, c20, c18, c05_sdmx
    return {
        "atc_reciprocal_convolution": (_wrap(h_atc_reciprocal), {}, "dft"),
        "sdmx_ylm_loop": (_wrap(c05_sdmx.h_ylm_loop), {}, "dft"),
        "sdmx_ao_to_bas_l1": (_wrap(c05_sdmx.h_l1), dict(ng=3), "dft"),
        "sdmx_ao_to_bas_grid": (_wrap(c05_sdmx.h_grid), dict(ng=3), "dft"),
        "sdmx_shl_to_alpha_l1": (_wrap(c05_sdmx.h_shl_alpha), dict(ng=2, nalpha=2, nsh=3), "dft"),
        "cider_coefs_gto_gq": (_wrap(c02.h_gto), dict(spec="se_erf_rinv", order="gq"), "numint"),
        "cider_coefs_gto_qg": (_wrap(c02.h_gto), dict(spec="se_a2r4", order="qg"), "numint"),
        "cider_coefs_vk1_gq": (_wrap(c02.h_vk1), dict(order="gq"), "dft"),
        "cider_coefs_vk1_qg": (_wrap(c02.h_vk1), dict(order="qg"), "dft"),
        "cider_coefs_spline_gq": (_wrap(c02.h_spline), dict(order="gq"), "dft"),
        "cider_coefs_spline_qg": (_wrap(c02.h_spline), dict(order="qg"), "dft"),
        "cider_ind_etb": (_wrap(c02.h_ind), dict(formula="etb"), "dft"),
        "cider_ind_zexp": (_wrap(c02.h_ind), dict(formula="zexp"), "dft"),
        "smooth_cider_exponents": (_wrap(c02.h_smooth), {}, "dft"),
        "evaluate_se_kernel": (_wrap(c11.h_rbf), dict(kind="const*full", n=2, nctrl=2), "kernels"),
        "evaluate_se_kernel_antisym": (_wrap(c11.h_antisym), dict(n=2), "kernels"),
        "evaluate_se_kernel_spin": (_wrap(c11.h_spin), dict(n=2), "kernels"),
        "evaluate_se_kernel_spin_v2": (_wrap(c11.h_spin_v2_raw), dict(n=2), "kernels"),
        "reduce_angc_ylm": (_wrap(c05.h_angc_ylm), dict(nrad=2, nw=(2, 3), nlm=4, nalpha=2, stride=3, offset=1), "dft"),
        "contract_rad_orb": (_wrap(c05.h_rad_orb), dict(nalpha=2, stride=3, offset=1), "dft"),
        "project_spline": (_wrap(c05.h_project_spline), {}, "dft"),
        "fill_l1_coeff": (_wrap(c05.h_fill_l1), {}, "dft"),
        "orb2grid_LCAOInterpolator": (_wrap(c05.h_orb2grid, 12), {}, "dft"),
        "orb2grid_LCAOInterpolatorDirect": (_wrap(c05.h_direct, 12), {}, "dft"),
        "multiply_atc_integrals": (_wrap(c05.h_atc_integrals), dict(vk=False), "dft"),
        "multiply_atc_integrals_vk": (_wrap(c05.h_atc_integrals), dict(vk=True), "dft"),
        "fft_copies_r2c_inplace": (_wrap(c20.h_fft), dict(dims=(2, 3), nt=2, fwd=True, r2c=True, inplace=True, bf=False), "fft"),
        "fft_copies_c2r_inplace": (_wrap(c20.h_fft), dict(dims=(2, 3), nt=2, fwd=False, r2c=True, inplace=True, bf=True), "fft"),
        "fft_copies_c2c": (_wrap(c20.h_fft), dict(dims=(3,), nt=2, fwd=True, r2c=False, inplace=False, bf=False), "fft"),
    }


_TABLE = None


def table():
    global _TABLE
    if _TABLE is None:
        _TABLE = _make()
    return _TABLE


def _team_table():
    """the same harnesses under the second schedule model: a team of T threads, the loop's own schedule kind and chunk size, every
    thread running its chunks one after the other (state left in thread-private variables reaches later iterations)"""
    from . import c02, c05, c11, c05_sdmx
    out = {}
    for T in (2, 3):
        out["cider_coefs_gto_gq/T%d" % T] = (_wrap(c02.h_gto, T, "chunks"), dict(spec="se_erf_rinv", order="gq"), "numint")
        out["cider_coefs_vk1_qg/T%d" % T] = (_wrap(c02.h_vk1, T, "chunks"), dict(order="qg"), "dft")
        out["cider_coefs_spline_gq/T%d" % T] = (_wrap(c02.h_spline, T, "chunks"), dict(order="gq"), "dft")
        out["smooth_cider_exponents/T%d" % T] = (_wrap(c02.h_smooth, T, "chunks"), {}, "dft")
        out["evaluate_se_kernel_spin_v2/T%d" % T] = (_wrap(c11.h_spin_v2_raw, T, "chunks"), dict(n=2), "kernels")
        out["sdmx_ao_to_bas_l1/T%d" % T] = (_wrap(c05_sdmx.h_l1, T, "chunks"), dict(ng=3), "dft")
        out["sdmx_shl_to_alpha_l1/T%d" % T] = (_wrap(c05_sdmx.h_shl_alpha, T, "chunks"), dict(ng=2, nalpha=3, nsh=2), "dft")
        out["contract_rad_orb_9shells/T%d" % T] = (_wrap(c05.h_rad_orb, T, "chunks"), dict(nalpha=1, stride=2, offset=1, basis="nine_shells"), "dft")
        out["fill_l1_coeff/T%d" % T] = (_wrap(c05.h_fill_l1, T, "chunks"), {}, "dft")
        out["project_spline/T%d" % T] = (_wrap(c05.h_project_spline, T, "chunks"), {}, "dft")
        out["multiply_atc_integrals/T%d" % T] = (_wrap(c05.h_atc_integrals, T, "chunks"), dict(vk=False), "dft")
        out["orb2grid_LCAOInterpolatorDirect/T%d" % T] = (_wrap(c05.h_direct, T, "chunks"), {}, "dft")
        out["reduce_angc_ylm/T%d" % T] = (_wrap(c05.h_angc_ylm, T, "chunks"), dict(nrad=2, nw=(2, 3), nlm=4, nalpha=2, stride=3, offset=1), "dft")
        out["evaluate_se_kernel/T%d" % T] = (_wrap(c11.h_rbf, T, "chunks"), dict(kind="const*full", n=3, nctrl=2), "kernels")
    return out


_TEAM = None


def team_table():
    global _TEAM
    if _TEAM is None:
        _TEAM = _team_table()
    return _TEAM


def tasks(tier):
    out = []
    for name, (fn, cfg, mods) in table().items():
        out.append(Task("races/%s" % name, fn, cfg, mods=mods, max_paths=64))
    for name, (fn, cfg, mods) in team_table().items():
        if tier == "thorough" or name.endswith("/T2"):
            out.append(Task("schedules/%s" % name, fn, cfg, mods=mods, max_paths=64))
    return out


def prepare(tier):
    from . import c02, c05, c11, c20
    for m in (c02, c05, c11, c20):
        if hasattr(m, "prepare"):
            m.prepare(tier)


def replay(task, rec):
    """a footprint conflict is a statement about the IR, not about one run: the counterexample is re-derived from a second,
    independent interpretation with twice as many virtual threads and, where the obligation is a value identity, replayed on
    the compiled library like in the owning property"""
    name = rec["name"]
    obl = name[len(task.name) + 1:]
    if obl.startswith("no_data_race/") or obl.startswith("every_iteration") or obl.startswith("parallel_regions") or obl.startswith("work_shared"):
        return replay_race(task, rec, obl)
    if task.name.startswith("schedules/"):
        # a value identity that fails under one legal schedule: evaluate it on the compiled library with real teams, repeatedly
        from .. import vgreplay
        from ..run import _TIER
        rp = common.generic_replay(task, rec)
        if rp.get("confirmed"):
            return rp
        rp2 = vgreplay.confirm_schedule("C10", _TIER, task.name, rec.get("model_float") or {}, obl)
        rp2["single_thread_replay"] = rp.get("detail")
        return rp2
    from .. import harness
    if task.name.startswith("races/fft"):
        from . import c20
        return harness.replay_obligation(task.fn, c20._Real(), task.cfg, rec["model_float"], obl)
    return common.generic_replay(task, rec)


def replay_race(task, rec, obl):
    """confirmation on the real, compiled code under valgrind's helgrind (see vf/vgreplay.confirm_race); structural facts about
    the analysis itself (coverage of iterations by virtual threads) have no replay"""
    if not obl.startswith("no_data_race/"):
        return dict(confirmed=False, detail="analysis coverage fact: " + str(rec.get("detail")))
    from .. import vgreplay
    from ..run import _TIER
    rp = vgreplay.confirm_race("C10", _TIER, task.name, rec.get("model_float") or {})
    rp["footprint_conflict"] = rec.get("detail")
    return rp
