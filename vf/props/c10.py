"""C10 - independence of thread count and schedule.

Part A (this file, solver over the real source expressions): every place where the team size enters the arithmetic explicitly
(omp_get_num_threads / omp_get_thread_num) is an explicit block partition of a grid range.  The C expressions that define the
partition are *extracted from /repo's current source text* (function body located by name, assignment right-hand sides parsed
by a small C-expression parser) and translated to z3 integer terms; z3 then decides, for ALL team sizes 1 <= T <= T_MAX and all
problem sizes 0 <= n <= N_MAX (incl. n < T and T not dividing n):
    coverage   - every index g in [0, n) lies in the block of some thread,
    disjoint   - no index lies in the blocks of two different threads,
    in_bounds  - every index of every block lies in [0, n),
    scratch    - per-thread scratch (malloc(blksize) / tmp_priv + ithread * natm) is large enough and thread-disjoint,
    no_overflow- the int expressions do not exceed INT_MAX inside the stated bounds (the first overflowing size is reported).
Part B (vf/llsym/omp.py): race freedom of the work-shared loops from clang's -fopenmp IR by per-iteration footprints."""
import os
import re
import time

from ..run import Task

PROP_ID = "C10"
REPO = os.environ.get("VERIF_REPO", "/repo")
T_MAX = 4096
N_MAX = 2 ** 31 - 1 - T_MAX
INT_MAX = 2 ** 31 - 1

SDMX = "ciderpress/lib/mod_cider/fast_sdmx.c"
CONV = "ciderpress/lib/mod_cider/conv_interpolation.c"

# function -> (file, names of: team size, thread index, block size var, start var, length-or-end var, kind of third var)
PARTITIONS = {
    "SDMXcontract_ao_to_bas": (SDMX, "nthread", "thread", "blksize", "ip", "bgrids", "len"),
    "SDMXcontract_ao_to_bas_bwd": (SDMX, "nthread", "thread", "blksize", "ip", "bgrids", "len"),
    "SDMXcontract_ao_to_bas_grid": (SDMX, "nthread", "thread", "blksize", "ip", "bgrids", "len"),
    "SDMXcontract_ao_to_bas_grid_bwd": (SDMX, "nthread", "thread", "blksize", "ip", "bgrids", "len"),
    "SDMXcontract_ao_to_bas_l1": (SDMX, "nthread", "thread", "blksize", "ip", "bgrids", "len"),
    "SDMXcontract_ao_to_bas_l1_bwd": (SDMX, "nthread", "thread", "blksize", "ip", "bgrids", "len"),
    "contract_grad_terms_parallel": (CONV, "nthreads", "ithread", "ngrids_local", "ig0", "ig1", "end"),
}


# ------------------------------------------------------------------------------------------------ C source access
def function_body(path, name):
    src = open(os.path.join(REPO, path)).read()
    m = re.search(r"^[A-Za-z_][\w \*]*\b%s\s*\(" % re.escape(name), src, re.M)
    if not m:
        raise LookupError("function %s not found in %s" % (name, path))
    i = src.index("{", m.end())
    depth, j = 0, i
    while True:
        c = src[j]
        if c == "{":
            depth += 1
        elif c == "}":
            depth -= 1
            if depth == 0:
                break
        j += 1
    return src[i:j + 1]


def assignment_rhs(body, var):
    """right-hand side of the (single) assignment `var = <expr>;` / `const int var = <expr>;` in the body"""
    ms = re.findall(r"(?:^|[;{\s])(?:const\s+)?(?:int\s+)?%s\s*=\s*([^;=][^;]*);" % re.escape(var), body)
    ms = [x.strip() for x in ms if not x.strip().startswith("=")]
    if len(ms) != 1:
        raise LookupError("expected exactly one assignment to %s, found %d: %s" % (var, len(ms), ms))
    return " ".join(ms[0].split())


class CExpr(object):
    """tiny recursive-descent parser for int expressions: + - * / ( ) identifiers integers MIN(a,b) MAX(a,b) function calls"""

    def __init__(self, text, env):
        self.toks = re.findall(r"[A-Za-z_]\w*|\d+|[-+*/(),&~%]", text)
        if "".join(self.toks) != re.sub(r"\s+", "", text):
            raise SyntaxError("unsupported C expression: %r" % text)
        self.i = 0
        self.env = env

    def peek(self):
        return self.toks[self.i] if self.i < len(self.toks) else None

    def eat(self, t=None):
        x = self.peek()
        if t is not None and x != t:
            raise SyntaxError("expected %r, got %r" % (t, x))
        self.i += 1
        return x

    def parse(self):
        v = self.band()
        if self.peek() is not None:
            raise SyntaxError("trailing tokens")
        return v

    def band(self):
        v = self.sum()
        while self.peek() == "&":
            self.eat()
            if self.peek() == "~":
                self.eat()
                k = self.eat()
                if not k.isdigit() or (int(k) + 1) & int(k):
                    raise SyntaxError("only masks of the form ~(2^k - 1) are modelled")
                v = self.env["__clearlow__"](v, int(k) + 1)
            else:
                raise SyntaxError("general bitwise and is not modelled")
        return v

    def sum(self):
        v = self.prod()
        while self.peek() in ("+", "-"):
            op = self.eat()
            w = self.prod()
            v = v + w if op == "+" else v - w
        return v

    def prod(self):
        v = self.atom()
        while self.peek() in ("*", "/", "%"):
            op = self.eat()
            w = self.atom()
            v = v * w if op == "*" else (self.env["__div__"](v, w) if op == "/" else self.env["__mod__"](v, w))
        return v

    def atom(self):
        t = self.eat()
        if t == "(":
            v = self.band()
            self.eat(")")
            return v
        if t == "-":
            return -self.atom()
        if t.isdigit():
            return self.env["__int__"](int(t))
        if self.peek() == "(":
            self.eat("(")
            if self.peek() == ")":
                self.eat(")")
                return self.env["__call__"](t, [])
            args = [self.band()]
            while self.peek() == ",":
                self.eat(",")
                args.append(self.band())
            self.eat(")")
            return self.env["__call__"](t, args)
        if t not in self.env:
            raise LookupError("identifier %s has no binding" % t)
        return self.env[t]


def z3env(z3, bind):
    def cdiv(a, b):
        # C int division truncates toward zero; z3's Int division is floor for b > 0: identical when a >= 0 (asserted as a side condition)
        z3env.side.append(z3.And(a >= 0, b > 0))
        return a / b

    def call(name, args):
        if name == "MIN":
            return z3.If(args[0] <= args[1], args[0], args[1])
        if name == "MAX":
            return z3.If(args[0] >= args[1], args[0], args[1])
        if name in ("omp_get_num_threads", "omp_get_thread_num"):
            return bind[name]
        raise LookupError("call to %s not modelled" % name)
    e = dict(bind)
    def cmod(a, b):
        z3env.side.append(z3.And(a >= 0, b > 0))
        return a % b

    def clearlow(a, m):
        # a & ~(m - 1) for a >= 0 (two's complement): a - a mod m
        z3env.side.append(a >= 0)
        return a - a % m
    e.update(__div__=cdiv, __mod__=cmod, __clearlow__=clearlow, __int__=lambda k: z3.IntVal(k), __call__=call)
    return e


z3env.side = []


def partition_queries(cfg):
    import z3
    fn = cfg["fn"]
    path, tname, iname, bname, sname, ename, kind = PARTITIONS[fn]
    body = function_body(path, fn)
    texts = {v: assignment_rhs(body, v) for v in (bname, sname, ename)}
    if tname in ("nthread", "nthreads"):
        texts[tname] = assignment_rhs(body, tname)
    n, T = z3.Int("ngrids"), z3.Int("T")
    recs, notes = [], ["%s: %s" % (k, v) for k, v in texts.items()]
    t_total = [0.0]

    def block(t):
        """(start, end) of thread t's block as z3 terms, from the source expressions"""
        z3env.side = []
        bind = {"ngrids": n, "omp_get_num_threads": T, "omp_get_thread_num": t, iname: t}
        env = z3env(z3, bind)
        env[tname] = CExpr(texts[tname], env).parse() if tname in texts else T
        env[bname] = CExpr(texts[bname], env).parse()
        env[sname] = CExpr(texts[sname], env).parse()
        third = CExpr(texts[ename], env).parse()
        start = env[sname]
        end = third if kind == "end" else start + third
        return start, end, env[bname], list(z3env.side), env

    base = [T >= 1, T <= T_MAX, n >= 0, n <= N_MAX]

    def run(name, cons, expect="unsat"):
        s = z3.Solver()
        s.set("timeout", 60000)
        s.add(*cons)
        t0 = time.time()
        r = str(s.check())
        dt = time.time() - t0
        t_total[0] += dt
        if expect == "unsat":
            rec = dict(kind="partition", name="%s/%s" % (cfg["task"], name), path="", verdict=r, t=round(dt, 3), size=len(cons), trivial=False, phase="QF_NIA")
            if r == "sat":
                m = s.model()
                vals = {str(d): m[d].as_long() for d in m.decls() if m[d] is not None and z3.is_int_value(m[d])}
                rec["model"] = {k: str(v) for k, v in vals.items()}
                rec["model_float"] = {k: float(v) for k, v in vals.items()}
                rec["detail"] = "counterexample: %s" % vals
            recs.append(rec)
        else:
            recs.append(dict(kind="reach", name="%s/%s" % (cfg["task"], name), path="", verdict=r if r == "sat" else "unknown", t=round(dt, 3)))

    g, t1, t2 = z3.Int("g"), z3.Int("t1"), z3.Int("t2")
    s1, e1, b1, side1, _ = block(t1)
    s2, e2, b2, side2, _ = block(t2)
    in1 = z3.And(s1 <= g, g < e1)
    in2 = z3.And(s2 <= g, g < e2)
    thr1 = z3.And(t1 >= 0, t1 < T)
    thr2 = z3.And(t2 >= 0, t2 < T)
    # the C division side conditions (numerator >= 0, divisor > 0) must hold on the whole domain, else the Int model of `/` is not C's
    run("division_operands_nonnegative", base + [thr1, z3.Not(z3.And(*side1))] if side1 else base + [z3.BoolVal(False)])
    # coverage by witness: thread tw = g div blocksize
    tw = z3.Int("tw")
    sw, ew, bw, _, _ = block(tw)
    run("coverage", base + [g >= 0, g < n, bw > 0, tw == g / bw, z3.Not(z3.And(tw >= 0, tw < T, sw <= g, g < ew))])
    run("block_size_positive_when_work_exists", base + [n >= 1, thr1, z3.Not(b1 >= 1)])
    run("disjoint", base + [thr1, thr2, t1 != t2, in1, in2])
    run("in_bounds", base + [thr1, in1, z3.Not(z3.And(g >= 0, g < n))])
    run("no_int_overflow", base + [thr1, z3.Or(s1 > INT_MAX, e1 > INT_MAX, s1 + b1 > INT_MAX, n + T > INT_MAX, s1 < -INT_MAX - 1, e1 - s1 < -INT_MAX - 1)])
    if re.search(r"malloc\s*\(\s*sizeof\s*\(\s*double\s*\)\s*\*\s*%s\s*\)" % bname, body):
        # per-thread scratch of blksize doubles indexed by g - ip in [0, bgrids)
        run("scratch_malloc_blksize_large_enough", base + [thr1, z3.Not(e1 - s1 <= b1)])
        notes.append("per-thread scratch: malloc(sizeof(double) * %s)" % bname)
    if fn == "contract_grad_terms_parallel":
        natm, a = z3.Int("natm"), z3.Int("atm_of_g")
        m_alloc = re.search(r"calloc\s*\(\s*([^,]+),\s*sizeof\s*\(\s*double\s*\)\s*\)", body)
        m_mine = re.search(r"my_tmp\s*=\s*tmp_priv\s*\+\s*([^;]+);", body)
        if not (m_alloc and m_mine):
            raise LookupError("scratch allocation / my_tmp expressions not found in %s" % fn)
        z3env.side = []
        env = z3env(z3, {"ngrids": n, "omp_get_num_threads": T, "omp_get_thread_num": t1, iname: t1, "natm": natm})
        env[tname] = T
        size = CExpr(m_alloc.group(1), env).parse()
        off1 = CExpr(m_mine.group(1), env).parse()
        env2 = z3env(z3, {"ngrids": n, "omp_get_num_threads": T, "omp_get_thread_num": t2, iname: t2, "natm": natm})
        env2[tname] = T
        off2 = CExpr(m_mine.group(1), env2).parse()
        dom = base + [natm >= 1, natm <= 4096, a >= 0, a < natm, thr1]
        run("scratch_offset_inside_allocation", dom + [z3.Not(z3.And(off1 + a >= 0, off1 + a < size))])
        a2 = z3.Int("atm_of_g2")
        run("scratch_thread_disjoint", dom + [thr2, t1 != t2, a2 >= 0, a2 < natm, off1 + a == off2 + a2])
        notes.append("scratch: calloc(%s) doubles, my_tmp = tmp_priv + %s; atm_g[g] in [0, natm) assumed (input contract)" % (m_alloc.group(1).strip(), m_mine.group(1).strip()))
    run("reach", base + [thr1, in1, n >= 3, T >= 2, t1 >= 1], expect="sat")
    import hashlib
    return dict(records=recs, paths=0, solver_time=t_total[0], notes=notes,
                sources={os.path.join(REPO, path): hashlib.sha256(open(os.path.join(REPO, path), "rb").read()).hexdigest()})


def tasks(tier):
    out = []
    for fn in PARTITIONS:
        name = "partition/%s" % fn
        out.append(Task(name, partition_queries, dict(fn=fn, task=name), engine="custom"))
    from . import c10_races
    out += c10_races.tasks(tier)
    return out


def prepare(tier):
    from . import c10_races
    c10_races.prepare(tier)


sym_mods = None


def _sym_mods(key="dft"):
    from . import common
    return common.sym_mods(key)


sym_mods = _sym_mods


def real_mods(key="dft"):
    from . import common
    return common.real_mods(key)


def real_mods_for(task):
    if task.name.startswith("races/fft"):
        from . import c20
        return c20._Real()
    return real_mods(task.real_mods)


NEEDS_FFT = True


def replay(task, rec):
    if task.name.startswith("partition/"):
        return replay_partition(task, rec)
    from . import c10_races
    return c10_races.replay(task, rec)


def replay_partition(task, rec):
    """compile the function's partition expressions (same source text) into a tiny C program and evaluate them at the counterexample"""
    import subprocess
    import tempfile
    import shutil
    fn = task.cfg["fn"]
    path, tname, iname, bname, sname, ename, kind = PARTITIONS[fn]
    body = function_body(path, fn)
    texts = {v: assignment_rhs(body, v) for v in (bname, sname, ename)}
    m = {k: int(v) for k, v in (rec.get("model_float") or {}).items()}
    n, T = m.get("ngrids", 0), m.get("T", 1)
    if "/scratch_" in rec["name"] and fn == "contract_grad_terms_parallel":
        m_alloc = re.search(r"calloc\s*\(\s*([^,]+),\s*sizeof\s*\(\s*double\s*\)\s*\)", body)
        m_mine = re.search(r"my_tmp\s*=\s*tmp_priv\s*\+\s*([^;]+);", body)
        prog = """
#include <stdio.h>
int main(void){ int natm=%d; int %s=%d; long long size=%s; int %s=%d; long long o1=(%s)+%d; %s=%d; long long o2=(%s)+%d;
 int bad=0; if (o1<0||o1>=size) bad|=1; if (o1==o2) bad|=2; printf("bad=%%d offset1=%%lld offset2=%%lld size=%%lld\\n", bad, o1, o2, size); return 0; }
""" % (m.get("natm", 1), tname, T, m_alloc.group(1), iname, m.get("t1", 0), m_mine.group(1), m.get("atm_of_g", 0), iname, m.get("t2", m.get("t1", 0)), m_mine.group(1), m.get("atm_of_g2", -10 ** 6))
        return _run_c(prog, "scratch expressions of %s compiled with gcc at %s" % (fn, m))
    prog = """
#include <stdio.h>
#define MIN(a,b) ((a)<(b)?(a):(b))
#define MAX(a,b) ((a)>(b)?(a):(b))
int main(void){ long long cover[1]; int ngrids=%d; int %s=%d; int bad=0; long long covered=0;
 for (int %s=0; %s<%s; %s++){ int %s=%s; int %s=%s; int %s=%s; long long s=%s, e=%s;
   if (e>s){ if (s<0||e>ngrids) bad|=1; covered += e-s; } }
 if (covered!=ngrids) bad|=2; printf("bad=%%d covered=%%lld ngrids=%%d\\n", bad, covered, ngrids); return 0; }
""" % (n, tname, T, iname, iname, tname, iname, bname, texts[bname], sname, texts[sname], ename, texts[ename], sname, (ename if kind == "end" else "%s+%s" % (sname, ename)))
    return _run_c(prog, "partition expressions of %s compiled with gcc at ngrids=%d, T=%d" % (fn, n, T))


def _run_c(prog, what):
    import subprocess
    import tempfile
    import shutil
    d = tempfile.mkdtemp(prefix="verif_c10_")
    try:
        with open(os.path.join(d, "p.c"), "w") as f:
            f.write(prog)
        r = subprocess.run(["gcc", "-O0", "-w", "-o", os.path.join(d, "p"), os.path.join(d, "p.c")], stdout=subprocess.PIPE, stderr=subprocess.STDOUT, text=True)
        if r.returncode != 0:
            return dict(confirmed=False, detail="replay program did not compile: " + r.stdout[-300:])
        out = subprocess.run([os.path.join(d, "p")], stdout=subprocess.PIPE, text=True, timeout=600).stdout
    finally:
        shutil.rmtree(d, True)
    mm = re.search(r"bad=(\d+)", out)
    return dict(confirmed=bool(mm and int(mm.group(1)) != 0), detail="%s: %s" % (what, out.strip()))


META = dict(
    explanation="(A) the block-partition expressions of every routine that reads the team size are extracted from the current C source and translated to z3 integers; z3 decides coverage, "
                "disjointness, bounds, scratch sizing and absence of int overflow for every team size and problem size in the bounds; (B) per-iteration read/write footprints of the work-shared "
                "loops from clang's -fopenmp IR (see c10_races)",
    functions=['fast_sdmx.c SDMXylm_loop + sph_harm.c recursive_sph_harm / setup_sph_harm_buffer (races/sdmx_ylm_loop)', "fast_sdmx.c: SDMXcontract_ao_to_bas(_bwd/_grid/_grid_bwd/_l1/_l1_bwd) block partition", "conv_interpolation.c: contract_grad_terms_parallel partition and per-thread scratch",
               "part B: convolutions.c atc_reciprocal_convolution (direct call on symbolic buffers)", "part B (-fopenmp IR, footprints): cider_coefs.c cider_coefs_gto/vk1/spline_gq/qg, cider_ind_etb/zexp, smooth_cider_exponents; model_utils.c evaluate_se_kernel/_antisym/_spin/_spin_v2; cider_grids.c reduce_angc_to_ylm/reduce_ylm_to_angc; convolutions.c contract_rad_to_orb/contract_orb_to_rad, "
               "multiply_atc_integrals(_vk); conv_interpolation.c project_conv_to_spline/project_spline_to_conv, fill_l1_coeff_fwd/bwd, compute_mol_convs_single_new, compute_pot_convs_single_new, add_lp1_term_fwd/bwd, "
               "add_lp1_onsite_new_fwd/bwd (through LCAOInterpolator(Direct).project_orb2grid/project_grid2orb); fast_sdmx.c SDMXcontract_ao_to_bas_l1/_l1_bwd, _grid/_grid_bwd, contract_shl_to_alpha_l1/_bwd; cider_fft.c write_fft_input/read_fft_output"],
    bounds=dict(part_B="loops of <= 8 iterations (<= 12 for the orbital-to-grid pair) at the C05/C11/C20 harness sizes; one virtual thread per iteration; every pair of iterations compared per barrier phase", team_size="1 <= T <= %d" % T_MAX, problem_size="0 <= ngrids <= 2^31 - 1 - %d (incl. ngrids < T and T not dividing ngrids)" % T_MAX, natm="1..4096 (scratch queries)"),
    stubs=["omp_get_num_threads() = T, omp_get_thread_num() = t in [0, T): arbitrary", "C int division modelled by z3 integer division under the proved side condition numerator >= 0, divisor > 0"],
    assumptions=["atm_g[g] in [0, natm) (caller contract of contract_grad_terms_parallel)", "results additionally depend on reassociation inside reductions/BLAS, which the property allows",
                 "part B: the __kmpc_* runtime is a model (fork_call, static/dynamic work-sharing, barrier, single, master, critical, reduce); addresses never depend on floating-point data; "
                 "stores of the value already present are not races (listed in the evidence tags)",
                 "part B, team model (schedules/*): one legal execution per team size T in {2, 3}: static -> contiguous blocks or round-robin chunks, dynamic/guided -> chunk c to thread c mod T in increasing order; "
                 "uninitialised heap doubles are unconstrained reals; a failing identity is replayed on the compiled library with real teams (2, 3, 4 threads, <= 40 runs each)",
                 "NOT covered: the remaining work-shared loops of conv_interpolation.c (nuclear-gradient terms, unused variants), the remaining loops of fast_sdmx.c, frac_lapl.c, numint_cider/nr_numint.c, pbc_tools.c, MKL/MPI branches, reproducibility of BLAS itself"],
)
