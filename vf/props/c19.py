"""C19 - CIDER grids: the index map between the sorted/pruned/padded grid and the atom-ordered grid.

The real gen_atomic_grids_cider, CiderGrids.gen_atomic_grids/build/prune_by_density_ and AtomicGridsIndexer.from_tabs/
set_weights/set_idx/set_padding are executed symbolically from /repo's source.  Environment (each a stub with the
documented contract of the PySCF primitive it replaces; all listed in evidence):
  radi_method            -> n_rad fresh positive radii and fresh weights dr
  prune (callable)       -> the task's concrete list of angular sizes per radial shell (every arrangement is a task)
  libdft.MakeAngularGrid -> n fresh directions and n fresh angular weights per angular size n
  libcider.recursive_sph_harm_vec -> fresh symbols Y[n][j][lm]
  Grids.get_partition    -> PySCF's contract: atom-ordered concatenation of (element table coords + atom centre),
                            weights = element table volume * a fresh Becke factor per point
  arg_group_grids        -> the task's permutation (quick: a fixed set incl. identity/reversal; thorough: more)
  make_mask              -> None
so coordinates, weights, densities and the pruning threshold are symbolic, the combinatorial data (shell sizes,
permutation, alignment) are enumerated per task, and the pruning mask is decided by solver forking.
"""
import itertools
import random
from fractions import Fraction

import numpy as np

from ..run import Task
from . import common

PROP_ID = "C19"
sym_mods = common.sym_mods
real_mods = common.real_mods
replay = common.generic_replay

ELEMS = {"H": 1, "He": 2, "Li": 3}


class _FakeFn(object):
    def __init__(self, f):
        self.f = f

    def __call__(self, *a):
        return self.f(*a)


class _FakeLibdft(object):
    def __init__(self, fn):
        self.MakeAngularGrid = _FakeFn(fn)


def _val(x):
    return x.value if hasattr(x, "value") else x


def _mol(atoms):
    from pyscf import gto
    m = gto.M(atom="; ".join("%s 0 0 %d" % (a, 2 * i) for i, a in enumerate(atoms)), basis="sto-3g",
              spin=sum(ELEMS[a] for a in atoms) % 2, verbose=0)
    return m


def _setup(env, atoms, shells, alignment, perm_seed, sort_grids, lmax, tag="", no_prune=False):
    """returns (grids object, bookkeeping dict).  shells: {symb: list of angular sizes per radial index}"""
    gcg = env.m.gen_cider_grid
    gi = env.m.grids_indexer
    mol = _mol(atoms)
    book = dict(angdirs={}, angw={}, Y={}, rad={}, dr={}, P=None, centers=None)
    sym = env.sym
    nlm = (lmax + 1) ** 2

    def arr_of(name, shape, **kw):
        return env.arr(name, shape, **kw)

    def radi_method(n_rad, chg, ia, **kwargs):
        symb = [s for s in shells if ELEMS[s] == chg][0]
        r = arr_of("%srad_%s" % (tag, symb), (n_rad,), dom="pos", lo="1/8", hi="8")
        d = arr_of("%sdr_%s" % (tag, symb), (n_rad,), dom="pos", lo="1/8", hi="8")
        book["rad"][symb], book["dr"][symb] = r, d
        return r, d

    def prune(chg, rad, n_ang):
        symb = [s for s in shells if ELEMS[s] == chg][0]
        return list(shells[symb])

    def make_angular_grid(ptr, n):
        n = _val(n)
        if n not in book["angdirs"]:
            book["angdirs"][n] = arr_of("dir%d" % n, (n, 3), lo="-1", hi="1")
            book["angw"][n] = arr_of("angw%d" % n, (n,), dom="pos", lo="1/64", hi="1")
        grid = _target(env, ptr, (n, 4))
        grid[:, :3] = book["angdirs"][n]
        grid[:, 3] = book["angw"][n]

    def sph_harm(nlm_, n, dptr, yptr):
        nlm_, n = _val(nlm_), _val(n)
        if n not in book["Y"]:
            book["Y"][n] = arr_of("Y%d" % n, (n, nlm_), lo="-2", hi="2")
        y = _target(env, yptr, (n, nlm_))
        y[:, :] = book["Y"][n]

    saved = dict(libdft=gcg.libdft, arg=gcg.arg_group_grids, fn=None)
    gcg.libdft = _FakeLibdft(make_angular_grid)
    lib = gcg.libcider
    if sym:
        lib.handlers["recursive_sph_harm_vec"] = sph_harm
    else:
        saved["libcider"] = lib
        gcg.libcider = type("L", (), {"recursive_sph_harm_vec": _FakeFn(sph_harm)})()

    class G(gcg.CiderGrids):
        def get_partition(self, mol, atom_grids_tab, *a, **k):
            cs, ws, owner = [], [], []
            centers = arr_of("center", (mol.natm, 3), lo="-8", hi="8")
            book["centers"] = centers
            for ia in range(mol.natm):
                c, v = atom_grids_tab[mol.atom_symbol(ia)]
                cs.append(c + centers[ia])
                ws.append(v)
                owner += [ia] * len(v)
            coords = np.vstack(cs)
            vol = np.hstack(ws)
            P = arr_of("becke", (len(owner),), dom="pos", lo="1/64", hi="1")
            book["P"], book["owner"], book["vol"] = P, owner, vol
            book["all_coords"] = coords.copy()
            book["all_weights"] = (vol * P).copy()
            return coords, vol * P

        def make_mask(self, mol, coords, *a, **k):
            return None

    def arg_group(mol_, coords):
        n = len(coords)
        rng = random.Random(perm_seed)
        p = list(range(n))
        if perm_seed == 0:
            pass
        elif perm_seed == 1:
            p.reverse()
        else:
            rng.shuffle(p)
        book["perm"] = p
        return np.array(p)

    gcg.arg_group_grids = arg_group
    g = G(mol, lmax=lmax)
    g.verbose = 0
    g.alignment = alignment
    g.prune = None if no_prune else prune      # None is PySCF's documented "no pruning": every radial shell keeps the requested angular size
    g.radi_method = radi_method
    g.atom_grid = {s: (len(shells[s]), max(shells[s])) for s in shells}
    book["restore"] = lambda: _restore(gcg, saved)
    book["mol"] = mol
    return g, book


def _restore(gcg, saved):
    gcg.libdft = saved["libdft"]
    gcg.arg_group_grids = saved["arg"]
    if "libcider" in saved:
        gcg.libcider = saved["libcider"]


def _target(env, ptr, shape):
    """the numpy array behind a `.ctypes.data_as(c_void_p)` argument"""
    if env.sym:
        a = ptr.arr if hasattr(ptr, "arr") else ptr
        return a.reshape(shape)
    import ctypes
    n = int(np.prod(shape))
    buf = (ctypes.c_double * n).from_address(ptr.value)
    return np.frombuffer(buf, dtype=np.float64).reshape(shape)


def _invariants(env, g, book, tag):
    ix = g.grids_indexer
    idx = np.asarray(ix.get_idx()).astype(int)
    nidx = idx.size
    W, C = book["all_weights"], book["all_coords"]
    owner = book["owner"]
    env.check(tag + "/idx_injective", len(set(idx.tolist())) == nidx, str(idx.tolist()))
    env.check(tag + "/idx_in_range", all(0 <= i < len(owner) for i in idx.tolist()), str(idx.tolist()))
    env.check(tag + "/size_is_idx_plus_padding", nidx + ix.padding == g.weights.size == len(g.coords),
              "idx %d padding %d weights %d coords %d" % (nidx, ix.padding, g.weights.size, len(g.coords)))
    if g.alignment > 1:
        env.check(tag + "/size_aligned", g.weights.size % g.alignment == 0, "%d %% %d" % (g.weights.size, g.alignment))
    env.check(tag + "/iatom_list_size", len(ix.iatom_list) == nidx, "%d vs %d" % (len(ix.iatom_list), nidx))
    if nidx + ix.padding != g.weights.size or len(ix.iatom_list) != nidx:
        return
    for k in range(nidx):
        env.equal(tag + "/weight_%d" % k, g.weights[k], W[idx[k]])
        for d in range(3):
            env.equal(tag + "/coord_%d_%d" % (k, d), g.coords[k, d], C[idx[k], d])
        env.check(tag + "/owner_%d" % k, int(ix.iatom_list[k]) == owner[idx[k]], "%s vs %s" % (ix.iatom_list[k], owner[idx[k]]))
    for k in range(nidx, g.weights.size):
        env.equal(tag + "/padding_weight_%d" % k, g.weights[k], env.const(0))
    for g0 in range(len(owner)):
        env.equal(tag + "/all_weights_%d" % g0, ix.all_weights[g0], W[g0])


def _leb_lmax():
    """half the algebraic order of the Lebedev rule with n points, from PySCF's own table (not the repository's LMAX_DICT)"""
    from pyscf.dft.gen_grid import LEBEDEV_ORDER
    return {int(n): int(order) // 2 for order, n in LEBEDEV_ORDER.items()}


_LEB_LMAX = _leb_lmax()


def _tables(env, g, book, atoms, shells, lmax):
    """rad_loc / ylm_loc / ra_loc / ar_loc / rad_arr / ylm describe the atom-ordered grid actually produced"""
    ix = g.grids_indexer
    C, owner = book["all_coords"], book["owner"]
    nlm = (lmax + 1) ** 2
    pi4 = 4 * (env.m.gen_cider_grid.np.pi if env.sym else np.pi)
    nrad_tot = sum(len(shells[a]) for a in atoms)
    env.check("tables/nrad", ix.nrad == nrad_tot == len(ix.ar_loc) == len(ix.rad_loc) - 1 == len(ix.ylm_loc), "%s" % ix.nrad)
    env.check("tables/ra_loc", [int(x) for x in ix.ra_loc] == list(np.cumsum([0] + [len(shells[a]) for a in atoms])), str(ix.ra_loc))
    env.check("tables/rad_loc_end", int(ix.rad_loc[-1]) == len(owner) and int(ix.rad_loc[0]) == 0, str(ix.rad_loc))
    env.check("tables/ga_loc", [int(x) for x in ix.ga_loc] == [owner.index(a) if a in owner else len(owner) for a in range(len(atoms))] + [len(owner)], str(ix.ga_loc))
    if ix.nrad != nrad_tot or int(ix.rad_loc[-1]) != len(owner):
        return
    seen = {}
    for r in range(ix.nrad):
        ia = int(ix.ar_loc[r])
        lo, hi = int(ix.rad_loc[r]), int(ix.rad_loc[r + 1])
        n = hi - lo
        env.check("tables/shell%d_atom" % r, all(owner[q] == ia for q in range(lo, hi)) and n > 0, "atom %d points %d:%d" % (ia, lo, hi))
        env.check("tables/shell%d_ang_size_known" % r, n in book["angdirs"], "n=%d" % n)
        if n not in book["angdirs"]:
            continue
        symb = atoms[ia]
        # the radius of this shell is one of the element's radii, each used exactly once per atom
        yl = int(ix.ylm_loc[r])
        lsh = _LEB_LMAX[n]
        env.check("tables/shell%d_ylm_rows_in_table" % r, 0 <= yl and yl + n <= ix.ylm.shape[0], "rows %d:%d of %d" % (yl, yl + n, ix.ylm.shape[0]))
        if not (0 <= yl and yl + n <= ix.ylm.shape[0]):
            continue
        for j in range(n):
            for d in range(3):
                env.equal("tables/shell%d_pt%d_coord%d" % (r, j, d), C[lo + j, d], ix.rad_arr[r] * book["angdirs"][n][j, d] + book["centers"][ia, d])
            for lm in range(nlm):
                want = book["Y"][n][j, lm] if lm < min((lsh + 1) ** 2, nlm) else env.const(0)
                env.equal("tables/shell%d_pt%d_ylm%d" % (r, j, lm), ix.ylm[yl + j, lm], want)
        seen.setdefault(ia, []).append(r)
        # weight = 4 pi r^2 dr * angular weight * Becke factor with dr the radial weight belonging to this radius
        k = _which_radius(env, book, symb, ix.rad_arr[r], r - int(ix.ra_loc[ia]), shells)
        if k is not None:
            for j in range(n):
                env.equal("tables/shell%d_pt%d_weight" % (r, j), book["all_weights"][lo + j],
                          pi4 * ix.rad_arr[r] ** 2 * book["dr"][symb][k] * book["angw"][n][j] * book["P"][lo + j])


def _which_radius(env, book, symb, rval, pos, shells):
    """shells of one atom are grouped by increasing angular size, original order within a group"""
    angs = shells[symb]
    order = [i for n in sorted(set(angs)) for i in range(len(angs)) if angs[i] == n]
    k = order[pos]
    env.equal("tables/%s_radius_order_%d" % (symb, pos), rval, book["rad"][symb][k])
    return k


def h_build(env, atoms, shells, alignment, perm_seed, sort_grids, lmax, prune_pts=0, no_prune=False):
    g, book = _setup(env, atoms, shells, alignment, perm_seed, sort_grids, lmax, no_prune=no_prune)
    try:
        ok, _ = env.attempt("build_returns", lambda: g.build(sort_grids=sort_grids))
        if not ok:
            return
        if not prune_pts:
            # cheap first: every radial shell has one of the angular sizes its element was given, as often as given (decided before the
            # point-by-point tables, which are skipped when the grid is not even the requested one)
            ix = g.grids_indexer
            sizes = sorted(int(ix.rad_loc[r + 1]) - int(ix.rad_loc[r]) for r in range(len(ix.rad_loc) - 1))
            want = sorted(int(n) for a in atoms for n in shells[a])
            env.check("angular_sizes_are_the_requested_ones", sizes == want, "got %s, requested %s" % (sizes, want))
            if sizes != want:
                return
            _invariants(env, g, book, "built")
            _tables(env, g, book, atoms, shells, lmax)
            return
        for rnd in range(2):
            n = g.weights.size
            nreal = len(g.grids_indexer.get_idx())
            thr = env.par("thr%d" % rnd, "pos", lo="1/1024", hi="1")
            # density: rho_k * w_k = c_k * thr / n with c_k symbolic in [0, 2] at the first `prune_pts` points of this round
            # (kept iff c_k > 1: the solver forks on exactly these), c_k = 2 elsewhere (always kept); padding points get rho = 1
            npt = min(prune_pts if rnd == 0 else 1, nreal)
            cs = env.arr("c%d" % rnd, (npt,), dom="nonneg", hi="2")
            rho = env.zeros((n,)) + env.const(1) if env.sym else np.ones((n,))
            for k in range(nreal):
                ck = cs[k] if k < npt else env.const(2)
                rho[k] = ck * thr / (n * g.weights[k])
            # the electron-count guard of prune_by_density_ is made true by construction: nelectron := rho . w
            book["mol"].nelectron = (rho * g.weights).sum()
            g.mol = book["mol"]
            ok, _ = env.attempt("prune%d_returns" % rnd, lambda: g.prune_by_density_(rho.copy(), threshold=thr))
            if not ok:
                return
            _invariants(env, g, book, "pruned%d" % rnd)
    finally:
        book["restore"]()


def h_second_build(env, atoms, shells_first, shells, alignment, perm_seed, sort_grids, lmax):
    """history: a grid is built with one pruning / radial scheme, then - in the same process - another grid for the same elements with the
    same (n_rad, n_ang) request and lmax but another pruning result and other radial points; the second grid must be the one its own
    settings describe (same invariants and tables as a first build), not anything remembered from the first"""
    g0, book0 = _setup(env, atoms, shells_first, alignment, perm_seed, sort_grids, lmax, tag="first_")
    try:
        ok, _ = env.attempt("first_build_returns", lambda: g0.build(sort_grids=sort_grids))
    finally:
        book0["restore"]()
    if not ok:
        return
    g, book = _setup(env, atoms, shells, alignment, perm_seed, sort_grids, lmax)
    try:
        ok, _ = env.attempt("second_build_returns", lambda: g.build(sort_grids=sort_grids))
        if not ok:
            return
        _invariants(env, g, book, "second_build")
        _tables(env, g, book, atoms, shells, lmax)
    finally:
        book["restore"]()


def _arrangements(tier):
    """(atoms, shells) configurations: angular sizes 1 and 6 (lmax 0 and 1), 1-3 radial shells per element"""
    out = [(("H",), {"H": (6, 1)}), (("H", "H"), {"H": (1, 6)}), (("H", "He"), {"H": (6, 1, 6), "He": (1,)}),
           (("He", "H"), {"H": (6,), "He": (6, 1)}), (("H", "He", "H"), {"H": (6, 1), "He": (6,)})]
    if tier == "thorough":
        for angs in itertools.product((1, 6), repeat=3):
            out.append((("H", "He"), {"H": angs, "He": (6, 1)}))
        out.append((("He", "H", "He", "H"), {"H": (1, 6), "He": (6,)}))
        out.append((("Li",), {"Li": (14, 1, 6)}))
    return out


def _name(kind, atoms, shells, alignment, perm_seed, sort_grids, lmax):
    return "%s/%s/%s/align%d/perm%d/%s/lmax%d" % (kind, "".join(atoms), "_".join("%s%s" % (k, "".join(map(str, v))) for k, v in sorted(shells.items())), alignment,
                                                 perm_seed, "sorted" if sort_grids else "unsorted", lmax)


def h_lmax_table(env):
    """the table gen_atomic_grids_cider uses to truncate each angular shell's spherical harmonics: for every Lebedev size PySCF
    offers, LMAX_DICT[n] is half the algebraic order of that quadrature (it integrates Y_l Y_l' exactly for l, l' <= order // 2, so
    the stored harmonics are orthonormal up to that degree and must be zeroed above it).  Table data only: concrete facts."""
    gcg = env.m.gen_cider_grid
    from pyscf.dft.gen_grid import LEBEDEV_NGRID, LEBEDEV_ORDER
    env.check("every_lebedev_size_has_an_entry", set(int(n) for n in LEBEDEV_NGRID) <= set(int(k) for k in gcg.LMAX_DICT), "missing: %s" % sorted(set(int(n) for n in LEBEDEV_NGRID) - set(int(k) for k in gcg.LMAX_DICT)))
    for order, n in sorted(LEBEDEV_ORDER.items()):
        got = gcg.LMAX_DICT.get(n)
        env.check("lmax_of_%d_point_shell_is_half_its_order_%d" % (n, order), got is not None and int(got) == order // 2, "LMAX_DICT[%d] = %r, order // 2 = %d" % (n, got, order // 2))


def tasks(tier):
    out = [Task("tables/lmax_per_lebedev_size", h_lmax_table, {}, mods="grids")]
    arr = _arrangements(tier)
    for ci, (atoms, shells) in enumerate(arr):
        for alignment in ((1, 4) if tier == "quick" else (1, 2, 4, 8)):
            for perm_seed in ((0, 2) if tier == "quick" else (0, 1, 2, 3, 4)):
                for sort_grids in (True, False):
                    if not sort_grids and perm_seed != 0:
                        continue
                    lmax = 1 if ci % 2 == 0 else 2
                    cfg = dict(atoms=atoms, shells=shells, alignment=alignment, perm_seed=perm_seed, sort_grids=sort_grids, lmax=lmax)
                    out.append(Task(_name("build", **cfg), h_build, cfg, mods="grids"))
    # prune = None (no pruning) with an angular size large enough (>= 50) for PySCF's default pruning scheme to act if it were applied
    cfg = dict(atoms=("H",), shells={"H": (50,)}, alignment=1, perm_seed=0, sort_grids=True, lmax=1)
    out.append(Task(_name("build_without_pruning", **cfg), h_build, dict(cfg, no_prune=True), mods="grids", max_paths=64))
    for atoms, first, second in [(("H",), {"H": (6, 6)}, {"H": (6, 1)}), (("H", "He"), {"H": (1, 6), "He": (6,)}, {"H": (6, 6), "He": (6,)})][:2 if tier == "thorough" else 1]:
        cfg = dict(atoms=atoms, shells=second, alignment=1, perm_seed=0, sort_grids=True, lmax=1)
        out.append(Task(_name("history/second_build_other_scheme", **cfg), h_second_build, dict(cfg, shells_first=first), mods="grids"))
    # density pruning (two rounds; kept/dropped decided by solver forking on 2 + 1 points)
    for ci, (atoms, shells) in enumerate(arr[:2] if tier == "quick" else arr[:6]):
        for alignment in ((1, 4) if tier == "quick" else (1, 2, 4, 8)):
            for perm_seed, sort_grids in (((2, True),) if tier == "quick" else ((0, False), (2, True), (3, True))):
                cfg = dict(atoms=atoms, shells=shells, alignment=alignment, perm_seed=perm_seed, sort_grids=sort_grids, lmax=1)
                out.append(Task(_name("prune", **cfg), h_build, dict(cfg, prune_pts=2), mods="grids", max_paths=32))
    return out


def prepare(tier):
    m = sym_mods("grids")
    m.gen_cider_grid, m.grids_indexer


META = dict(
    explanation="gen_atomic_grids_cider, CiderGrids.build/prune_by_density_ and AtomicGridsIndexer executed symbolically with PySCF's primitives replaced by contract stubs; "
                "z3 decides weights/coords == all_weights/all_coords[idx_map], ownership, padding and the shell tables",
    functions=['ciderpress/pyscf/gen_cider_grid.py: gen_atomic_grids_cider / CiderGrids.build twice in one process with different pruning and radial schemes (history/second_build_other_scheme/*)', 'ciderpress/pyscf/gen_cider_grid.py: LMAX_DICT (tables/lmax_per_lebedev_size)', "ciderpress/pyscf/gen_cider_grid.py: gen_atomic_grids_cider, CiderGrids.gen_atomic_grids, build, prune_by_density_",
               "ciderpress/dft/grids_indexer.py: AtomicGridsIndexer.__init__, from_tabs, set_weights, set_idx, set_padding, get_idx"],
    bounds=dict(atoms="1-3 atoms of 1-2 element types", shells="1-3 radial shells per element, angular sizes 1/6 (and 14 thorough) in every order", alignment="1,4 quick; 1,2,4,8 thorough",
                permutation="identity, reversal, seeded shuffles (not all permutations)", pruning="two rounds; kept/dropped symbolic on 2 points in round one and 1 point in round two (solver forking), all other points kept, padding dropped", lmax="1, 2"),
    stubs=["radi_method, prune, libdft.MakeAngularGrid, libcider.recursive_sph_harm_vec (fresh symbols), Grids.get_partition (atom-ordered concatenation contract), arg_group_grids (task permutation), make_mask"],
    assumptions=["equality with PySCF's own Grids point set and Lebedev orthonormality are outside (PySCF C code / numerical tables)", "nelectron guard of prune_by_density_ made true by construction"],
)
