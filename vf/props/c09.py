"""C09 - results are independent of batching, blocking, call history and input aliasing.

Aliasing: every public entry is called with caller-owned symbolic arrays; after the call each input must
hold the same terms as before on every feasible path (the solver supplies the input that drives execution
onto a mutating path, e.g. rho < rhocut).  Batching / blocking: the real nr_* orchestration (c01_l5 harness)
batched vs separate, one block vs two.  History: repeated and interleaved calls on one plan / kernel
object against fresh objects."""
from fractions import Fraction

import numpy as np

from ..run import Task
from . import common, l1, c01_l2, c01_l5
from .c12 import map_spec, REAL_PARAMS, ROLE_DOM, ROLE_HI, _mk_norm

PROP_ID = "C09"
sym_mods = common.sym_mods
real_mods = common.real_mods


def c_table_history(cfg):
    """history of a module-level table builder (concrete integers, no symbolic input, so this is a fact check, not a solver
    query): ciderpress.dft.sph_harm_coeff.get_deriv_ylm_coeff(lmax) after calls with other lmax values returns the same
    C-contiguous (5, (lmax+1)^2) table as a freshly loaded module (the table is handed to C as a raw pointer with row stride nlm)"""
    import importlib.util
    import os
    from .. import replaylibs
    replaylibs.ensure()          # the module's imports load the compiled library
    path = os.path.join(os.environ.get("VERIF_REPO", "/repo"), "ciderpress/dft/sph_harm_coeff.py")

    def fresh():
        spec = importlib.util.spec_from_file_location("_verif_shc_%d" % fresh.n, path)
        fresh.n += 1
        m = importlib.util.module_from_spec(spec)
        spec.loader.exec_module(m)
        return m
    fresh.n = 0
    recs = []
    used = fresh()
    order = cfg["order"]
    for k, lmax in enumerate(order):
        got = used.get_deriv_ylm_coeff(lmax)
        ref = fresh().get_deriv_ylm_coeff(lmax)
        nlm = (lmax + 1) ** 2
        facts = {"shape": tuple(np.shape(got)) == (5, nlm), "c_contiguous_float64": bool(getattr(got, "flags", None) is not None and got.flags.c_contiguous and got.dtype == np.float64),
                 "equals_fresh_module": tuple(np.shape(got)) == tuple(np.shape(ref)) and bool(np.array_equal(np.asarray(got), np.asarray(ref)))}
        for nm, okk in facts.items():
            recs.append(dict(kind="fact", name="%s/call%d_lmax%d_%s" % (cfg["task"], k, lmax, nm), path="", verdict="unsat" if okk else "sat", t=0.0, size=1, trivial=False,
                             phase="executed", detail="call order %s" % (order,), model={}, model_float={}))
    recs.append(dict(kind="reach", name=cfg["task"] + "/reach", path="", verdict="sat", t=0.0))
    return dict(records=recs, paths=0, solver_time=0.0)


def replay(task, rec):
    if task.engine == "custom" and task.name.startswith("history/table"):
        out = c_table_history(task.cfg)
        for r in out["records"]:
            if r["name"] == rec["name"]:
                return dict(confirmed=r["verdict"] == "sat", detail="re-executed on the unmodified module: %s" % r.get("detail"))
        return dict(confirmed=False, detail="not produced")
    if task.engine == "custom":
        from .. import xh
        return xh.replay(task, rec)
    return common.generic_replay(task, rec)


def unchanged(env, name, after, before):
    a = np.asarray(after, dtype=object if env.sym else float).ravel()
    b = np.asarray(before, dtype=object if env.sym else float).ravel()
    env.check(name + "_shape", a.shape == b.shape)
    for k, (x, y) in enumerate(zip(a, b)):
        env.equal("%s_unchanged_%d" % (name, k), x, y)


def h_alias_exponent(env, level, nspin):
    st = env.m.settings
    rho, sig, tau = env.arr("rho", (2,), "nonneg", hi="8"), env.arr("sig", (2,), "nonneg", hi="8"), env.arr("tau", (2,), "nonneg", hi="8")
    r, s, t = rho.copy(), sig.copy(), tau.copy()
    if level == "MGGA":
        st.get_cider_exponent(r, s, t, a0=env.par("a0", "pos", hi="8"), grad_mul=env.par("gm", "pos", hi="8"), tau_mul=env.par("tm", "nonneg", hi="1/64"),
                              rhocut=env.const(Fraction(1, 10 ** 10)), nspin=nspin)
        unchanged(env, "tau", t, tau)
    else:
        st.get_cider_exponent_gga(r, s, a0=env.par("a0", "pos", hi="8"), grad_mul=env.par("gm", "pos", hi="8"), rhocut=env.const(Fraction(1, 10 ** 10)), nspin=nspin)
    unchanged(env, "rho", r, rho)
    unchanged(env, "sigma", s, sig)


def h_alias_sl(env):
    st = env.m.settings
    rho, sig, tau = env.arr("rho", (1,), "nonneg", hi="8"), env.arr("sig", (1,), "nonneg", hi="8"), env.arr("tau", (1,), "nonneg", hi="8")
    for nm, f in (("get_s2", lambda r, s, t: st.get_s2(r, s)), ("ds2", lambda r, s, t: st.ds2(r, s)), ("get_alpha", st.get_alpha), ("dalpha", st.dalpha)):
        r, s, t = rho.copy(), sig.copy(), tau.copy()
        f(r, s, t)
        unchanged(env, nm + "_rho", r, rho)
        unchanged(env, nm + "_sigma", s, sig)
        unchanged(env, nm + "_tau", t, tau)


def h_alias_map(env, cls):
    td = env.m.td
    C = getattr(td, cls)
    idxn, parn = map_spec(C)
    nx = len(idxn)
    x = env.arr("x", (nx, 1), "real", lo="-8", hi="8")
    roles = ROLE_DOM.get(cls, {})
    for r, n_ in enumerate(idxn):
        if roles.get(n_, "nonneg") == "nonneg":
            env.assume(x[r, 0] >= 0)
    ps = [env.par(p, "real" if p in REAL_PARAMS else "pos", hi="8") for p in parn]
    m = C(*range(nx), *ps)
    xa, xb = x.copy(), x.copy()
    dy = env.arr("dy", (1,))
    dya = dy.copy()
    m.fill_feat_(env.zeros((1,)), xa)
    m.fill_deriv_(env.zeros((nx, 1)), dya, xb)
    unchanged(env, "fill_feat_x", xa, x)
    unchanged(env, "fill_deriv_x", xb, x)
    unchanged(env, "fill_deriv_dfdy", dya, dy)


def h_alias_normlist(env, slmode):
    fn = env.m.fn
    layout = [None, None, None, "DensityNormalizer", "GeneralNormalizer"]
    X = env.arr("X", (1, 5, 1), "nonneg", hi="8")
    df = env.arr("df", (1, 5, 1))
    DX = env.arr("DX", (5, 1))
    nl = fn.FeatNormalizerList([None if c is None else _mk_norm(env, fn, c, tag="n%d_" % i) for i, c in enumerate(layout)], slmode)
    Xa, Xb, Xc, dfa, DXa = X.copy(), X.copy(), X[0].copy(), df.copy(), DX.copy()
    nl.get_normalized_feature_vector(Xa)
    nl.get_derivative_wrt_unnormed_features(Xb, dfa)
    nl.get_derivative_of_normed_features(Xc, DXa)
    unchanged(env, "fwd_X", Xa, X)
    unchanged(env, "bwd_X", Xb, X)
    unchanged(env, "bwd_df", dfa, df)
    unchanged(env, "occd_X", Xc, X[0])
    unchanged(env, "occd_DX", DXa, DX)


def h_alias_plan(env, version, nspin):
    c01_l2.h_l2(env, version, "MGGA", "one", nspin, "gq", alias=True)
    # keep only the aliasing obligations here (the derivative ones belong to C01)
    env.obls = [o for o in env.obls if "unchanged" in o.name]


def h_alias_slplan(env, mode, nspin):
    st, plans = env.m.settings, env.m.plans
    rho = env.arr("rho", (nspin, 5, 1), lo="-8", hi="8")
    for s in range(nspin):
        env.assume(rho[s, 0, 0] >= 0)
        env.assume(rho[s, 4, 0] >= 0)
    vf = env.arr("vf", (nspin, 3, 1))
    plan = plans.SemilocalPlan(st.SemilocalSettings(mode), nspin)
    ra, rb, vfa = rho.copy(), rho.copy(), vf[:, :plan.settings.nfeat].copy()
    plan.get_feat(ra)
    plan.get_vxc(rb, vfa)
    unchanged(env, "get_feat_rho", ra, rho)
    unchanged(env, "get_vxc_rho", rb, rho)
    unchanged(env, "get_vxc_vfeat", vfa, vf[:, :plan.settings.nfeat])


def h_alias_evalxc(env, slmode, nspin, mode, version, layout):
    fs = l1.build_settings(env, slmode, layout)
    rho, nldf, sdmx = l1.inputs(env, fs, nspin, physical=False)
    ni = l1.make_numint(env, fs, nspin, mode, version, xmix=env.const(1), rhocut=env.const(Fraction(1, 10 ** 9)))
    r = rho.copy() if nspin == 2 else rho[0].copy()
    nf = None if nldf is None else (nldf.copy() if nspin == 2 else nldf[0].copy())
    with l1.libxc_patch(env):
        ni.eval_xc_cider("", r, nf, None)
    unchanged(env, "rho", r, rho if nspin == 2 else rho[0])
    if nf is not None:
        unchanged(env, "nldf_feat", nf, nldf if nspin == 2 else nldf[0])


def h_history_plan(env, version):
    """interleaving calls for the two spins, or repeating the forward call, does not change what the potential call returns"""
    plan, s = c01_l2.make_plan(env, version, "MGGA", "one", 2, "gq")
    f, rho = c01_l2.plan_inputs(env, plan, s)
    f2, rho2 = c01_l2.plan_inputs(env, plan, s, tag="b_")
    env.eps_zero()
    v = env.arr("v", (s.nfeat, 1), lo="-8", hi="8")

    def pot(p, dfeat, r, spin):
        vr = env.zeros(r.shape)
        vf = p.eval_vxc_full(v.copy(), vr, dfeat, r.copy(), spin=spin)
        return list(np.asarray(vf, dtype=object if env.sym else float).ravel()) + list(np.asarray(vr, dtype=object if env.sym else float).ravel())
    # references: one fresh object per spin
    pref, _ = c01_l2.make_plan(env, version, "MGGA", "one", 2, "gq")
    feat0, d0 = c01_l2.run_fwd(pref, f, rho, spin=0)
    ref = pot(pref, d0, rho, 0)
    pref1, _ = c01_l2.make_plan(env, version, "MGGA", "one", 2, "gq")
    feat1, d1 = c01_l2.run_fwd(pref1, f2, rho2, spin=1)
    ref1 = pot(pref1, d1, rho2, 1)
    # history A (the order nr_uks_nldf uses): both forwards, then both potentials
    planA, _ = c01_l2.make_plan(env, version, "MGGA", "one", 2, "gq")
    _, dA0 = c01_l2.run_fwd(planA, f, rho, spin=0)
    _, dA1 = c01_l2.run_fwd(planA, f2, rho2, spin=1)
    gotA0 = pot(planA, dA0, rho, 0)
    gotA1 = pot(planA, dA1, rho2, 1)
    for k, (a, b) in enumerate(zip(gotA0, ref)):
        env.equal("spin0_potential_after_both_forwards_%d" % k, a, b)
    for k, (a, b) in enumerate(zip(gotA1, ref1)):
        env.equal("spin1_potential_after_both_forwards_%d" % k, a, b)
    # history B: spin 0 forward, spin 1 forward with other data, spin 0 forward again (repeat), then both potentials
    fa, da = c01_l2.run_fwd(plan, f, rho, spin=0)
    fb, db = c01_l2.run_fwd(plan, f2, rho2, spin=1)
    fa2, da2 = c01_l2.run_fwd(plan, f, rho, spin=0)
    got1 = pot(plan, db, rho2, 1)
    got = pot(plan, da2, rho, 0)
    got_again = pot(plan, da2, rho, 0)
    for k in range(s.nfeat):
        env.equal("repeat_forward_feat%d" % k, fa2[k, 0], fa[k, 0])
        env.equal("fresh_vs_used_feat%d" % k, fa[k, 0], feat0[k, 0])
        env.equal("spin1_fresh_vs_used_feat%d" % k, fb[k, 0], feat1[k, 0])
    for k, (a, b, c) in enumerate(zip(got, ref, got_again)):
        env.equal("potential_after_interleaving_%d" % k, a, b)
        env.equal("repeated_potential_call_%d" % k, c, b)
    for k, (a, b) in enumerate(zip(got1, ref1)):
        env.equal("spin1_potential_after_interleaving_%d" % k, a, b)


def h_chunking_kernel_evaluator(env, n=3):
    """KernelEvaluator evaluates its samples in internal chunks (dn = 2000): the result for every sample is independent of where the
    chunk boundaries fall.  Symbolic run: the chunk size is scaled to 2 (loader.BLOCK_OVERRIDE) and n = 3 or 5 symbolic samples are
    used; concrete replay: the unmodified code with its real chunk size on (n-1)*1000 + 1 samples (each symbolic sample repeated
    1000 times, the last one once), reading back the first copy of each"""
    xe, K = env.m.xc_evaluator, env.m.kernels
    nf, nc = 2, 2
    X = env.arr("X", (n, nf), lo="-4", hi="4")
    Xc = env.arr("Xc", (nc, nf), lo="-4", hi="4")
    al = env.arr("alpha", (nc,), lo="-4", hi="4")
    kern = K.DiffRBF(length_scale=env.arr("l", (nf,), "pos", lo="1/8", hi="8"))
    ev = xe.KernelEvaluator(kern, Xc.copy(), al.copy())
    if env.sym:
        from .. import loader
        loader.BLOCK_OVERRIDE[2000] = 2
        try:
            ok, out = env.attempt("call_returns", lambda: ev(X.copy()))
        finally:
            loader.BLOCK_OVERRIDE.pop(2000, None)
        pick = list(range(n))
    else:
        reps = [1000] * (n - 1) + [1]
        Xbig = np.repeat(X, reps, axis=0)
        ok, out = env.attempt("call_returns", lambda: ev(np.ascontiguousarray(Xbig)))
        pick = [1000 * j for j in range(n)]
    if not ok:
        return
    res, dres = out
    for j in range(n):
        r1, d1 = ev(X[j:j + 1].copy())
        env.equal("sample%d_value_independent_of_chunking" % j, res[pick[j]], r1[0])
        for f in range(nf):
            env.equal("sample%d_gradient%d_independent_of_chunking" % (j, f), dres[pick[j], f], d1[0, f])


def h_history_kernel(env, cls):
    """Subset/SpinSym kernels keep an internal _locked flag: a call that raises must not change later results"""
    K = env.m.kernels
    X = env.arr("X", (2, 4), lo="-4", hi="4")
    ls = env.arr("l", (2,), "pos", lo="1/8", hi="8")
    mk = (lambda: K.SubsetRBF([3, 1], length_scale=ls.copy())) if cls == "SubsetRBF" else (lambda: K.SpinSymRBF(slice(0, 2), slice(2, 4), length_scale=ls.copy()))
    k1, k2 = mk(), mk()
    ref = k2(X.copy())
    try:
        k1(X[:, :1].copy())       # too few columns: raises inside the base kernel
    except Exception:             # noqa
        pass
    ok, got = env.attempt("call_after_failed_call_returns", lambda: k1(X.copy()))
    if not ok:
        return
    env.check("shape_after_failed_call", np.shape(got) == np.shape(ref), "%s vs %s" % (np.shape(got), np.shape(ref)))
    if np.shape(got) == np.shape(ref):
        for i in range(2):
            for j in range(2):
                env.equal("value_after_failed_call_%d%d" % (i, j), got[i, j], ref[i, j])


SDMX_C = "ciderpress/lib/mod_cider/fast_sdmx.c"


def h_history_sdmx(env, deriv):
    """EXXSphGenerator._contract_ao_to_bas / _contract_ao_to_bas_bwd (ciderpress/pyscf/sdmx.py, the real wrappers down to the
    interpreted SDMXcontract_ao_to_bas(_l1)(_bwd)) called repeatedly on ONE generator object - the second grid block, the second
    density matrix, the next SCF cycle - give what a fresh generator gives.  deriv = 0 drives the accumulate-into kernel
    (ao += ...), deriv = 1 the overwriting one."""
    from . import c02
    sd = env.m.sdmx
    mol = c02._sdmx_mol()
    ng = 2
    nrf, nao, ny = int(sd._get_nrf(mol)), int(mol.nao_nr()), int(sd._get_ylm_atom_loc(mol)[-1])
    nb, nyv = (7, 4) if deriv else (1, 1)
    ylm = env.arr("ylm", (nyv, ny, ng), lo="-2", hi="2")
    coords = np.ascontiguousarray(np.array([[0.1, 0.2, 0.3], [0.5, -0.4, 0.9]]))
    bs = [env.arr("b%d" % k, (nb, nrf, ng), lo="-2", hi="2") for k in range(2)]
    cs = [env.arr("c%d" % k, (nao, ng), lo="-2", hi="2") for k in range(2)]

    class _Settings:
        n1terms = 1 if deriv else 0

    class _Plan:
        fit_metric = "ovlp"
        settings = _Settings()

    def fresh():
        return sd.EXXSphGenerator(_Plan())
    shls, ao_loc = (0, mol.nbas), mol.ao_loc_nr().astype(np.int32)
    flat = lambda a: list(np.asarray(a, dtype=object if env.sym else float).ravel())
    cast = (lambda a: a.copy()) if env.sym else (lambda a: np.ascontiguousarray(a, dtype=float).copy())
    used = fresh()
    ok, first = env.attempt("backward_returns", lambda: used._contract_ao_to_bas_bwd(mol, cast(bs[0]), shls, ao_loc, coords, ylm=cast(ylm)))
    if not ok:
        return
    first = flat(first)
    second = flat(used._contract_ao_to_bas_bwd(mol, cast(bs[1]), shls, ao_loc, coords, ylm=cast(ylm)))
    again = flat(used._contract_ao_to_bas_bwd(mol, cast(bs[0]), shls, ao_loc, coords, ylm=cast(ylm)))
    ref1 = flat(fresh()._contract_ao_to_bas_bwd(mol, cast(bs[1]), shls, ao_loc, coords, ylm=cast(ylm)))
    for k, (a, b) in enumerate(zip(second, ref1)):
        env.equal("second_backward_call_equals_fresh_generator_%d" % k, a, b)
    for k, (a, b) in enumerate(zip(again, first)):
        env.equal("repeated_backward_call_%d" % k, a, b)
    f_used = flat(used._contract_ao_to_bas(mol, cast(cs[0]), shls, ao_loc, coords, ylm=cast(ylm)))
    f_used2 = flat(used._contract_ao_to_bas(mol, cast(cs[1]), shls, ao_loc, coords, ylm=cast(ylm)))
    f_ref2 = flat(fresh()._contract_ao_to_bas(mol, cast(cs[1]), shls, ao_loc, coords, ylm=cast(ylm)))
    for k, (a, b) in enumerate(zip(f_used2, f_ref2)):
        env.equal("second_forward_call_equals_fresh_generator_%d" % k, a, b)


def tasks(tier):
    td = sym_mods().td
    out = []
    for level in ("MGGA", "GGA"):
        for nspin in (1, 2):
            out.append(Task("alias/exponent/%s/nspin%d" % (level, nspin), h_alias_exponent, dict(level=level, nspin=nspin), max_paths=64))
    out.append(Task("alias/sl_functions", h_alias_sl, {}, max_paths=256))
    for C in td.ALL_CLASSES:
        out.append(Task("alias/map/%s" % C.__name__, h_alias_map, dict(cls=C.__name__), max_paths=600))
    for slmode in ("npa", "nst", "np", "ns"):
        out.append(Task("alias/normlist/%s" % slmode, h_alias_normlist, dict(slmode=slmode)))
        out.append(Task("alias/slplan/%s" % slmode, h_alias_slplan, dict(mode=slmode, nspin=2), mods="numint", max_paths=4096))
    for v in ("j", "i", "ij"):
        out.append(Task("alias/plan/%s" % v, h_alias_plan, dict(version=v, nspin=2), mods="numint", max_paths=256))
        out.append(Task("history/plan/%s" % v, h_history_plan, dict(version=v), mods="numint", max_paths=256))
    for cfg in [("npa", 1, "SEP", 1, "sl+nldf"), ("npa", 2, "NPOL", 1, "sl"), ("nst", 2, "SEP", 2, "sl+nldf")]:
        out.append(Task("alias/eval_xc_cider/%s/nspin%d/%s/v%d/%s" % cfg, h_alias_evalxc, dict(slmode=cfg[0], nspin=cfg[1], mode=cfg[2], version=cfg[3], layout=cfg[4]),
                        mods="numint", max_paths=4096))
    for deriv in (0, 1):
        out.append(Task("history/sdmx_generator/deriv%d" % deriv, h_history_sdmx, dict(deriv=deriv), mods="numint"))
    for cls in ("SubsetRBF", "SpinSymRBF"):
        out.append(Task("history/kernel/%s" % cls, h_history_kernel, dict(cls=cls), mods="kernels"))
    for n in (3, 5):
        out.append(Task("chunking/KernelEvaluator/n%d" % n, h_chunking_kernel_evaluator, dict(n=n), mods="kernels"))
    out.append(Task("history/table/deriv_ylm_coeff", c_table_history, dict(order=(3, 1, 2, 1, 4, 0), task="history/table/deriv_ylm_coeff"), engine="custom"))
    out += c01_l5.c09_tasks(tier)
    from .. import xh
    out += xh.tasks_for("c09", tier)
    return out


def prepare(tier):
    m = sym_mods()
    m.td, m.fn, m.settings, m.plans, m.baselines, m.xc_evaluator, m.xc_evaluator2, m.numint, m.kernels, m.sdmx
    from ..llsym import bridge
    from ..llsym.ccall import STATS
    bridge.install(common.ctx(), "libmcider", SDMX_C, ["SDMXcontract_ao_to_bas", "SDMXcontract_ao_to_bas_bwd", "SDMXcontract_ao_to_bas_l1", "SDMXcontract_ao_to_bas_l1_bwd"], hybrid=True, stats=STATS)


META = dict(
    explanation="symbolic execution with caller-owned symbolic arrays compared term-by-term before/after each call on every feasible path; "
                "the real nr_* orchestration batched vs separate and one vs two grid blocks; call histories on one plan/kernel object vs fresh objects",
    functions=['ciderpress/pyscf/numint.py: nr_rks / nr_uks / nr_rks_nldf / nr_uks_nldf with an SDMX generator present (batch/*/with_sdmx, blocking/*/with_sdmx; generator = contract stub with the real cache and 2-d / 3-d conventions)', 'ciderpress/pyscf/sdmx.py: EXXSphGenerator._contract_ao_to_bas, _contract_ao_to_bas_bwd, _contract_ao_to_bas_helper, _contract_ao_to_bas_single_ + fast_sdmx.c SDMXcontract_ao_to_bas(_l1)(_bwd) interpreted (history/sdmx_generator/*)', "ciderpress/dft/settings.py: get_cider_exponent(_gga), get_s2, ds2, get_alpha, dalpha", "ciderpress/dft/transform_data.py: all fill_feat_/fill_deriv_",
               "ciderpress/dft/feat_normalizer.py: FeatNormalizerList.*", "ciderpress/dft/plans.py: SemilocalPlan.get_feat/get_vxc, NLDFAuxiliaryPlan.eval_rho_full/eval_vxc_full",
               "ciderpress/pyscf/numint.py: eval_xc_cider, nr_rks, nr_uks, nr_rks_nldf, nr_uks_nldf, CiderNumInt.contract_wv, _tau_dot_sparse",
               "ciderpress/models/kernels.py: _SubsetMixin/_SpinSymMixin lock flag"],
    bounds=dict(batch="nset = 2", grid_points=2, blocks="1 x 2 vs 2 x 1", nao=2, histories="forward(s0) forward(s1) forward(s0) potential(s1) potential(s0) potential(s0) on one plan; failed call then call on one kernel"),
    stubs=["PySCF _scale_ao_sparse/_dot_ao_ao_sparse/hermi_sum/_format_uks_dm/block_loop/_gen_rho_evaluator: numpy reference implementations of their documented formulas",
           "eval_xc_cider (in the nr_* harness): uninterpreted exc with declared potentials (C01-L1 contract)",
           "NLDF generator: contract stub with one cache per spin filled by get_features and read by get_potential (the real object's statefulness)"],
    assumptions=["real max_memory -> blksize arithmetic with BLKSIZE-aligned grids is outside", "SDMX generator AO cache (_cached_ao_data) not covered"],
)
