"""Contract stubs for assume-guarantee composites (DESIGN.md 2.9).

A leaf function is an *uninterpreted differentiable function* in 'sym' mode (a `uf` node of the DAG
whose partial derivative w.r.t. argument i is the node `name.d<i>`), and a fixed smooth concrete
function (quadratic with name-seeded coefficients, closed-form gradient) in 'real' mode, so that the
same composite harness can be replayed numerically on the unmodified code."""
import hashlib

import numpy as np

from . import dag
from .sym import S, lift


class LeafFn(object):
    def __init__(self, env, name, nargs, positive=False):
        self.env, self.name, self.nargs, self.positive = env, name, nargs, positive
        if not env.sym:
            seed = int(hashlib.sha256(name.encode()).hexdigest()[:8], 16)
            rng = np.random.default_rng(seed)
            self.c0 = float(rng.uniform(0.5, 1.5))
            self.a = rng.uniform(-0.5, 0.5, size=nargs)
            self.b = rng.uniform(-0.2, 0.2, size=(nargs, nargs))
            self.b = 0.5 * (self.b + self.b.T)

    def val(self, args):
        if self.env.sym:
            return S(dag.uf(self.name, tuple(lift(a) for a in args)))
        x = np.array([float(a) for a in args])
        return self.c0 + self.a.dot(x) + x.dot(self.b).dot(x)

    def grad(self, args, i):
        if self.env.sym:
            return S(dag.uf(self.name + ".d%d" % i, tuple(lift(a) for a in args)))
        x = np.array([float(a) for a in args])
        return self.a[i] + 2 * self.b[i].dot(x)


def make_abs_map(env, name, idx):
    """contract stub for a verified feature map reading raw features `idx` (C12 leaf contract:
    fill_deriv_ adds dfdy * dy/dx_i to row i only)"""
    td = env.m.td
    f = LeafFn(env, name, len(idx))

    class AbsMap(td.FeatureNormalizer):
        bounds = (0, 1)
        num_arg = len(idx)

        def fill_feat_(self, y, x):
            for g in range(x.shape[1]):
                y[g] = f.val([x[i, g] for i in idx])

        def fill_deriv_(self, dfdx, dfdy, x):
            for g in range(x.shape[1]):
                args = [x[i, g] for i in idx]
                for k, i in enumerate(idx):
                    dfdx[i, g] = dfdx[i, g] + dfdy[g] * f.grad(args, k)

    return AbsMap()


def make_abs_eval(env, name, nfeat, pol=False):
    """contract stub for a verified evaluator: adds F(X1_row) to res and dF/dX1 to dres.
    pol=True: the POL-mode evaluator takes X1 of shape (2, n, nfeat) and is symmetric under exchange of
    the spin blocks: F(a, b) = G(a, b) + G(b, a)."""
    xe = env.m.xc_evaluator
    nargs = 2 * nfeat if pol else nfeat
    f = LeafFn(env, name, nargs)

    class AbsEval(xe.FuncEvaluator):
        def __call__(self, X1, res=None, dres=None):
            if pol:
                assert X1.ndim == 3 and X1.shape[0] == 2
                n = X1.shape[1]
                for g in range(n):
                    a, b = list(X1[0, g]), list(X1[1, g])
                    res[g] = res[g] + f.val(a + b) + f.val(b + a)
                    for i in range(nfeat):
                        dres[0, g, i] = dres[0, g, i] + f.grad(a + b, i) + f.grad(b + a, nfeat + i)
                        dres[1, g, i] = dres[1, g, i] + f.grad(a + b, nfeat + i) + f.grad(b + a, i)
                return res, dres
            X = X1.reshape(-1, X1.shape[-1])
            r = res.reshape(-1)
            d = dres.reshape(-1, X1.shape[-1])
            for g in range(X.shape[0]):
                args = list(X[g])
                r[g] = r[g] + f.val(args)
                for i in range(X.shape[1]):
                    d[g, i] = d[g, i] + f.grad(args, i)
            return res, dres

    return AbsEval()


def make_abs_baseline(env, name, nfeat_used=None):
    """contract stub for a verified native baseline: returns (e, de/dX0T) for X0T (nspin, nfeat, n);
    spin contract of _sl_x_helper: e = mean_s b(X0T[s]) (same function per channel)"""
    cache = {}

    def base(X0T):
        nspin, nfeat, ns = X0T.shape
        k = nfeat if nfeat_used is None else min(nfeat, nfeat_used)
        f = cache.setdefault(k, LeafFn(env, name, k))
        e = env.zeros((ns,))
        de = env.zeros(X0T.shape)
        for g in range(ns):
            for s in range(nspin):
                args = [X0T[s, i, g] for i in range(k)]
                e[g] = e[g] + f.val(args) / nspin
                for i in range(k):
                    de[s, i, g] = de[s, i, g] + f.grad(args, i) / nspin
        return e, de

    return base


def make_abs_libxc(env):
    """contract stub for libxc through baselines.get_libxc_{lda,gga,mgga}_baseline (libxc manual):
    returns exc per particle and v = d(n exc)/d(rho_s, sigma_ss', tau_s);  E = n*exc is the leaf."""
    fns = {}

    def _call(kind, xcid, arrs):
        # leaf = exc per particle (total, finite for every rho >= 0 as libxc guarantees below its
        # density threshold); v_k = d(n exc)/d arg_k = exc dn/darg_k + n dexc/darg_k
        nspin, size = arrs[0].shape
        nargs = sum(a.shape[0] for a in arrs)
        f = fns.setdefault((kind, str(xcid), nspin), LeafFn(env, "LIBXC_%s_%s_ns%d" % (kind, xcid, nspin), nargs))
        exc = env.zeros((size,))
        vs = [env.zeros(a.shape) for a in arrs]
        for g in range(size):
            args = [a[r, g] for a in arrs for r in range(a.shape[0])]
            n = sum((arrs[0][s, g] for s in range(nspin)), 0)
            exc[g] = f.val(args)
            k = 0
            for v, a in zip(vs, arrs):
                for r in range(a.shape[0]):
                    v[r, g] = n * f.grad(args, k) + (exc[g] if (v is vs[0]) else 0)
                    k += 1
        return tuple([exc] + vs)

    def lda(xcid, rho):
        return _call("lda", xcid, [rho])

    def gga(xcid, rho, sigma):
        return _call("gga", xcid, [rho, sigma])

    def mgga(xcid, rho, sigma, tau):
        return _call("mgga", xcid, [rho, sigma, tau])

    return lda, gga, mgga


def make_abs_normlist(env, nfeat, slmode="npa", identity=(0, 1, 2)):
    """contract stub for a verified FeatNormalizerList (C12 composite contract):
    xn[s,i,g] = N_i(x[s,i,g], x[s,0,g], x[s,1,g], x[s,2,g]);  get_derivative_wrt_unnormed_features = J^T.
    Features in `identity` pass through unchanged (a None normaliser: the density read by the rhocut test)."""
    fn = env.m.fn
    fs = {i: LeafFn(env, "N%d" % i, len(sorted({i, 0, 1, 2}))) for i in range(nfeat) if i not in identity}

    class AbsNormList(fn.FeatNormalizerList):
        def __init__(self):
            self._normalizers = [None] * nfeat
            self.slmode = slmode
            self.cutoff = 0

        def get_normalized_feature_vector(self, X0T):
            out = env.zeros(X0T.shape)
            for s in range(X0T.shape[0]):
                for i in range(nfeat):
                    for g in range(X0T.shape[2]):
                        if i in identity:
                            out[s, i, g] = X0T[s, i, g]
                        else:
                            out[s, i, g] = fs[i].val([X0T[s, j, g] for j in sorted({i, 0, 1, 2})])
            return out

        def get_derivative_wrt_unnormed_features(self, X0T, df):
            out = env.zeros(X0T.shape)
            for s in range(X0T.shape[0]):
                for i in range(nfeat):
                    for g in range(X0T.shape[2]):
                        if i in identity:
                            out[s, i, g] = out[s, i, g] + df[s, i, g]
                            continue
                        js = sorted({i, 0, 1, 2})
                        args = [X0T[s, j, g] for j in js]
                        for k, j in enumerate(js):
                            out[s, j, g] = out[s, j, g] + df[s, i, g] * fs[i].grad(args, k)
            return out

    return AbsNormList()
