"""Lowering of the DAG to z3 Real terms, atom axioms, domain obligations, query helpers."""
import time
from fractions import Fraction

import z3

from . import dag
from .dag import E


class Lower(object):
    """DAG -> z3.  Atom names are derived from the hash-cons key, so one Lower (or several) give the
    same z3 constant for the same DAG node."""

    def __init__(self, relax=False):
        self.relax = relax  # ground roots (constants / PI only) get rational interval bounds instead of r^q == a
        self.memo = {}
        self.side = []      # defining constraints of atoms (always asserted)
        self.dom = []       # (kind, z3 formula that must hold for the real op to be defined, node)
        self.atoms = []     # (kind/name, z3 arg(s), z3 result, node)
        self.nodes = {}
        self.side_of = {}   # node key -> constraints contributed while lowering that node

    def __call__(self, e):
        k = id(e)
        r = self.memo.get(k)
        if r is not None:
            return r
        # iterative post-order to avoid recursion limits on deep DAGs
        stack = [(e, False)]
        memo = self.memo
        while stack:
            n, done = stack.pop()
            if id(n) in memo:
                continue
            if not done:
                stack.append((n, True))
                for a in n.args:
                    if isinstance(a, E):
                        if id(a) not in memo:
                            stack.append((a, False))
                    elif isinstance(a, tuple):
                        for b in a:
                            if isinstance(b, E) and id(b) not in memo:
                                stack.append((b, False))
                continue
            n0 = len(self.side)
            memo[id(n)] = self._one(n)
            if len(self.side) > n0:
                self.side_of[n.key] = self.side[n0:]
            self.nodes[id(n)] = n
        return memo[k]

    def lower_all(self, nodes):
        for n in nodes:
            self(n)

    def _one(self, e):
        op = e.op
        m = self.memo
        if op == "const":
            f = e.args[0]
            return z3.RealVal(str(f))
        if op == "var":
            v = z3.Real(e.args[0])
            if e.args[0] in dag._POSITIVE:
                self.side.append(v > 0)
            elif e.args[0] in dag._NONNEG:
                self.side.append(v >= 0)
            if e.args[0] == "PI":
                self.side += [v > z3.RealVal("3.14159265358979"), v < z3.RealVal("3.14159265358980")]
            return v
        if op == "add":
            return m[id(e.args[0])] + m[id(e.args[1])]
        if op == "mul":
            return m[id(e.args[0])] * m[id(e.args[1])]
        if op == "inv":
            a = m[id(e.args[0])]
            r = z3.Real("inv!%d" % e.key)
            self.side.append(r * a == 1)
            self.dom.append(("div0", a != 0, e))
            return r
        if op == "root":
            a = m[id(e.args[0])]
            q = e.args[1]
            r = z3.Real("root%d!%d" % (q, e.key))
            gv = _ground_value(e)
            if gv is not None and gv > 0:
                # numeric enclosure (always sound); in relax mode it replaces the defining equation
                self.side += [r >= _rv(gv * (1 - 1e-12)), r <= _rv(gv * (1 + 1e-12))]
            if not (self.relax and gv is not None and gv > 0):
                p = r
                for _ in range(q - 1):
                    p = p * r
                self.side += [r >= 0, p == a]
            self.dom.append(("root<0", a >= 0, e))
            self.atoms.append(("root%d" % q, a, r, e))
            return r
        if op == "fn":
            name = e.args[0]
            a = m[id(e.args[1])]
            r = z3.Real("%s!%d" % (name, e.key))
            gv = _ground_value(e)
            if gv is not None:
                d = abs(gv) * 1e-12 + 1e-300
                self.side += [r >= _rv(gv - d), r <= _rv(gv + d)]
            if name == "exp":
                self.side += [r > 0, z3.Implies(a <= 0, r <= 1), z3.Implies(a >= 0, r >= 1),
                              z3.Implies(a == 0, r == 1), z3.Implies(a > 0, r > 1), z3.Implies(a < 0, r < 1), r >= 1 + a]
            elif name == "log":
                self.dom.append(("log<=0", a > 0, e))
                self.side += [z3.Implies(a >= 1, r >= 0), z3.Implies(a <= 1, r <= 0),
                              z3.Implies(a == 1, r == 0), z3.Implies(a > 1, r > 0), z3.Implies(a < 1, r < 0), r <= a - 1]
            elif name in ("tanh", "erf"):
                self.side += [r > -1, r < 1, z3.Implies(a >= 0, r >= 0), z3.Implies(a <= 0, r <= 0)]
            elif name in ("sin", "cos"):
                self.side += [r >= -1, r <= 1]
            elif name == "cosh":
                self.side += [r >= 1]
            self.atoms.append((name, a, r, e))
            return r
        if op == "uf":
            name, args = e.args
            zargs = tuple(m[id(a)] for a in args)
            r = z3.Real("uf!%s!%d" % (name, e.key))
            self.atoms.append(("uf:" + name, zargs, r, e))
            return r
        if op == "ite":
            c = z3.Bool(e.args[0])
            return z3.If(c, m[id(e.args[1])], m[id(e.args[2])])
        raise NotImplementedError(op)

    # -------------------------------------------------------------------------------- axioms
    def congruence(self, max_pairs=4000):
        """arg1 == arg2 => atom1 == atom2, between atoms of the same kind; for exp/log/tanh/erf/atan/sinh
        also monotonicity.  Instantiated pairwise (quantifier-free)."""
        out = []
        by = {}
        for a in self.atoms:
            by.setdefault(a[0], []).append(a)
        n = 0
        for kind, lst in by.items():
            mono = kind in ("exp", "log", "tanh", "erf", "atan", "sinh", "expm1", "log1p") or kind.startswith("root")
            for i in range(len(lst)):
                for j in range(i + 1, len(lst)):
                    a1, a2 = lst[i], lst[j]
                    if n >= max_pairs:
                        return out
                    n += 1
                    if kind.startswith("uf:"):
                        if len(a1[1]) != len(a2[1]):
                            continue
                        eq = z3.And(*[x == y for x, y in zip(a1[1], a2[1])]) if a1[1] else z3.BoolVal(True)
                        out.append(z3.Implies(eq, a1[2] == a2[2]))
                    else:
                        out.append(z3.Implies(a1[1] == a2[1], a1[2] == a2[2]))
                        if mono:
                            out.append(z3.Implies(a1[1] < a2[1], a1[2] < a2[2]))
                            out.append(z3.Implies(a1[1] > a2[1], a1[2] > a2[2]))
        return out

    def exp_sum_axioms(self, max_triples=200):
        """exp(a)exp(b) = exp(c) whenever c - a - b simplifies to 0 syntactically."""
        ex = [a for a in self.atoms if a[0] == "exp"]
        out = []
        n = 0
        for i in range(len(ex)):
            for j in range(i, len(ex)):
                for k in range(len(ex)):
                    if k == i or k == j:
                        continue
                    if n > max_triples:
                        return out
                    d = z3.simplify(ex[k][1] - ex[i][1] - ex[j][1])
                    if z3.is_rational_value(d) and d.numerator_as_long() == 0:
                        out.append(ex[i][2] * ex[j][2] == ex[k][2])
                        n += 1
        return out


def _ground_value(e):
    """float value of a ground term (constants and PI only), else None"""
    try:
        if not (dag.variables(e) <= {"PI"}):
            return None
        v = dag.numeric(e)
    except (TypeError, ValueError, ZeroDivisionError, OverflowError):
        return None
    if v != v or v in (float("inf"), float("-inf")):
        return None
    return v


def _rv(x):
    return z3.RealVal(str(Fraction(x)))


def frac_of(zv):
    """z3 numeral -> Fraction (algebraic numbers are approximated to 30 digits)."""
    if z3.is_rational_value(zv):
        return Fraction(zv.numerator_as_long(), zv.denominator_as_long())
    if z3.is_algebraic_value(zv):
        a = zv.approx(30)
        return Fraction(a.numerator_as_long(), a.denominator_as_long())
    if z3.is_int_value(zv):
        return Fraction(zv.as_long())
    raise TypeError("not a numeral: %s" % zv)


def model_values(model, names):
    out = {}
    for nm in names:
        v = model.eval(z3.Real(nm), model_completion=True)
        try:
            out[nm] = frac_of(v)
        except TypeError:
            out[nm] = Fraction(0)
    return out


def solve(constraints, timeout_ms=20000, want_model=False, tactic=None):
    """returns (verdict str, seconds, model or None).  verdict in {'sat','unsat','unknown'}"""
    if tactic:
        s = z3.Tactic(tactic).solver()
    else:
        s = z3.Solver()
    s.set("timeout", int(timeout_ms))
    for c in constraints:
        s.add(c)
    t0 = time.time()
    r = s.check()
    dt = time.time() - t0
    v = str(r)
    m = s.model() if (v == "sat" and want_model) else None
    if v == "unsat" and CROSS["every"]:
        _crosscheck(s)
    return v, dt, m, s


# ---------------------------------------------------------------------------------------------- second solver (thorough tier)
CROSS = dict(every=0, n=0, sampled=0, unsat=0, unknown=0, sat=0, errors=0, disagreements=[])


def _crosscheck(s):
    """every k-th query that z3 answered `unsat` is re-asked to the cvc5 binary through SMT-LIB (sampled: cvc5's non-linear
    reasoning is slower).  `sat` from cvc5 is a disagreement and is reported; `unknown`/timeouts say nothing."""
    import os
    import subprocess
    import tempfile
    CROSS["n"] += 1
    if CROSS["n"] % CROSS["every"]:
        return
    CROSS["sampled"] += 1
    fd, path = tempfile.mkstemp(suffix=".smt2", prefix="verif_cc_")
    try:
        with os.fdopen(fd, "w") as f:
            f.write("(set-logic ALL)\n" + s.to_smt2())
        p = subprocess.run(["cvc5", "--tlimit=8000", path], stdout=subprocess.PIPE, stderr=subprocess.STDOUT, text=True, timeout=30)
        out = p.stdout.strip().splitlines()
        ans = out[0].strip() if out else "error"
        if "(error" in p.stdout:
            ans = "error"
    except Exception:  # noqa
        ans = "error"
    finally:
        os.unlink(path)
    if ans == "unsat":
        CROSS["unsat"] += 1
    elif ans == "sat":
        CROSS["sat"] += 1
        CROSS["disagreements"].append(s.to_smt2()[:2000])
    elif ans == "error":
        CROSS["errors"] += 1
    else:
        CROSS["unknown"] += 1


def abstract_nonlinear(constraints):
    """sound weakening: every non-linear arithmetic subterm (product of two non-numerals, division by a non-numeral, power) is
    replaced by a fresh real constant (same term -> same constant), so the query becomes linear real arithmetic over those
    atoms.  unsat of the abstraction implies unsat of the original; sat/unknown of the abstraction says nothing."""
    memo, fresh = {}, {}

    def is_num(t):
        return z3.is_rational_value(t) or z3.is_int_value(t) or z3.is_algebraic_value(t)

    def atom(t):
        k = t.get_id()
        if k not in fresh:
            fresh[k] = z3.Real("__nl%d" % len(fresh))
        return fresh[k]

    def go(t):
        k = t.get_id()
        if k in memo:
            return memo[k]
        if z3.is_app(t) and t.num_args() > 0:
            kind = t.decl().kind()
            if kind == z3.Z3_OP_MUL:
                non = [a for a in t.children() if not is_num(a)]
                if len(non) >= 2:
                    r = atom(t)
                    memo[k] = r
                    return r
            elif kind in (z3.Z3_OP_DIV, z3.Z3_OP_IDIV, z3.Z3_OP_MOD, z3.Z3_OP_REM):
                if not is_num(t.arg(1)):
                    r = atom(t)
                    memo[k] = r
                    return r
            elif kind == z3.Z3_OP_POWER:
                r = atom(t)
                memo[k] = r
                return r
            ch = [go(a) for a in t.children()]
            r = t.decl()(*ch) if kind != z3.Z3_OP_UNINTERPRETED or ch else t
        else:
            r = t
        memo[k] = r
        return r

    return [go(c) for c in constraints]


def solve_linear_first(constraints, timeout_ms=20000, want_model=False):
    """try the linear abstraction (fast, sound for unsat) before the full non-linear query"""
    t0 = time.time()
    try:
        v0 = solve(abstract_nonlinear(constraints), min(timeout_ms, 5000))[0]
    except z3.Z3Exception:
        v0 = "unknown"
    if v0 == "unsat":
        return "unsat", time.time() - t0, None, None, "L"
    v, dt, m, s = solve(constraints, timeout_ms, want_model)
    return v, time.time() - t0, m, s, "A"
