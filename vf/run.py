"""Property runner: fan tasks out over the cores, replay every `sat`, apply known findings, write
evidence, print VIOLATION / KNOWN-FINDING lines, choose the exit code (DESIGN.md 3, 7)."""
import hashlib
import json
import os
import re
import sys
import time
import traceback

VERIF = os.path.dirname(os.path.dirname(os.path.abspath(__file__)))
EVID = os.path.join(VERIF, "evidence")
REPLAYS = os.path.join(EVID, "replays")
KNOWN = os.path.join(VERIF, "known_findings.json")

EXIT_OK, EXIT_VIOLATION, EXIT_ENCODING = 0, 1, 3


class Task(object):
    """one unit of work: a harness + configuration, run symbolically on all paths.

    engine: 'sym' (vf.harness.run_symbolic) or 'custom' (fn(cfg) -> dict(records=[...], ...))"""

    def __init__(self, name, fn, cfg=None, mods="dft", max_paths=64, timeout_ms=None, engine="sym",
                 real_mods=None, group=None):
        self.name, self.fn, self.cfg = name, fn, cfg or {}
        self.mods, self.max_paths, self.timeout_ms = mods, max_paths, timeout_ms
        self.engine = engine
        self.real_mods = real_mods or mods
        self.group = group or name.split("/")[0]


_PROP = None      # property module (set before forking)
_TASKS = None
_TIMEOUT = 20000


_COV = None


def _cov_start():
    """VERIF_COVERAGE=<dir>: record which functions of the repository's Python (symbolic copies and real modules alike - both are
    compiled with the original file name) each task executes; a development aid (tools/coverage_report.py), never used by a check"""
    global _COV
    d = os.environ.get("VERIF_COVERAGE")
    if not d:
        return
    root = os.environ.get("VERIF_REPO", "/repo") + os.sep
    _COV = set()

    def prof(frame, event, arg):
        if event == "call":
            c = frame.f_code
            if c.co_filename.startswith(root):
                _COV.add((c.co_filename[len(root):], getattr(c, "co_qualname", c.co_name), c.co_firstlineno))
    sys.setprofile(prof)


def _cov_stop(task):
    d = os.environ.get("VERIF_COVERAGE")
    if not d or _COV is None:
        return
    sys.setprofile(None)
    os.makedirs(d, exist_ok=True)
    with open(os.path.join(d, "%s_%d.json" % (re.sub(r"[^A-Za-z0-9_.-]", "_", task)[:120], os.getpid())), "w") as f:
        json.dump(dict(task=task, functions=sorted(_COV)), f)


def _worker(i):
    t = _TASKS[i]
    t0 = time.time()
    _cov_start()
    try:
        if t.engine == "custom":
            out = t.fn(dict(t.cfg))
        else:
            from . import harness
            mods = _PROP.sym_mods(t.mods)
            out = harness.run_symbolic(t.fn, mods, t.cfg, timeout_ms=t.timeout_ms or _TIMEOUT,
                                       max_paths=t.max_paths, label=t.name)
        out["task"] = t.name
        out["error"] = None
        from . import lower
        out["crosscheck"] = {k: (len(v) if isinstance(v, list) else v) for k, v in lower.CROSS.items() if k != "n"}
        for k in ("sampled", "unsat", "unknown", "sat", "errors"):
            lower.CROSS[k] = 0
        del lower.CROSS["disagreements"][:]
    except BaseException as e:   # noqa  (a crashed harness is an encoding error, never a pass)
        out = dict(task=t.name, records=[], paths=0, solver_time=0.0,
                   error="%s: %s\n%s" % (type(e).__name__, e, traceback.format_exc()[-1500:]))
    out["wall"] = time.time() - t0
    _cov_stop("%s/%s" % (_PROP.PROP_ID, t.name))
    return i, out


def _pmap(fn, n, jobs, dead, watchdog):
    """run fn(i) -> (i, result) for i < n in forked children, at most `jobs` alive, one child per item.  A child that dies
    without delivering (a segfault inside the freshly built library, an OOM kill) or outlives the watchdog yields
    dead(i, reason) instead of hanging the run (multiprocessing.Pool silently loses the item of a killed worker)."""
    import pickle
    import select
    import signal
    pending, live = list(range(n)), {}
    while pending or live:
        while pending and len(live) < jobs:
            i = pending.pop(0)
            r, w = os.pipe()
            sys.stdout.flush()
            sys.stderr.flush()
            pid = os.fork()
            if pid == 0:
                try:
                    os.close(r)
                    for fd in live:
                        os.close(fd)
                    try:
                        data = pickle.dumps(fn(i))
                    except BaseException as e:  # noqa
                        data = pickle.dumps(dead(i, "child raised %s: %s" % (type(e).__name__, e)))
                    with os.fdopen(w, "wb") as f:
                        f.write(data)
                    sys.stdout.flush()
                    sys.stderr.flush()
                finally:
                    os._exit(0)
            os.close(w)
            live[r] = [pid, i, bytearray(), time.time()]
        ready, _, _ = select.select(list(live), [], [], 1.0)
        now = time.time()
        for fd in list(live):
            pid, i, buf, t0 = live[fd]
            if fd in ready:
                chunk = os.read(fd, 1 << 20)
                if chunk:
                    buf += chunk
                    continue
                del live[fd]
                os.close(fd)
                _, status = os.waitpid(pid, 0)
                res = None
                if buf:
                    try:
                        res = pickle.loads(bytes(buf))
                    except Exception:
                        res = None
                if res is None:
                    why = ("killed by signal %d" % os.WTERMSIG(status)) if os.WIFSIGNALED(status) else "exit status %d" % os.WEXITSTATUS(status)
                    res = dead(i, "worker process died without a result (%s)" % why)
                yield res
            elif now - t0 > watchdog:
                del live[fd]
                os.close(fd)
                try:
                    os.kill(pid, signal.SIGKILL)
                    os.waitpid(pid, 0)
                except OSError:
                    pass
                yield dead(i, "worker process exceeded the %d s watchdog and was killed" % watchdog)


def _dead_task(i, why):
    return i, dict(task=_TASKS[i].name, records=[], paths=0, solver_time=0.0, error=why, wall=0.0)


def _dead_replay(i, why):
    tname, rs = _SATS_BY_TASK[i]
    return i, [(dict(confirmed=False, detail="replay child: " + why), None) for _ in rs]


_SATS_BY_TASK = None
_KNOWN = None
_TIER = "quick"
REPLAY_CAP = 3


def _replay_group(i):
    tname, rs = _SATS_BY_TASK[i]
    t = [x for x in _TASKS if x.name == tname][0]
    out, nconf = [], 0
    for r in rs:
        if nconf >= REPLAY_CAP:
            out.append((dict(confirmed=None, detail="not replayed: %d counterexamples of this task already reproduced" % nconf), None))
            continue
        try:
            rp = _PROP.replay(t, r)
        except BaseException as e:  # noqa
            rp = dict(confirmed=False, detail="replay crashed: %s: %s" % (type(e).__name__, e))
        if not rp.get("confirmed") and re.search(r"OutOfBounds|uninitialised", str(r.get("detail") or "")):
            # the symbolic run hit an out-of-bounds / uninitialised access in the interpreted C: confirm under valgrind memcheck
            try:
                from . import vgreplay
                rp2 = vgreplay.confirm(_PROP.PROP_ID, _TIER, t.name, r.get("model_float") or {})
                rp2["plain_replay"] = rp.get("detail")
                rp = rp2
            except BaseException as e:  # noqa
                rp["detail"] = "%s | valgrind replay crashed: %s: %s" % (rp.get("detail"), type(e).__name__, e)
        kid = None
        if rp.get("confirmed"):
            k = _match_known(_KNOWN, _PROP.PROP_ID, r, t.cfg)
            if k is not None:
                kid = k["id"]
            else:
                nconf += 1
        out.append((rp, kid))
    return i, out


def load_known():
    if not os.path.exists(KNOWN):
        return dict(findings=[], fixed=[])
    with open(KNOWN) as f:
        return json.load(f)


def _match_known(known, prop, rec, cfg=None):
    """a reproduced counterexample is a *known* finding only if its obligation name matches the entry's
    regex AND its concrete input satisfies the entry's `where` predicate (so a different violation of
    the same property - other obligation, or other input region - is still reported)"""
    for k in known.get("findings", []):
        if k["property"] != prop:
            continue
        if not re.search(k["obligation"], rec["name"]):
            continue
        w = k.get("where")
        if w:
            mf = dict(rec.get("model_float") or {})
            env = dict(mf)
            env["cfg"] = cfg or {}
            env["V"] = lambda name, *idx: mf[name + "".join("_%d" % i for i in idx)]
            env["__builtins__"] = {"abs": abs, "min": min, "max": max, "range": range, "len": len, "any": any, "all": all}
            try:
                if not eval(w, env):
                    continue
            except Exception:
                continue
        return k
    return None


def run_property(prop, tier, seed=0, only=None, jobs=None):
    """prop: module with PROP_ID, tasks(tier), sym_mods(key), real_mods(key), META (dict)"""
    global _PROP, _TASKS, _TIMEOUT
    t_start = time.time()
    pid = prop.PROP_ID
    os.makedirs(REPLAYS, exist_ok=True)
    _TIMEOUT = 20000 if tier == "quick" else 120000
    from . import lower
    lower.CROSS["every"] = 0 if tier == "quick" else int(os.environ.get("VERIF_CROSSCHECK_EVERY", "20"))
    tasks = prop.tasks(tier)
    if only:
        tasks = [t for t in tasks if re.search(only, t.name)]
    _PROP, _TASKS = prop, tasks
    if hasattr(prop, "prepare"):
        prop.prepare(tier)       # loads symbolic modules before forking so workers inherit them
    jobs = jobs or int(os.environ.get("VERIF_JOBS", "0")) or min(16, os.cpu_count() or 1)
    results = [None] * len(tasks)
    watchdog = int(os.environ.get("VERIF_TASK_WATCHDOG", "1800" if tier == "quick" else "7200"))
    if not os.environ.get("VERIF_INPROC"):
        for i, out in _pmap(_worker, len(tasks), max(1, min(jobs, len(tasks))), _dead_task, watchdog):
            results[i] = out
    else:
        for i in range(len(tasks)):
            results[i] = _worker(i)[1]

    known = load_known()
    recs, errors = [], []
    for t, out in zip(tasks, results):
        if out["error"]:
            errors.append((t.name, out["error"]))
        for r in out["records"]:
            r["task"] = t.name
            recs.append(r)

    # ---- classify
    obligations = [r for r in recs if r["kind"] != "reach"]
    reach = [r for r in recs if r["kind"] == "reach"]
    discharged = [r for r in obligations if r["verdict"] == "unsat"]
    inconclusive = [r for r in obligations if r["verdict"] not in ("unsat", "sat")]
    sats = [r for r in obligations if r["verdict"] == "sat"]
    vacuous = [r for r in reach if r["verdict"] == "unsat"]
    reach_unknown = [r for r in reach if r["verdict"] not in ("sat", "unsat")]

    violations, known_hits, spurious, unreplayed = [], [], [], []
    tmap = {t.name: t for t in tasks}
    # replays: the first one runs in this process (builds the real libraries once), the rest in a fork pool grouped by
    # task; within a task replaying stops after REPLAY_CAP reproduced *unlisted* counterexamples (exit status is 1 anyway)
    global _SATS_BY_TASK, _KNOWN, _TIER
    _TIER = tier
    _KNOWN = known
    by_task = {}
    for r in sats:
        by_task.setdefault(r["task"], []).append(r)
    groups = list(by_task.items())
    _SATS_BY_TASK = groups
    outs = []
    if groups:
        # compile the real libraries here (children inherit the directory) but never *load* them in this process: forking after
        # OpenMP/BLAS threads exist deadlocks the children, so every replay runs in a forked child
        from . import replaylibs
        replaylibs.build(with_fft=bool(getattr(prop, "NEEDS_FFT", False)))
        idxs = list(range(len(groups)))
        got = dict(_pmap(_replay_group, len(idxs), max(1, min(jobs, len(idxs))), _dead_replay, watchdog))
        outs = [got[i] for i in idxs]
    for (tname, rs), res in zip(groups, outs):
        for r, (rp, kid) in zip(rs, res):
            r["replay"] = rp
            if rp.get("confirmed") is None:
                unreplayed.append(r)
            elif not rp.get("confirmed"):
                spurious.append(r)
            elif kid is not None:
                r["known"] = kid
                known_hits.append(([k for k in known.get("findings", []) if k["id"] == kid][0], r))
            else:
                violations.append(r)

    # ---- report
    seen_known = {}
    for k, r in known_hits:
        seen_known.setdefault(k["id"], (k, []))[1].append(r)
    for kid, (k, rs) in sorted(seen_known.items()):
        print("KNOWN-FINDING: property=%s %s [%s; %d obligation(s), e.g. %s]" % (pid, k["what"], kid, len(rs), rs[0]["name"]))
    vpaths = []
    for n, r in enumerate(violations):
        path = os.path.join(REPLAYS, "%s_%d.json" % (pid, n))
        t = tmap[r["task"]]
        with open(path, "w") as f:
            json.dump(dict(property=pid, task=t.name, obligation=r["name"], path=r.get("path"),
                           cfg=_jsonable(t.cfg), model=r.get("model"), model_float=r.get("model_float"),
                           replay=r.get("replay"), how="cd /verif && ./check %s --replay %s" % (pid, path)), f, indent=1)
        vpaths.append(path)
        print("VIOLATION property=%s replay=%s" % (pid, path))
        print("   obligation %s path=%s model=%s" % (r["name"], r.get("path"), r.get("model_float")))
        print("   replay on unmodified code: %s" % (r["replay"].get("detail"),))
    for r in spurious:
        print("NOT-REPRODUCED (counted inconclusive, not a violation): %s path=%s %s%s" % (r["name"], r.get("path"), r["replay"].get("detail"),
                                                                                            (" | symbolic run: %s" % r["detail"]) if r.get("detail") else ""))
    for name, err in errors:
        print("HARNESS-ERROR task=%s\n%s" % (name, err))
    for r in vacuous:
        print("VACUOUS-ASSUMPTIONS task=%s path=%s (reachability twin %s)" % (r["task"], r.get("path"), r["verdict"]))

    wall = time.time() - t_start
    meta = getattr(prop, "META", {})
    samples = []
    for r in (discharged[:2] + sats[:3] + inconclusive[:1]):
        samples.append({k: r.get(k) for k in ("name", "path", "verdict", "t", "size", "phase", "detail", "model", "replay", "known") if r.get(k) is not None})
    distinct = len({(r["name"], r.get("path")) for r in obligations if not r.get("trivial")})
    from . import loader
    ev = dict(
        property_id=pid, tier=tier, seed=seed, level="other", wall_s=round(wall, 2),
        violations=len(violations),
        coverage=dict(
            explanation=meta.get("explanation", "bounded symbolic execution of the real code + SMT"),
            obligations=len(obligations), discharged=len(discharged), inconclusive=len(inconclusive) + len(spurious),
            counterexamples_reproduced=len(violations) + len(known_hits), known_findings=sorted(seen_known),
            not_reproduced=len(spurious), sat_not_replayed_after_cap=len(unreplayed),
            evaluations=len(obligations), distinct_nontrivial=distinct,
            rule="one evaluation = one SMT query (negated obligation under path condition); distinct = distinct (obligation, path) pairs whose negated goal did not simplify to false syntactically",
            paths_explored=sum(o.get("paths", 0) for o in results),
            feasibility_queries=sum(o.get("feas_queries", 0) for o in results),
            reachability_witnesses=dict(total=len(reach), sat=len(reach) - len(vacuous) - len(reach_unknown), unknown=len(reach_unknown)),
            tasks=len(tasks), task_errors=len(errors),
            solver_time_s=round(sum(o.get("solver_time", 0.0) for o in results), 2),
            solvers=meta.get("solvers", ["z3 %s" % _z3ver()]) + (["cvc5 binary (sampled cross-check of z3 unsat answers)"] if tier != "quick" else []),
            second_solver_crosscheck=_cross_summary(results, tier),
            functions_encoded=meta.get("functions", []),
            sources_sha256={os.path.relpath(p, "/repo"): h for p, h in sorted(_collect_sources(results).items())},
            bounds=meta.get("bounds", {}), stubs=meta.get("stubs", []),
            inconclusive_list=[dict(name=r["name"], path=r.get("path"), verdict=r["verdict"]) for r in inconclusive][:50],
            not_reproduced_list=[dict(name=r["name"], path=r.get("path"), phase=r.get("phase"), model=r.get("model_float"),
                                      replay=r["replay"].get("detail")) for r in spurious][:50],
            samples=samples,
            exhaustive=False,
        ),
        assumptions=meta.get("assumptions", []),
    )
    extra = getattr(prop, "extra_evidence", None)
    if extra:
        ev["coverage"].update(extra(results))
    os.makedirs(EVID, exist_ok=True)
    with open(os.path.join(EVID, "%s.json" % pid), "w") as f:
        json.dump(ev, f, indent=1, default=str)
    print("%s tier=%s: %d obligations, %d discharged (unsat), %d inconclusive, %d reproduced counterexamples "
          "(%d known), %d not reproduced%s, %d paths, %d tasks, %.1fs wall"
          % (pid, tier, len(obligations), len(discharged), len(inconclusive), len(violations) + len(known_hits),
             len(known_hits), len(spurious), (", %d further sat not replayed (cap)" % len(unreplayed)) if unreplayed else "",
             ev["coverage"]["paths_explored"], len(tasks), wall))
    if violations:
        return EXIT_VIOLATION
    if tier != "quick" and (_cross_summary(results, tier).get("disagreements") or 0) > 0:
        print("SOLVER-DISAGREEMENT: cvc5 answered sat on a query z3 answered unsat (see evidence); treated as an encoding error")
        return EXIT_ENCODING
    if errors or vacuous:
        return EXIT_ENCODING
    if not obligations:
        print("no obligations were produced")
        return EXIT_ENCODING
    return EXIT_OK


def _cross_summary(results, tier):
    if tier == "quick":
        return "not run in the quick tier"
    tot = {}
    for o in results:
        for k, v in (o.get("crosscheck") or {}).items():
            if k != "every":
                tot[k] = tot.get(k, 0) + (v or 0)
    tot["rule"] = "every 20th query answered unsat by z3 is re-asked to cvc5 1.0 via SMT-LIB with an 8 s limit; 'sat' would be a disagreement"
    return tot


def _collect_sources(results):
    out = {}
    for o in results:
        out.update(o.get("sources", {}))
    from . import loader
    out.update(loader.source_digest())
    return out


def _z3ver():
    import z3
    return z3.get_version_string()


def _jsonable(x):
    try:
        json.dumps(x)
        return x
    except TypeError:
        if isinstance(x, dict):
            return {str(k): _jsonable(v) for k, v in x.items()}
        if isinstance(x, (list, tuple)):
            return [_jsonable(v) for v in x]
        return repr(x)


def replay_file(prop, path):
    with open(path) as f:
        d = json.load(f)
    tasks = {t.name: t for tier in ("thorough", "quick") for t in prop.tasks(tier)}
    t = tasks[d["task"]]
    rec = dict(name=d["obligation"], model_float=d["model_float"], path=d.get("path"), model=d.get("model"))
    rp = prop.replay(t, rec)
    if not rp.get("confirmed") and "valgrind" in str((d.get("replay") or {}).get("detail")):
        from . import vgreplay
        tier = "quick" if d["task"] in {x.name for x in prop.tasks("quick")} else "thorough"
        rp = vgreplay.confirm(prop.PROP_ID, tier, t.name, d.get("model_float") or {})
    print(json.dumps(rp, indent=1, default=str))
    if rp.get("confirmed"):
        print("VIOLATION property=%s replay=%s" % (prop.PROP_ID, path))
        return EXIT_VIOLATION
    return EXIT_OK
