import argparse
import importlib
import os
import sys


def main():
    import faulthandler
    import signal
    faulthandler.register(signal.SIGUSR1, all_threads=True)     # kill -USR1 <pid> dumps the Python stack (inherited by forked workers)
    # every execution of the real compiled libraries inside a check is single-threaded: libgomp/OpenBLAS thread pools created in
    # the parent would deadlock the forked workers (C10's helgrind confirmation sets its own thread count)
    os.environ["OMP_NUM_THREADS"] = "1"
    os.environ["OPENBLAS_NUM_THREADS"] = "1"
    ap = argparse.ArgumentParser()
    ap.add_argument("prop")
    ap.add_argument("--tier", default=os.environ.get("VERIF_TIER", "quick"), choices=["quick", "thorough"])
    ap.add_argument("--only", default=None, help="regex on task names (debugging; evidence then covers the subset)")
    ap.add_argument("--replay", default=None)
    ap.add_argument("--jobs", type=int, default=None)
    a = ap.parse_args()
    seed = int(os.environ.get("VERIF_SEED", "0") or 0)
    prop = importlib.import_module("vf.props.%s" % a.prop.lower())
    from . import run
    if a.replay:
        sys.exit(run.replay_file(prop, a.replay))
    if hasattr(prop, "main"):
        sys.exit(prop.main(a.tier, seed, a.only, a.jobs))
    sys.exit(run.run_property(prop, a.tier, seed=seed, only=a.only, jobs=a.jobs))


if __name__ == "__main__":
    main()
