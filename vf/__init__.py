"""Solver-based checking of CiderPress: symbolic execution of the real code + SMT (see /verif/DESIGN.md)."""
