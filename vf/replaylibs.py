"""Build the repository's C libraries from /repo's *current working tree* into a mktemp directory
(removed at exit) and point ciderpress.lib.load.load_library at it, so that replays run against the
real C code.  Nothing is ever written under /repo.  (DESIGN.md section 0.)"""
import atexit
import glob
import os
import shutil
import subprocess
import sys
import tempfile

REPO = os.environ.get("VERIF_REPO", "/repo")
_DIR = None
_DONE = False
_BUILT = set()

PYSCF_DEPS = "/venv/lib/python3.12/site-packages/pyscf/lib/deps"
STUBS = os.path.join(os.path.dirname(os.path.dirname(os.path.abspath(__file__))), "stubs")


def libdir():
    global _DIR
    if _DIR is None and os.environ.get("VERIF_LIBDIR") and os.path.isdir(os.environ["VERIF_LIBDIR"]):
        # a parent process already built the libraries from the current tree (CrossHair / valgrind children)
        _DIR = os.environ["VERIF_LIBDIR"]
        if os.path.exists(os.path.join(_DIR, "libmcider.so")):
            _BUILT.add("base")
        if os.path.exists(os.path.join(_DIR, "libfft_wrapper.so")):
            _BUILT.add("fft")
    if _DIR is None:
        _DIR = tempfile.mkdtemp(prefix="verif_libs_")
        atexit.register(shutil.rmtree, _DIR, True)
    return _DIR


def _run(cmd):
    p = subprocess.run(cmd, stdout=subprocess.PIPE, stderr=subprocess.STDOUT, text=True)
    if p.returncode != 0:
        raise RuntimeError("build failed: %s\n%s" % (" ".join(cmd), p.stdout[-3000:]))


def build(with_fft=False):
    """compile (never load) the libraries; idempotent per process tree: forked children inherit _DIR/_BUILT"""
    d = libdir()
    mc = os.path.join(REPO, "ciderpress/lib/mod_cider")
    srcs = [os.path.join(mc, f) for f in (
        "cider_coefs.c", "cider_grids.c", "spline.c", "sph_harm.c", "conv_interpolation.c", "convolutions.c",
        "fast_sdmx.c", "debug_numint.c", "model_utils.c", "frac_lapl.c")]
    jobs = []
    if "base" not in _BUILT:
        jobs.append(["gcc", "-O2", "-fopenmp", "-fPIC", "-shared", "-w", "-o", os.path.join(d, "libmcider.so")] + srcs +
                    ["-I" + mc, "-lopenblas", "-llapack", "-lm"])
        jobs.append(["gcc", "-O2", "-fopenmp", "-fPIC", "-shared", "-w", "-o", os.path.join(d, "libxc_utils.so"),
                     os.path.join(REPO, "ciderpress/lib/xc_utils/libxc_baselines.c"),
                     "-I" + os.path.join(PYSCF_DEPS, "include"), "-L" + os.path.join(PYSCF_DEPS, "lib"),
                     "-Wl,-rpath," + os.path.join(PYSCF_DEPS, "lib"), "-lxc", "-lm"])
        jobs.append(["gcc", "-O2", "-fopenmp", "-fPIC", "-shared", "-w", "-o", os.path.join(d, "libnumint.so"),
                     os.path.join(REPO, "ciderpress/lib/numint_cider/nr_numint.c"), "-I" + mc, "-lopenblas", "-lm"])
    if with_fft and "fft" not in _BUILT:
        fw = os.path.join(REPO, "ciderpress/lib/fft_wrapper")
        jobs.append(["gcc", "-O2", "-fopenmp", "-fPIC", "-shared", "-w", "-o", os.path.join(d, "libfft_wrapper.so"),
                     os.path.join(fw, "cider_fft.c"), os.path.join(STUBS, "fftw_ref.c"),
                     "-I" + os.path.join(STUBS, "include"), "-I" + fw, "-DFFT_BACKEND=0", "-lm"])
    procs = [subprocess.Popen(j, stdout=subprocess.PIPE, stderr=subprocess.STDOUT, text=True) for j in jobs]
    for j, p in zip(jobs, procs):
        out, _ = p.communicate()
        if p.returncode != 0:
            raise RuntimeError("build failed: %s\n%s" % (" ".join(j), out[-3000:]))
    _BUILT.add("base")
    if with_fft:
        _BUILT.add("fft")
    return d


def ensure(with_fft=False):
    """idempotent: build + monkeypatch load_library in the *installed* (unmodified) ciderpress"""
    global _DONE
    d = build(with_fft)
    if _DONE:
        return d
    import numpy
    import ciderpress.lib.load as L
    import ciderpress.lib as LL

    def load_library(name):
        return numpy.ctypeslib.load_library(name, d)

    L.load_library = load_library
    LL.load_library = load_library
    _DONE = True
    return d
