"""Symbolic import context: load the repository's modules from /repo's *current source text* through a
small literal transformer into private module objects (DESIGN.md 2.1).

Transformer rules
  1. float literal           -> _Q("<source text>")      exact rational; the literal 1e-16 -> EPS symbol
  2. a / b                   -> _DIV(a, b)                int/int gives an exact Fraction-valued S
  3. import numpy as np      -> np = _NP                  (so class-level constants use symbolic PI)
Nothing else in the source is touched.
"""
import ast
import re
import hashlib
import importlib
import importlib.abc
import importlib.machinery
import importlib.util
import os
import sys
import types
from fractions import Fraction

import numpy as _np

from . import dag
from .sym import S, sc, EPS, lift
from .npshim import NPShim

REPO = os.environ.get("VERIF_REPO", "/repo")

EPS_LITERALS = ("1e-16",)
LOADED_SOURCES = {}     # path -> sha256 of the source that was transformed (evidence)


class LitT(ast.NodeTransformer):
    def __init__(self, eps_literals=EPS_LITERALS):
        self.eps = eps_literals

    def visit_Constant(self, node):
        if isinstance(node.value, float):
            txt = repr(node.value)
            return ast.copy_location(
                ast.Call(ast.Name("_Q", ast.Load()), [ast.Constant(txt)], []), node)
        return node

    def visit_BinOp(self, node):
        self.generic_visit(node)
        if isinstance(node.op, ast.Div):
            return ast.copy_location(
                ast.Call(ast.Name("_DIV", ast.Load()), [node.left, node.right], []), node)
        return node

    def visit_Compare(self, node):
        """`x.dtype == np.float64` (the wrappers' guards): a symbolic object array stands for a float64 array"""
        self.generic_visit(node)
        if (len(node.ops) == 1 and isinstance(node.ops[0], (ast.Eq, ast.NotEq)) and isinstance(node.left, ast.Attribute) and node.left.attr == "dtype"):
            call = ast.Call(ast.Name("_DTEQ", ast.Load()), [node.left.value, node.comparators[0]], [])
            new = call if isinstance(node.ops[0], ast.Eq) else ast.UnaryOp(ast.Not(), call)
            return ast.copy_location(new, node)
        return node

    def visit_Assign(self, node):
        """`dn = 2000`, `blksize = 10000`, `_diag_blksize = 1024` (function, module or class level): internal chunk sizes become
        `_BLK(2000)`, a lazily resolved integer which a harness may scale down *at use time* (loader.BLOCK_OVERRIDE for one
        literal, loader.BLOCK_OVERRIDE_ALL for every one) so that the chunk-boundary logic is exercised at symbolic sizes of 3-5
        points; the default is the literal value"""
        self.generic_visit(node)
        if len(node.targets) == 1 and _is_block_name(node.targets[0]):
            class _Big(ast.NodeTransformer):
                def visit_Constant(self, c):
                    if isinstance(c.value, int) and not isinstance(c.value, bool) and c.value >= 100:
                        return ast.copy_location(ast.Call(ast.Name("_BLK", ast.Load()), [c], []), c)
                    return c
            node.value = _Big().visit(node.value)
        return node

    def visit_AugAssign(self, node):
        self.generic_visit(node)
        return node

    def visit_Import(self, node):
        out = []
        keep = []
        for al in node.names:
            if al.name == "numpy":
                tgt = al.asname or "numpy"
                out.append(ast.copy_location(
                    ast.Assign([ast.Name(tgt, ast.Store())], ast.Name("_NP", ast.Load())), node))
            else:
                keep.append(al)
        if keep:
            out.insert(0, ast.copy_location(ast.Import(keep), node))
        return out

    # do not rewrite literals inside default-argument-free type annotations / decorators: harmless.


BLOCK_OVERRIDE = {}
BLOCK_OVERRIDE_ALL = [None]     # [k]: every chunk-size literal resolves to k (unless BLOCK_OVERRIDE names it)
BLOCK_SEEN = set()              # literals resolved while an override was active
_BLOCK_NAME = re.compile(r"(?i)(^dn$|blk|block|chunk|batch)")


def _is_block_name(t):
    if isinstance(t, ast.Name):
        return bool(_BLOCK_NAME.search(t.id))
    if isinstance(t, ast.Attribute):
        return bool(_BLOCK_NAME.search(t.attr))
    return False


def block_literals(path):
    """the chunk-size literals the loader would route through _BLK in this source file (static scan; used by concrete replays to
    choose a sample count above the largest one)"""
    out = set()
    try:
        tree = ast.parse(open(path).read())
    except (OSError, SyntaxError):
        return out
    for node in ast.walk(tree):
        if isinstance(node, ast.Assign) and len(node.targets) == 1 and _is_block_name(node.targets[0]):
            for c in ast.walk(node.value):
                if isinstance(c, ast.Constant) and isinstance(c.value, int) and not isinstance(c.value, bool) and c.value >= 100:
                    out.add(c.value)
    return out


def _resolve(v):
    if v in BLOCK_OVERRIDE:
        BLOCK_SEEN.add(v)
        return BLOCK_OVERRIDE[v]
    if BLOCK_OVERRIDE_ALL[0] is not None:
        BLOCK_SEEN.add(v)
        return BLOCK_OVERRIDE_ALL[0]
    return v


class _LazyBlk(object):
    """an integer literal whose value is looked up when it is *used* (so that class-level and module-level chunk sizes, evaluated
    at import time, can still be scaled by a harness)"""
    __slots__ = ("v",)

    def __init__(self, v):
        self.v = v

    def __index__(self):
        return _resolve(self.v)

    __int__ = __index__

    def __float__(self):
        return float(_resolve(self.v))

    def __bool__(self):
        return bool(_resolve(self.v))

    def __hash__(self):
        return hash(_resolve(self.v))

    def __repr__(self):
        return repr(_resolve(self.v))


def _mk(op, swap=False):
    import operator
    f = getattr(operator, op)

    def m(self, other):
        a, b = _resolve(self.v), (other.__index__() if isinstance(other, _LazyBlk) else other)
        return f(b, a) if swap else f(a, b)
    return m


for _op in ("add", "sub", "mul", "floordiv", "truediv", "mod", "pow"):
    setattr(_LazyBlk, "__%s__" % _op, _mk(_op))
    setattr(_LazyBlk, "__r%s__" % _op, _mk(_op, True))
for _op in ("lt", "le", "gt", "ge", "eq", "ne"):
    setattr(_LazyBlk, "__%s__" % _op, _mk(_op))
_LazyBlk.__neg__ = lambda self: -_resolve(self.v)


def _BLK(v):
    return _LazyBlk(v)


def _DTEQ(arr, dt):
    import numpy as _n
    d = arr.dtype
    if d == _n.dtype(object):
        try:
            if _n.dtype(dt) == _n.dtype(_n.float64):
                return True
        except TypeError:
            pass
    return d == dt


def _Q(txt):
    if txt in EPS_LITERALS:
        return EPS
    return sc(Fraction(txt))


def _DIV(a, b):
    if isinstance(a, (int, _np.integer)) and isinstance(b, (int, _np.integer)) \
            and not isinstance(a, bool) and not isinstance(b, bool):
        return sc(Fraction(int(a), int(b)))
    if isinstance(a, Fraction) or isinstance(b, Fraction):
        if isinstance(a, (int, Fraction)) and isinstance(b, (int, Fraction)):
            return sc(Fraction(a) / Fraction(b))
    return a / b


def transform_source(src, path):
    tree = LitT().visit(ast.parse(src, filename=path))
    ast.fix_missing_locations(tree)
    return compile(tree, path, "exec")


class SymLoader(importlib.abc.Loader):
    def __init__(self, path, ctx):
        self.path = path
        self.ctx = ctx

    def create_module(self, spec):
        return None

    def exec_module(self, module):
        with open(self.path) as f:
            src = f.read()
        LOADED_SOURCES[self.path] = hashlib.sha256(src.encode()).hexdigest()
        code = transform_source(src, self.path)
        module.__dict__.update({"_Q": _Q, "_DIV": _DIV, "_DTEQ": _DTEQ, "_BLK": _BLK, "_NP": self.ctx.np})
        exec(code, module.__dict__)
        hook = self.ctx.post_hooks.get(module.__name__)
        if hook:
            hook(module)


class SymFinder(importlib.abc.MetaPathFinder):
    def __init__(self, ctx):
        self.ctx = ctx

    def find_spec(self, name, path, target=None):
        if not self.ctx.wants(name):
            return None
        spec = importlib.machinery.PathFinder.find_spec(name, path)
        if spec is None or not spec.origin or not spec.origin.endswith(".py"):
            return spec
        return importlib.util.spec_from_file_location(
            name, spec.origin, loader=SymLoader(spec.origin, self.ctx),
            submodule_search_locations=spec.submodule_search_locations)


class FakeFn(object):
    def __init__(self, name, lib):
        self.name = name
        self.lib = lib
        self.restype = None
        self.argtypes = None

    def __call__(self, *a, **k):
        h = self.lib.handlers.get(self.name)
        if h is None:
            raise RuntimeError("C call not bridged: %s.%s" % (self.lib._name, self.name))
        return h(*a, **k)


class FakeLib(object):
    """stands in for a ctypes CDLL; C functions raise unless a harness bridges them"""

    def __init__(self, name):
        self._name = name
        self._fns = {}
        self.handlers = {}

    def __getattr__(self, k):
        if k.startswith("__"):
            raise AttributeError(k)
        return self._fns.setdefault(k, FakeFn(k, self))


class SymContext(object):
    """with SymContext() as C: import ciderpress.dft.transform_data as td   (symbolic copy)"""

    def __init__(self, prefixes=("ciderpress",), extra_modules=(), symbolic_alloc=True):
        self.prefixes = tuple(prefixes)
        self.extra = set(extra_modules)     # exact module names outside the prefixes (sklearn kernels)
        self.mods = {}
        self.np = NPShim(symbolic_alloc)
        self.libs = {}
        self.post_hooks = {}
        self._depth = 0

    def wants(self, name):
        if name in self.extra:
            return True
        return any(name == p or name.startswith(p + ".") for p in self.prefixes)

    def load_library(self, name):
        return self.libs.setdefault(name, FakeLib(name))

    def __enter__(self):
        self._depth += 1
        if self._depth > 1:
            return self
        self.saved = {k: v for k, v in sys.modules.items() if self.wants(k)}
        for k in self.saved:
            del sys.modules[k]
        sys.modules.update(self.mods)
        self.finder = SymFinder(self)
        sys.meta_path.insert(0, self.finder)
        if "ciderpress.lib.load" not in sys.modules and self.wants("ciderpress.lib.load"):
            import ciderpress.lib.load as L   # symbolic copy
            L.load_library = self.load_library
            import ciderpress.lib as LL
            LL.load_library = self.load_library
        return self

    def __exit__(self, *a):
        self._depth -= 1
        if self._depth:
            return
        sys.meta_path.remove(self.finder)
        self.mods = {k: v for k, v in sys.modules.items() if self.wants(k)}
        for k in self.mods:
            del sys.modules[k]
        sys.modules.update(self.saved)

    def imp(self, name):
        with self:
            return importlib.import_module(name)


def source_digest():
    return dict(LOADED_SOURCES)
