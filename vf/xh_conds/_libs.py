"""make the unmodified ciderpress importable with freshly built C libraries inside CrossHair subprocesses"""
import os
import sys


def ensure():
    d = os.environ.get("VERIF_LIBDIR")
    import numpy
    import ciderpress.lib.load as L
    import ciderpress.lib as LL
    if d and os.path.isdir(d):
        def load_library(name):
            return numpy.ctypeslib.load_library(name, d)
        L.load_library = load_library
        LL.load_library = load_library
    else:
        from vf import replaylibs
        replaylibs.ensure()
