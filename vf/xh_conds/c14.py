"""CrossHair conditions for C14 (rejection of unknown codes / unsupported formats)."""
from typing import Optional

from vf.xh_conds import _libs

_libs.ensure()
import ciderpress.dft.transform_data as td  # noqa: E402
import ciderpress.dft.model_utils as mu  # noqa: E402
from ciderpress.dft.xc_evaluator import MappedXC  # noqa: E402

_ALLKEYS = dict(i=0, j=1, k=2, l=3, gamma=0.5, gammai=0.5, gammaj=0.4, gammak=0.3, scale=1.0, center=0.0,
                i_n=0, i_s=1, i_alpha=2, c=1.0, B=1.0, C=1.0, bounds=None)


def _written_codes():
    import inspect
    out = set()
    for C in td.ALL_CLASSES:
        names = [n for n in list(inspect.signature(C.__init__).parameters)[1:] if n != "bounds"]
        out.add(C(*[_ALLKEYS[n] for n in names]).as_dict()["code"])
    return out


_WRITTEN = _written_codes()


def _from_dict_accepts_exactly_written_codes(code: str) -> bool:
    """
    pre: len(code) <= 6
    post: _
    """
    d = dict(_ALLKEYS)
    d["code"] = code
    try:
        obj = td.FeatureNormalizer.from_dict(d)
    except ValueError:
        return code not in _WRITTEN
    return code in _WRITTEN and obj.as_dict()["code"] == code


class _F:
    def __enter__(self):
        return self

    def __exit__(self, *a):
        return False


_SENTINEL = object.__new__(MappedXC)
mu.open = lambda *a, **k: _F()
mu.yaml.load = lambda f, Loader=None: _SENTINEL
mu.joblib.load = lambda p: _SENTINEL


def _load_cider_model_dispatch(name: str, fmt: Optional[str]) -> bool:
    """
    pre: len(name) <= 8
    pre: fmt is None or len(fmt) <= 7
    post: _
    """
    if fmt is None:
        ok = name.endswith(".yaml") or name.endswith(".joblib")
    else:
        ok = fmt in ("yaml", "joblib")
    try:
        r = mu.load_cider_model(name, fmt)
    except ValueError:
        return not ok
    return ok and r is _SENTINEL


def _load_cider_model_rejects_non_models(x: int) -> bool:
    """
    post: _
    """
    try:
        mu.load_cider_model(x, None)
    except ValueError:
        return True
    return False
