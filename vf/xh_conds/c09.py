"""CrossHair conditions for C09 (call history): the cached feature generators always match the latest request."""
from typing import List, Tuple

from vf.xh_conds import _libs

_libs.ensure()
import ciderpress.pyscf.numint as nim  # noqa: E402
from ciderpress.dft.settings import FeatureSettings, NLDFSettingsVJ, SDMXSettings, SemilocalSettings  # noqa: E402


class _Plan:
    def __init__(self, nspin):
        self.nspin = nspin


class _Interp:
    coords = None

    def set_coords(self, c):
        self.coords = c


class _Gen:
    def __init__(self, mol, nspin, indexer=None):
        self.mol = mol
        self.plan = _Plan(nspin)
        self.indexer = indexer
        self.interpolator = _Interp()


class _Init:
    def initialize_sdmx_generator(self, mol, nspin):
        return _Gen(mol, nspin)

    def initialize_nldf_generator(self, mol, grids_indexer, nspin):
        return _Gen(mol, nspin, grids_indexer)


class _Mol:
    pass


class _Grids:
    def __init__(self):
        self.grids_indexer = object()
        self.coords = object()


_MOLS = [_Mol(), _Mol()]
_GRIDS = [_Grids(), _Grids()]
_SETTINGS = FeatureSettings(
    sl_settings=SemilocalSettings("npa"),
    nldf_settings=NLDFSettingsVJ("MGGA", [1.0, 0.0, 0.03125], "one", ["se"], [[2.0, 0.0, 0.04]]),
    sdmx_settings=SDMXSettings([1]),
)


class _Model:
    settings = _SETTINGS


def _make(cls):
    ni = object.__new__(cls)
    ni.mlxc = _Model()
    ni.sdmx_init = _Init()
    ni.nldf_init = _Init()
    ni.sdmxgen = None
    ni.nldfgen = None
    ni.mol = None
    ni.sl_plan = None
    ni.fl_plan = None
    return ni


def _generators_follow_latest_request(ops: List[Tuple[int, int, int]]) -> bool:
    """
    pre: len(ops) <= 3
    pre: all(0 <= m <= 1 and 1 <= s <= 2 and 0 <= g <= 1 for m, s, g in ops)
    post: _
    timeout: 60
    """
    ni = _make(nim.NLDFNumInt)
    for m, s, g in ops:
        ni.initialize_feature_generators(_MOLS[m], _GRIDS[g], s)
        ok = (
            ni.sl_plan.nspin == s
            and ni.fl_plan.nspin == s
            and ni.sdmxgen.plan.nspin == s
            and ni.sdmxgen.mol is _MOLS[m]
            and ni.nldfgen.plan.nspin == s
            and ni.nldfgen.mol is _MOLS[m]
            and ni.nldfgen.indexer is _GRIDS[g].grids_indexer
            and ni.nldfgen.interpolator.coords is _GRIDS[g].coords
        )
        if not ok:
            return False
    return True


def _sdmx_generator_follows_latest_request(ops: List[Tuple[int, int]]) -> bool:
    """
    pre: len(ops) <= 3
    pre: all(0 <= m <= 1 and 1 <= s <= 2 for m, s in ops)
    post: _
    timeout: 60
    """
    ni = _make(nim.CiderNumInt)
    for m, s in ops:
        ni.initialize_feature_generators(_MOLS[m], _GRIDS[0], s)
        if not (ni.sl_plan.nspin == s and ni.sdmxgen.plan.nspin == s and ni.sdmxgen.mol is _MOLS[m]):
            return False
    return True
