"""CrossHair conditions for C18: settings constructors accept exactly the documented arguments, and accepted settings have
consistent bookkeeping (nfeat == len(get_feat_usps()) == len(ueg_vector()) == len(get_reasonable_normalizer()),
FeatureSettings.get_feat_loc is the running sum).

Arguments are decoded from small symbolic integers / floats so that CrossHair's per-path z3 queries range over every
combination inside the stated bounds: spec lists of length <= 2 drawn from the allowed strings plus one illegal string,
parameter lists of length 1-5 with symbolic numbers, dot pairs with entries in [-2, 2].  The `_legal_*` predicates are
transcribed from the class docstrings / docs (independent of the constructors' own checks)."""
from vf.xh_conds import _libs

_libs.ensure()
import ciderpress.dft.settings as st  # noqa: E402

I0 = list(st.ALLOWED_I_SPECS_L0) + ["bogus"]
I1 = list(st.ALLOWED_I_SPECS_L1) + ["bogus"]
J = list(st.ALLOWED_J_SPECS) + ["bogus"]
LEVELS = ["GGA", "MGGA", "LDA"]
MULTS = list(st.ALLOWED_RHO_MULTS) + ["two"]
ERRORS = (ValueError, IndexError, TypeError, AssertionError, KeyError)


def _enum(x, lo, hi):
    """case split: returns the *concrete* Python int equal to the symbolic x (one path per value), so that nothing symbolic
    reaches numpy (CrossHair would realise it and lose exhaustiveness)"""
    for v in range(lo, hi + 1):
        if x == v:
            return v
    raise AssertionError("outside the stated bounds")


def _pick(lst, code, n):
    """n items of lst selected by the base-len(lst) digits of code"""
    out = []
    for _ in range(n):
        out.append(lst[code % len(lst)])
        code //= len(lst)
    return out


def _params(a0, g, t, e, plen):
    return [a0, g, t, e, 1.0][:plen]


def _legal_params(level, p, spec="se"):
    n = 3 if level == "MGGA" else 2
    if spec == "se_erf_rinv":
        n += 1
    if len(p) != n:
        return False
    if not p[0] > 0:
        return False
    if not p[1] >= 0:
        return False
    if level == "MGGA" and not p[2] >= 0:
        return False
    return True


def _consistent(s):
    """an explicit NotImplementedError from ueg_vector / get_reasonable_normalizer (documented as unsupported for some spec
    combinations, e.g. dot products whose scaling power has no recommended normaliser) is a refusal, not an inconsistency"""
    n = s.nfeat
    if n != len(s.get_feat_usps()):
        return False
    try:
        if n != len(s.ueg_vector()):
            return False
    except NotImplementedError:
        pass
    try:
        if n != len(s.get_reasonable_normalizer()):
            return False
    except NotImplementedError:
        pass
    return True


# ------------------------------------------------------------------------------------------- validity (iff)
THETA3 = [1.0, 0.0, 0.03125]


def _level_and_mult_checked(lv: int, mu: int) -> bool:
    """
    pre: 0 <= lv <= 2 and 0 <= mu <= 2
    post: _
    """
    level, mult = LEVELS[lv], MULTS[mu]
    legal = level in ("GGA", "MGGA") and mult in st.ALLOWED_RHO_MULTS
    try:
        st.NLDFSettingsVJ(level, THETA3[: 3 if level == "MGGA" else 2], mult, [], [])
    except ERRORS:
        return not legal
    return legal


def _theta_params_checked(lv: int, a0: float, g: float, t: float, plen: int) -> bool:
    """
    pre: 0 <= lv <= 1 and 0 <= plen <= 4
    pre: -2.0 <= a0 <= 2.0 and -2.0 <= g <= 2.0 and -2.0 <= t <= 2.0
    post: _
    """
    level = LEVELS[lv]
    theta = [a0, g, t, 1.0][:plen]
    legal = _legal_params(level, theta)
    try:
        st.NLDFSettingsVJ(level, theta, "one", [], [])
    except ERRORS:
        return not legal
    return legal


def _vj_spec_and_params_checked(lv: int, sc: int, a0: float, g: float, t: float, e: float, plen: int) -> bool:
    """
    pre: 0 <= lv <= 1 and 0 <= sc <= 4 and 1 <= plen <= 5
    pre: -2.0 <= a0 <= 2.0 and -2.0 <= g <= 2.0 and -2.0 <= t <= 2.0 and -2.0 <= e <= 2.0
    post: _
    timeout: 120
    """
    level, spec = LEVELS[lv], J[sc]
    p = _params(a0, g, t, e, plen)
    legal = spec in st.ALLOWED_J_SPECS and _legal_params(level, p, spec)
    try:
        s = st.NLDFSettingsVJ(level, THETA3[: 3 if level == "MGGA" else 2], "one", [spec], [p])
    except ERRORS:
        return not legal
    return legal and s.nfeat == 1 == len(s.get_feat_usps())


def _vj_counts_checked(nj: int, npar: int, second_bad: int) -> bool:
    """
    pre: 0 <= nj <= 3 and 0 <= npar <= 3 and 0 <= second_bad <= 1
    post: _
    """
    specs = ["se", "se_ar2", "se_a2r4"][:nj]
    params = [[1.0, 0.0, 0.0], [1.0, 0.0] if second_bad else [2.0, 0.0, 0.0], [3.0, 0.5, 0.5]][:npar]
    legal = nj == npar and not (second_bad and npar >= 2)
    try:
        s = st.NLDFSettingsVJ("MGGA", THETA3, "one", specs, params)
    except ERRORS:
        return not legal
    return legal and s.nfeat == nj == len(s.get_feat_usps())


def _vi_specs_checked(n0: int, c0: int, n1: int, c1: int) -> bool:
    """
    pre: 0 <= n0 <= 2 and 0 <= c0 < 49 and 0 <= n1 <= 2 and 0 <= c1 < 9
    post: _
    timeout: 120
    """
    s0, s1 = _pick(I0, c0, n0), _pick(I1, c1, n1)
    legal = all(s in st.ALLOWED_I_SPECS_L0 for s in s0) and all(s in st.ALLOWED_I_SPECS_L1 for s in s1)
    try:
        s = st.NLDFSettingsVI("MGGA", THETA3, "one", s0, s1, [])
    except ERRORS:
        return not legal
    return legal and s.nfeat == len(s0) == len(s.get_feat_usps())


def _vi_dots_checked(n1: int, nd: int, d0: int, d1: int, d2: int, d3: int, dl: int) -> bool:
    """
    pre: 0 <= n1 <= 2 and 1 <= nd <= 2 and -2 <= d0 <= 2 and -2 <= d1 <= 2 and -2 <= d2 <= 2 and -2 <= d3 <= 2 and 1 <= dl <= 3
    pre: nd == 2 or (d2 == 0 and d3 == 0)
    pre: nd == 1 or (dl == 2 and d0 == -1)
    post: _
    timeout: 120
    """
    s1 = ["se_grad", "se_rvec"][:n1]
    dots = [(d0, d1, 0)[:dl], (d2, d3)][:nd]
    legal = all(len(d) == 2 and all(-1 <= x < n1 for x in d) for d in dots)
    try:
        s = st.NLDFSettingsVI("GGA", THETA3[:2], "one", ["se"], s1, dots)
    except ERRORS:
        return not legal
    return legal and s.nfeat == 1 + nd == len(s.get_feat_usps())


def _vij_specs_and_dots_checked(c0: int, n1: int, c1: int, d0: int, d1: int, dl: int, sc: int) -> bool:
    """
    pre: 0 <= c0 < 7 and 0 <= n1 <= 2 and 0 <= c1 < 9 and -2 <= d0 <= 2 and -2 <= d1 <= 2 and 1 <= dl <= 3 and 0 <= sc <= 4
    pre: (c0 == 0 and sc == 0) or (c1 == 0 and d0 == -1 and d1 == -1 and dl == 2)
    post: _
    timeout: 120
    """
    s0, s1, sj = [I0[c0]], _pick(I1, c1, n1), [J[sc]]
    dots = [(d0, d1, 0)[:dl]]
    legal = (s0[0] in st.ALLOWED_I_SPECS_L0 and all(s in st.ALLOWED_I_SPECS_L1 for s in s1) and sj[0] in st.ALLOWED_J_SPECS
             and len(dots[0]) == 2 and all(-1 <= x < len(s1) for x in dots[0]))
    p = [1.0, 0.0, 0.03125] + ([1.0] if sj[0] == "se_erf_rinv" else [])
    try:
        s = st.NLDFSettingsVIJ("MGGA", THETA3, "one", s0, s1, dots, sj, [p])
    except ERRORS:
        return not legal
    return legal and s.nfeat == 3 == len(s.get_feat_usps())


def _vij_params_checked(sc: int, a0: float, g: float, t: float, plen: int, npar: int) -> bool:
    """
    pre: 0 <= sc <= 3 and 1 <= plen <= 5 and 0 <= npar <= 2
    pre: -2.0 <= a0 <= 2.0 and -2.0 <= g <= 2.0 and -2.0 <= t <= 2.0
    post: _
    timeout: 120
    """
    spec = J[sc]
    params = [_params(a0, g, t, 1.0, plen), [1.0, 0.0, 0.0]][:npar]
    legal = npar == 1 and _legal_params("MGGA", params[0], spec)
    try:
        s = st.NLDFSettingsVIJ("MGGA", THETA3, "one", [], [], [], [spec], params)
    except ERRORS:
        return not legal
    return legal and s.nfeat == 1


def _vk_accepts_exactly_documented(lv: int, nk: int, a0: float, g: float, plen: int, damp: int) -> bool:
    """
    pre: 0 <= lv <= 2 and 0 <= nk <= 2 and -2.0 <= a0 <= 2.0 and -2.0 <= g <= 2.0 and 1 <= plen <= 4 and 0 <= damp <= 1
    post: _
    timeout: 120
    """
    level = LEVELS[lv]
    theta = THETA3[: 3 if level == "MGGA" else 2]
    params = [[a0, g, 0.0, 1.0][:plen], THETA3[: 3 if level == "MGGA" else 2]][:nk]
    rd = ["exponential", "gaussian"][damp]
    legal = level in ("GGA", "MGGA") and rd in st.ALLOWED_RHO_DAMPS and all(_legal_params(level, p) for p in params)
    try:
        s = st.NLDFSettingsVK(level, theta, "one", params, rd)
    except ERRORS:
        return not legal
    return legal and s.nfeat == len(params) and len(s.get_feat_usps()) == s.nfeat


def _semilocal_and_sadm_modes(code: str) -> bool:
    """
    pre: len(code) <= 3
    post: _
    """
    ok_sl = code in ("nst", "npa", "ns", "np")
    try:
        s = st.SemilocalSettings(code)
        r1 = ok_sl and s.nfeat == len(s.get_feat_usps())
    except ValueError:
        r1 = not ok_sl
    try:
        st.SADMSettings(code)
        r2 = False          # every string of length <= 3 is neither "exact" nor "smooth"
    except ValueError:
        r2 = True
    return r1 and r2


def _fraclapl_counts_checked(nk0: int, nk1: int, nd1: int, ndd: int) -> bool:
    """
    pre: 0 <= nk0 <= 3 and 0 <= nk1 <= 3 and 0 <= nd1 <= 3 and 0 <= ndd <= 3
    post: _
    timeout: 120
    """
    slist = [0.0, 0.5]
    legal = nk0 <= len(slist) and nk1 <= len(slist) and nd1 <= len(slist) and ndd <= nd1
    try:
        s = st.FracLaplSettings(slist, nk0, nk1, [], nd1=nd1, ld_dots=[], ndd=ndd)
    except ERRORS:
        return not legal
    return legal and s.nfeat == nk0 + ndd == len(s.get_feat_usps()) and s.size == nk0 + 3 * nk1 + 3 * nd1 + ndd == s.nrho


def _fraclapl_dots_checked(nk1: int, nd1: int, which: int, j0: int, k0: int, dl: int) -> bool:
    """
    pre: 0 <= nk1 <= 2 and 0 <= nd1 <= 2 and 0 <= which <= 1 and -2 <= j0 <= 3 and -2 <= k0 <= 3 and 1 <= dl <= 3
    post: _
    timeout: 120
    """
    slist = [0.0, 0.5]
    dot = (j0, k0, 0)[:dl]
    n = nd1 if which else nk1
    legal = len(dot) == 2 and all(-1 <= x < n for x in dot)
    try:
        s = st.FracLaplSettings(slist, 1, nk1, [] if which else [dot], nd1=nd1, ld_dots=[dot] if which else [], ndd=0)
    except ERRORS:
        return not legal
    return legal and s.nfeat == 2 == len(s.get_feat_usps())


# ------------------------------------------------------------------------------------------- combinations of families
def _vi_l0_bookkeeping(lv: int, mu: int, n0: int, c0: int) -> bool:
    """
    pre: 0 <= lv <= 1 and 0 <= mu <= 1 and 0 <= n0 <= 2 and 0 <= c0 < 36
    post: _
    timeout: 150
    """
    lv, mu, n0, c0 = _enum(lv, 0, 1), _enum(mu, 0, 1), _enum(n0, 0, 2), _enum(c0, 0, 35)
    if c0 >= 6 ** n0:
        return True         # codes that denote the same configuration as a smaller code
    level = LEVELS[lv]
    s = st.NLDFSettingsVI(level, THETA3[: 3 if level == "MGGA" else 2], MULTS[mu], _pick(I0[:-1], c0, n0), [], [])
    return _consistent(s)


def _vi_l1_bookkeeping(mu: int, n1: int, c1: int, nd: int, d0: int, d1: int, d2: int, d3: int) -> bool:
    """
    pre: 0 <= mu <= 1 and 1 <= n1 <= 2 and 0 <= c1 < 4 and 0 <= nd <= 2
    pre: -1 <= d0 < n1 and -1 <= d1 < n1 and -1 <= d2 < n1 and -1 <= d3 < n1
    pre: nd == 2 or (d2 == -1 and d3 == -1)
    pre: nd >= 1 or (d0 == -1 and d1 == -1)
    pre: nd < 2 or d0 == 0
    post: _
    timeout: 150
    """
    mu, n1, c1, nd = _enum(mu, 0, 1), _enum(n1, 1, 2), _enum(c1, 0, 3), _enum(nd, 0, 2)
    d0, d1, d2, d3 = _enum(d0, -1, 1), _enum(d1, -1, 1), _enum(d2, -1, 1), _enum(d3, -1, 1)
    if c1 >= 2 ** n1:
        return True
    s = st.NLDFSettingsVI("MGGA", THETA3, MULTS[mu], ["se_ap"], _pick(I1[:-1], c1, n1), [(d0, d1), (d2, d3)][:nd])
    return _consistent(s) and s.nfeat == 1 + nd


def _vj_vk_bookkeeping(lv: int, mu: int, nj: int, sc: int, vk: int) -> bool:
    """
    pre: 0 <= lv <= 1 and 0 <= mu <= 1 and 0 <= nj <= 3 and 0 <= sc < 64 and 0 <= vk <= 1
    post: _
    timeout: 150
    """
    lv, mu, nj, sc, vk = _enum(lv, 0, 1), _enum(mu, 0, 1), _enum(nj, 0, 3), _enum(sc, 0, 63), _enum(vk, 0, 1)
    if sc >= 4 ** nj:
        return True
    level = LEVELS[lv]
    n = 3 if level == "MGGA" else 2
    theta = [1.0, 0.0, 0.03125][:n]
    specs = _pick(J[:-1], sc, nj)
    params = [[1.0 + i, 0.0, 0.03125][:n] + ([1.0] if sp == "se_erf_rinv" else []) for i, sp in enumerate(specs)]
    if vk:
        s = st.NLDFSettingsVK(level, theta, MULTS[mu], [p[:n] for p in params], "exponential")
    else:
        s = st.NLDFSettingsVJ(level, theta, MULTS[mu], specs, params)
    return _consistent(s)


def _fraclapl_bookkeeping(nk0: int, nk1: int, nd1: int, ndd: int, nl: int, j0: int, k0: int, nld: int, j1: int, k1: int) -> bool:
    """
    pre: 0 <= nk0 <= 2 and 0 <= nk1 <= 2 and 0 <= nd1 <= 2 and 0 <= ndd <= nd1 and 0 <= nl <= 1 and 0 <= nld <= 1
    pre: -1 <= j0 < nk1 and -1 <= k0 < nk1 and -1 <= j1 < nd1 and -1 <= k1 < nd1
    pre: nl == 1 or (j0 == -1 and k0 == -1)
    pre: nld == 1 or (j1 == -1 and k1 == -1)
    pre: nl + nld <= 1 or (nk0 == 1 and ndd == 0)
    post: _
    timeout: 150
    """
    nk0, nk1, nd1, ndd, nl, nld = _enum(nk0, 0, 2), _enum(nk1, 0, 2), _enum(nd1, 0, 2), _enum(ndd, 0, 2), _enum(nl, 0, 1), _enum(nld, 0, 1)
    j0, k0, j1, k1 = _enum(j0, -1, 1), _enum(k0, -1, 1), _enum(j1, -1, 1), _enum(k1, -1, 1)
    s = st.FracLaplSettings([0.0, 0.5], nk0, nk1, [(j0, k0)][:nl], nd1=nd1, ld_dots=[(j1, k1)][:nld], ndd=ndd)
    return _consistent(s) and s.nfeat == nk0 + nl + nld + ndd


def _sdmx_bookkeeping(kind: int, npow: int, nd: int, n1: int) -> bool:
    """
    pre: 0 <= kind <= 4 and 1 <= npow <= 3 and 0 <= nd <= npow and 0 <= n1 <= npow
    post: _
    timeout: 120
    """
    kind, npow, nd, n1 = _enum(kind, 0, 4), _enum(npow, 1, 3), _enum(nd, 0, 3), _enum(n1, 0, 3)
    pows = [0, 1, 2][:npow]
    if kind == 0:
        s = st.SDMXSettings(pows)
    elif kind == 1:
        s = st.SDMXGSettings(pows, nd)
    elif kind == 2:
        s = st.SDMX1Settings(pows, n1)
    elif kind == 3:
        s = st.SDMXG1Settings(pows, nd, n1)
    else:
        s = st.SDMXFullSettings({1.0: (pows, [npow, nd, n1, min(nd, n1)]), 2.0: (pows, [n1, 0, nd, 0])})
    return _consistent(s)


def _feature_settings_bookkeeping(sl: int, nl: int, fl: int, sd: int) -> bool:
    """
    pre: 0 <= sl <= 4 and 0 <= nl <= 4 and 0 <= fl <= 2 and 0 <= sd <= 3
    post: _
    timeout: 150
    """
    sl, nl, fl, sd = _enum(sl, 0, 4), _enum(nl, 0, 4), _enum(fl, 0, 2), _enum(sd, 0, 3)
    theta = [1.0, 0.0, 0.03125]
    sl_s = [None, st.SemilocalSettings("nst"), st.SemilocalSettings("npa"), st.SemilocalSettings("ns"), st.SemilocalSettings("np")][sl]
    nl_s = [None,
            st.NLDFSettingsVJ("MGGA", theta, "one", ["se", "se_erf_rinv"], [[1.0, 0.0, 0.03125], [2.0, 0.0, 0.0, 1.0]]),
            st.NLDFSettingsVI("MGGA", theta, "one", ["se_ap", "se"], ["se_grad"], [(0, 0), (-1, 0)]),
            st.NLDFSettingsVIJ("MGGA", theta, "one", ["se_lapl"], ["se_grad", "se_rvec"], [(0, 1)], ["se_ar2"], [[1.0, 0.0, 0.03125]]),
            st.NLDFSettingsVK("MGGA", theta, "one", [[1.0, 0.0, 0.03125], [2.0, 0.0, 0.03125]], "exponential")][nl]
    fl_s = [None, st.FracLaplSettings([0.0, 0.5], 2, 1, [(-1, 0), (0, 0)]), st.FracLaplSettings([0.0, 0.5], 1, 1, [(0, 0)], nd1=2, ld_dots=[(0, 1), (-1, 0)], ndd=1)][fl]
    sd_s = [None, st.SDMXSettings([0, 1]), st.SDMXGSettings([0, 1, 2], 1), st.SDMXFullSettings({1.0: ([0, 1, 2], [2, 1, 1, 0]), 2.0: ([0, 1], [1, 0, 0, 1])})][sd]
    fs = st.FeatureSettings(sl_settings=sl_s, nldf_settings=nl_s, nlof_settings=fl_s, sdmx_settings=sd_s)
    parts = [fs.sl_settings, fs.nldf_settings, fs.nlof_settings, fs.sadm_settings if hasattr(fs, "sadm_settings") else None, fs.sdmx_settings]
    loc = fs.get_feat_loc()
    n = fs.nfeat
    if not (n == len(fs.get_feat_usps()) == len(fs.ueg_vector()) == len(fs.get_reasonable_normalizer())):
        return False
    if loc[0] != 0 or loc[-1] != n:
        return False
    for a, b in zip(loc[:-1], loc[1:]):
        if b < a:
            return False
    want = (sl_s.nfeat if sl_s is not None else 0) + (nl_s.nfeat if nl_s is not None else 0) + (fl_s.nfeat if fl_s is not None else 0) + (sd_s.nfeat if sd_s is not None else 0)
    return n == want
