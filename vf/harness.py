"""One harness body, two execution modes (DESIGN.md 3).

A harness is a function h(env, **cfg).  It builds inputs through `env`, calls the code under test taken
from `env.m` (symbolically loaded copy in 'sym' mode, the unmodified installed module in 'real'
mode) and records obligations:

    env.deriv(name, y, wrt=("x", (i, 0)), got=g)    g must equal d y / d x[i,0]
    env.equal(name, a, b)                           a must equal b
    env.zero(name, a)                               a must be 0

In 'sym' mode inputs are symbolic reals, the engine explores every feasible path and poses
`assume & path & atoms & got != want` to z3.  In 'real' mode inputs are the floats of a solver model
and the same obligations are evaluated numerically on the real code (finite differences for `deriv`):
that is the replay that every `sat` must survive before it is reported.
"""
import json
import math
import os
import time
import traceback
from fractions import Fraction

import numpy as np
import z3

from . import dag, sym, poly
from .dag import ZERO, ONE
from .lower import Lower, solve, model_values
from .sym import S, sarr, lift, explore, path_id, szeros


class OutsideDomain(Exception):
    pass


class Obl(object):
    __slots__ = ("kind", "name", "got", "want", "meta")

    def __init__(self, kind, name, got, want, meta=None):
        self.kind, self.name, self.got, self.want, self.meta = kind, name, got, want, meta or {}


class Env(object):
    def __init__(self, mode, mods, values=None, ex=None):
        self.mode = mode                  # 'sym' | 'real'
        self.m = mods
        self.values = values or {}
        self.ex = ex
        self.inputs = {}                  # name -> array (as created)
        self.doms = {}                    # variable name -> (dom, lo, hi)
        self.obls = []
        self.tags = []
        self.sym = mode == "sym"

    # ---------------------------------------------------------------- inputs
    def _names(self, name, shape):
        if shape == ():
            return [((), name)]
        return [(idx, name + "".join("_%d" % i for i in idx)) for idx in np.ndindex(*shape)]

    def arr(self, name, shape, dom="real", lo=None, hi=None):
        """fresh input array.  dom: 'real' | 'pos' | 'nonneg'; lo/hi optional bounds (Fractions/str)"""
        if isinstance(shape, int):
            shape = (shape,)
        names = self._names(name, shape)
        if self.sym:
            a = np.empty(shape, dtype=object).view(sym.SArr)
            for idx, nm in names:
                v = sym.sv(nm, positive=(dom == "pos"), nonneg=(dom == "nonneg"))
                a[idx] = v
                zv = self.ex.low(v.e)
                if dom == "pos":
                    self.ex.assume.append(zv > 0)
                elif dom == "nonneg":
                    self.ex.assume.append(zv >= 0)
                if lo is not None:
                    self.ex.assume.append(zv >= z3.RealVal(str(Fraction(lo))))
                if hi is not None:
                    self.ex.assume.append(zv <= z3.RealVal(str(Fraction(hi))))
                self.doms[nm] = (dom, lo, hi)
        else:
            a = np.empty(shape, dtype=np.float64)
            for idx, nm in names:
                if nm not in self.values:
                    raise KeyError("no value for input " + nm)
                a[idx] = float(self.values[nm])
                self.doms[nm] = (dom, lo, hi)
        self.inputs[name] = a
        return a

    def par(self, name, dom="real", lo=None, hi=None):
        a = self.arr(name, (), dom, lo, hi)
        return a[()] if self.sym else float(a[()])

    def const(self, x):
        """an exact constant (Fraction / str / int) as a value usable by the code"""
        f = Fraction(x)
        return sym.sc(f) if self.sym else float(f)

    def zeros(self, shape):
        return szeros(shape) if self.sym else np.zeros(shape)

    def assume(self, cond):
        """restrict the admissible domain; place before the code it constrains"""
        if self.sym:
            z = cond.z if isinstance(cond, sym.SB) else z3.BoolVal(bool(cond))
            self.ex.assume.append(z)
        else:
            if not bool(cond):
                raise OutsideDomain()

    def eps_zero(self):
        """identities are decided at EPS = 0 (DESIGN.md 2.2): asserted for the path conditions and
        substituted into the obligation terms before they are normalised"""
        if self.sym:
            self.ex.assume.append(z3.Real("EPS") == 0)
            self.ex.eps_zero = True

    def assume_power(self, v, k, expr):
        """equational assumption  v**k == expr  for an input scalar v (e.g. z^2 = 1 - x^2 - y^2 on the unit sphere); also used
        as a rewrite rule when obligations are normalised"""
        if self.sym:
            lhs = v
            for _ in range(k - 1):
                lhs = lhs * v
            self.ex.assume.append((lhs == expr).z)
            rules = getattr(self.ex, "rules", None)
            if rules is None:
                rules = self.ex.rules = {}
            rules[("v", lift(v).args[0])] = (k, poly.Normalizer()(lift(expr)))
        else:
            if abs(float(v) ** k - float(expr)) > 1e-9:
                raise OutsideDomain()

    def eps_real(self):
        """finiteness is decided with the regularisers at their real value 1e-16 (DESIGN.md 2.2)"""
        if self.sym:
            self.ex.assume.append(z3.Real("EPS") == z3.RealVal("1/10000000000000000"))

    def tag(self, t):
        self.tags.append(t)

    # ---------------------------------------------------------------- obligations
    def deriv(self, name, y, wrt, got, **meta):
        """got == seed * d y / d wrt   (seed defaults to 1)"""
        self.obls.append(Obl("deriv", name, got, (y, wrt), meta))

    def vjp(self, name, ys, seeds, wrt, got, **meta):
        """got == sum_k seeds[k] * d ys[k] / d wrt   (reverse-mode contraction)"""
        meta["seeds"] = list(seeds)
        self.obls.append(Obl("deriv", name, got, (list(ys), wrt), meta))

    def jvp(self, name, y, wrts, tangents, got, **meta):
        """got == sum_k tangents[k] * d y / d wrts[k]   (forward-mode directional derivative)"""
        meta["tangents"] = list(tangents)
        self.obls.append(Obl("jvp", name, got, (y, list(wrts)), meta))

    def equal(self, name, a, b, **meta):
        self.obls.append(Obl("equal", name, a, b, meta))

    def zero(self, name, a, **meta):
        self.obls.append(Obl("equal", name, a, 0, meta))

    def nonneg(self, name, a, **meta):
        """a >= 0 on the whole admissible domain (e.g. a principal minor of a covariance matrix)"""
        self.obls.append(Obl("nonneg", name, a, None, meta))

    def holds(self, name, cond, **meta):
        """a comparison of terms (the SB the code's own `<`, `>` produce) holds on every input of this path; lowered exactly
        like the path condition, so that facts the code itself branched on are found syntactically"""
        self.obls.append(Obl("holds", name, cond, None, meta))

    def finite(self, name, value, **meta):
        """every division, root and logarithm inside the term(s) `value` is defined (non-zero denominator,
        non-negative radicand, positive log argument) on this path  =>  the output is a finite real"""
        self.obls.append(Obl("finite", name, value, None, meta))

    def check(self, name, ok, detail=""):
        """a concrete fact that must hold on every feasible path (types, shapes, registry contents)"""
        self.obls.append(Obl("fact", name, bool(ok), None, {"detail": str(detail)}))

    def attempt(self, name, thunk, expect=None):
        """run thunk(); obligation: it returns (expect=None) or raises `expect`.  Returns (ok, value).
        Only Exception subclasses are caught (path-steering exceptions are not)."""
        try:
            v = thunk()
        except (OutsideDomain, sym.InfeasiblePath, sym.PathLimit):
            raise
        except Exception as e:   # noqa
            good = expect is not None and isinstance(e, expect)
            self.obls.append(Obl("fact", name, good, None,
                                 {"detail": "raised %s: %s" % (type(e).__name__, str(e)[:200])}))
            return False, e
        good = expect is None
        self.obls.append(Obl("fact", name, good, None,
                             {"detail": "returned" if good else "returned instead of raising %s" % getattr(expect, "__name__", " / ".join(getattr(e_, "__name__", str(e_)) for e_ in (expect if isinstance(expect, tuple) else (expect,))))}))
        return True, v


def _fact_methods():
    pass


def _e(x):
    if isinstance(x, np.ndarray):
        x = x.item()
    return lift(x)


def _f(x):
    if isinstance(x, np.ndarray):
        x = x.item()
    return float(x)


def var_of(wrt):
    name, idx = wrt
    return dag.var(name + "".join("_%d" % i for i in idx) if idx != () else name)


# ------------------------------------------------------------------------------------ symbolic engine
class Record(dict):
    pass


def _relaxed(ex, nodes):
    low2 = Lower(relax=True)
    low2.lower_all(list(ex.low.nodes.values()))
    for n in nodes:
        low2(n)
    return low2


def decide(ex, got, want, timeout_ms, extra=()):
    """got, want: DAG nodes.  Poses  assume & path & atom definitions & axioms & got != want.
    returns (verdict, seconds, z3 model or None, nconstraints, trivial, phase)

    phase N: got - want is first rewritten into a canonical polynomial over independent atoms
             (vf.poly); z3 decides `normalised difference != 0` under the path condition;
    phase A: raw lowering with exact atom definitions (short budget);
    phase B: raw lowering, ground irrational constants relaxed to rational enclosures (sound for unsat)."""
    low = ex.low
    pre = list(ex.assume) + ex.path_constraints() + list(extra)
    dt_total = 0.0
    if getattr(ex, "eps_zero", False):
        m0 = {dag.var("EPS"): ZERO}
        memo = {}
        got, want = dag.subst(got, m0, memo), dag.subst(want, m0, memo)
    try:
        D = poly.reduce_poly(poly.normalized_difference(got, want), getattr(ex, "rules", None))
    except (poly.TooBig, NotImplementedError, RecursionError):
        D = None
    if D is not None:
        PL = poly.PolyLower()
        goal = PL.poly(D) != 0
        cons = pre + list(low.side) + PL.side + PL.congruence() + [goal]
        if not D:
            v, dt, m, s = solve(cons, timeout_ms)
            return v, dt, None, len(cons), True, "normalised-identical"
        v, dt, m, s = solve(cons, max(2000, timeout_ms // 4), want_model=True)
        dt_total += dt
        if v != "unknown":
            return v, dt_total, m, len(cons), False, "normalised"
        # rational functions: clear the denominators and expand (equivalent where they are non-zero)
        try:
            D2 = poly.clear_denominators(D)
        except (poly.TooBig, RecursionError):
            D2 = None
        if D2 is not None and D2 is not D:
            PL2 = poly.PolyLower()
            goal2 = PL2.poly(D2) != 0
            cons2 = pre + list(low.side) + PL.side + PL2.side + PL2.congruence() + [goal2]
            v, dt, m, s = solve(cons2, max(2000, timeout_ms // 4), want_model=not D2)
            dt_total += dt
            if v == "unsat":
                return v, dt_total, None, len(cons2), not D2, "normalised-cleared-denominators"
    zg, zw = low(got), low(want)
    goal = zg != zw
    cons = pre + list(low.side) + low.congruence() + [goal]
    tA = max(1000, min(5000, timeout_ms // 4))
    v, dt, m, s = solve(cons, tA, want_model=True)
    dt_total += dt
    if v != "unknown":
        return v, dt_total, m, len(cons), False, "exact"
    low2 = _relaxed(ex, [got, want])
    cons2 = pre + list(low2.side) + low2.congruence() + low2.exp_sum_axioms() + [goal]
    v2, dt2, m2, s2 = solve(cons2, timeout_ms // 2, want_model=True)
    return v2, dt_total + dt2, m2, len(cons2), False, "relaxed"


def nice_model(ex, got, want, names, timeout_ms=2000):
    """greedily push each input of a counterexample into a moderate magnitude range, so that the
    finite-difference replay is well conditioned (never changes a verdict: only chooses among models)"""
    low2 = _relaxed(ex, [got, want])
    base = list(ex.assume) + list(low2.side) + ex.path_constraints() + low2.congruence() \
        + [ex.low(got) != ex.low(want)]
    s = z3.Solver()
    s.set("timeout", timeout_ms)
    s.add(*base)
    if str(s.check()) != "sat":
        return None
    best = s.model()
    t0 = time.time()
    # prefer a counterexample whose two sides are visibly apart (a model with |lhs - rhs| ~ 1e-15 is lost in the float replay)
    d = ex.low(got) - ex.low(want)
    for sep in ("1/16", "1/1024", "1/1048576"):
        c = z3.Or(d >= z3.RealVal(sep), d <= -z3.RealVal(sep))
        s.push()
        s.add(c)
        if str(s.check()) == "sat":
            best = s.model()
            s.pop()
            s.add(c)
            break
        s.pop()
    # only the inputs the two sides depend on are pushed into a moderate range, within a 6 s budget
    try:
        used = dag.variables(got) | dag.variables(want)
        names = [nm for nm in names if nm in used] or names
    except Exception:  # noqa
        pass
    for nm in names:
        if time.time() - t0 > 6:
            break
        v = z3.Real(nm)
        for k in (2, 8, 20, 45):
            lo, hi = z3.RealVal("1/%d" % (2 ** k)), z3.RealVal(str(2 ** k))
            c = z3.Or(z3.And(v >= lo, v <= hi), z3.And(v <= -lo, v >= -hi))
            s.push()
            s.add(c)
            if str(s.check()) == "sat":
                best = s.model()
                s.pop()
                s.add(c)
                break
            s.pop()
        if time.time() - t0 > 20:
            break
    return best


def run_symbolic(h, mods, cfg, timeout_ms=20000, max_paths=64, label=""):
    """explore all paths of harness h; returns dict(records=[...], paths=n, ...)"""
    recs = []
    t_solver = 0.0
    npaths = 0
    nfeas = 0
    nsat_nice = [0]

    ctx = getattr(mods, "_ctx", None)

    def body(ex):
        env = Env("sym", mods, ex=ex)
        env.eps_default = True
        if ctx is not None:
            with ctx:       # deferred imports inside the code under test resolve to the symbolic copies
                h(env, **cfg)
        else:
            h(env, **cfg)
        return env

    for ex, env in explore(body, max_paths=max_paths):
        npaths += 1
        pid = path_id(ex)
        t_solver += ex.solver_time
        nfeas += ex.feas_queries
        names = sorted(env.doms)
        # reachability twin: assumptions + path + atom definitions must be satisfiable
        vr, dtr, _, _ = solve(list(ex.assume) + list(ex.low.side) + ex.path_constraints(), timeout_ms)
        if vr == "unknown":
            low2 = _relaxed(ex, [])
            vr2, dtr2, _, _ = solve(list(ex.assume) + list(low2.side) + ex.path_constraints(), timeout_ms)
            dtr += dtr2
            vr = "sat" if vr2 == "sat" else vr2 if vr2 == "unsat" else "unknown"
        t_solver += dtr
        recs.append(Record(kind="reach", name=label + "/reach", path=pid, verdict=vr, t=dtr))
        for ob in env.obls:
            if ob.kind == "fact":
                rec = Record(kind="fact", name=label + "/" + ob.name, path=pid, verdict="unsat" if ob.got else "sat",
                             t=0.0, size=1, trivial=False, phase="executed-on-feasible-path", detail=ob.meta.get("detail"))
                if not ob.got:
                    # the fact failed for every input on this path: prefer a generic witness (inputs non-zero and pairwise distinct)
                    base_f = list(ex.assume) + list(ex.low.side) + ex.path_constraints()
                    zs = [z3.Real(nm) for nm in names]
                    gen = [zv != 0 for zv in zs] + ([z3.Distinct(*zs)] if len(zs) > 1 else [])
                    vm, dtm, mm, _ = solve(base_f + gen, min(timeout_ms, 5000), want_model=True)
                    if mm is None:
                        vm, dtm, mm, _ = solve(base_f, timeout_ms, want_model=True)
                    mv = model_values(mm, names + ["EPS"]) if mm is not None else {}
                    rec["model"] = {k: str(val) for k, val in mv.items()}
                    rec["model_float"] = {k: float(val) for k, val in mv.items()}
                recs.append(rec)
                continue
            if ob.kind == "holds":
                zc = z3.simplify(ob.got.z) if isinstance(ob.got, sym.SB) else z3.BoolVal(bool(ob.got))    # same canonical form as SB.__bool__ gives the path condition
                cons = list(ex.assume) + list(ex.low.side) + ex.path_constraints() + ex.low.congruence() + [z3.Not(zc)]
                from .lower import solve_linear_first
                v, dt, m, s, ph = solve_linear_first(cons, timeout_ms, want_model=True)
                t_solver += dt
                rec = Record(kind="holds", name=label + "/" + ob.name, path=pid, verdict=v, t=round(dt, 4), size=1, trivial=False, phase=ph)
                if v == "sat":
                    mv = model_values(m, names + ["EPS"])
                    rec["model"] = {k: str(val) for k, val in mv.items()}
                    rec["model_float"] = {k: float(val) for k, val in mv.items()}
                recs.append(rec)
                continue
            if ob.kind == "nonneg":
                g = _e(ob.got)
                if getattr(ex, "eps_zero", False):
                    g = dag.subst(g, {dag.var("EPS"): ZERO})
                P = None
                try:
                    P = poly.reduce_poly(poly.Normalizer()(g), getattr(ex, "rules", None))
                    PL = poly.PolyLower()
                    zg = PL.poly(P)
                    side = PL.side + PL.congruence()
                except (poly.TooBig, NotImplementedError):
                    zg = ex.low(g)
                    side = list(ex.low.side) + ex.low.congruence()
                cons = list(ex.assume) + ex.path_constraints() + list(ex.low.side) + side + [zg < 0]
                v, dt, m, s = solve(cons, timeout_ms if P is None else max(2000, timeout_ms // 4), want_model=True)
                t_solver += dt
                phase = "normalised"
                if v == "unknown" and P is not None:
                    # monomial-box abstraction (sound for unsat): every variable is confined to [-1, 1] by the harness, so each
                    # monomial with positive integer exponents lies in [-1, 1]; replace it by a fresh bounded symbol -> linear query
                    ab = _box_abstraction(P, env)
                    if ab is not None:
                        v2, dt2, _, _ = solve(ab, timeout_ms)
                        t_solver += dt2
                        if v2 == "unsat":
                            v, phase = "unsat", "monomial-box-abstraction"
                rec = Record(kind="nonneg", name=label + "/" + ob.name, path=pid, verdict=v, t=round(dt, 4), size=dag.size(g), trivial=False, phase=phase)
                if v == "sat":
                    mv = model_values(m, names + ["EPS"])
                    rec["model"] = {k: str(val) for k, val in mv.items()}
                    rec["model_float"] = {k: float(val) for k, val in mv.items()}
                recs.append(rec)
                continue
            if ob.kind == "finite":
                for rec in _finite_records(ex, env, ob, label, pid, names, timeout_ms):
                    t_solver += rec["t"]
                    recs.append(rec)
                continue
            if ob.kind == "deriv":
                y, wrt = ob.want
                if isinstance(y, list):
                    want = ZERO
                    xv = var_of(wrt)
                    for yk, sk in zip(y, ob.meta["seeds"]):
                        want = dag.add(want, dag.mul(_e(sk), dag.diff(_e(yk), xv)))
                else:
                    scale = ob.meta.get("seed")
                    want = dag.diff(_e(y), var_of(wrt))
                    if scale is not None:
                        want = dag.mul(_e(scale), want)
                got = _e(ob.got)
            elif ob.kind == "jvp":
                y, wrts = ob.want
                want = ZERO
                for w, tk in zip(wrts, ob.meta["tangents"]):
                    want = dag.add(want, dag.mul(_e(tk), dag.diff(_e(y), var_of(w))))
                got = _e(ob.got)
            else:
                got, want = _e(ob.got), _e(ob.want)
            v, dt, m, ncons, trivial, phase = decide(ex, got, want, timeout_ms)
            t_solver += dt
            rec = Record(kind=ob.kind, name=label + "/" + ob.name, path=pid, verdict=v, t=round(dt, 4),
                         size=dag.size(got) + dag.size(want), trivial=trivial, phase=phase, tags=list(env.tags))
            if v == "sat":
                nsat_nice[0] += 1
                m2 = nice_model(ex, got, want, names) if nsat_nice[0] <= 12 else None   # replays are capped per task anyway
                mv = model_values(m2 if m2 is not None else m, names + ["EPS"])
                rec["model"] = {k: str(val) for k, val in mv.items()}
                rec["model_float"] = {k: float(val) for k, val in mv.items()}
            recs.append(rec)
    return dict(records=recs, paths=npaths, solver_time=t_solver, feas_queries=nfeas)


def _prime_power(p, ex):
    """p ** ex (Fraction exponent) as a Fraction, 40 significant digits"""
    import decimal
    ctx = decimal.Context(prec=45)
    v = ctx.power(decimal.Decimal(p), decimal.Decimal(ex.numerator) / decimal.Decimal(ex.denominator))
    return Fraction(v)


def _box_abstraction(P, env):
    """constraints  sum_m c_m t_m < 0,  -1 <= t_m <= 1  for a polynomial whose variables are all bounded by [-1, 1];
    irrational constant factors (prime powers) are evaluated to 40 digits and monomials with the same variable part merged;
    the evaluation error is covered by a 1e-30 relative slack per term"""
    merged = {}
    slack = Fraction(0)
    for mono, c in P.items():
        coef = Fraction(c)
        vpart = []
        for key, ex in mono:
            if key[0] == "c":
                coef *= _prime_power(key[1], ex)
                continue
            if key == ("v", "PI"):
                coef *= _prime_power("3.14159265358979323846264338327950288419716939937510", ex)
                continue
            if key[0] != "v" or ex.denominator != 1 or ex < 0:
                return None
            d = env.doms.get(key[1])
            if d is None or d[1] is None or d[2] is None or Fraction(d[1]) < -1 or Fraction(d[2]) > 1:
                return None
            vpart.append((key, ex))
        slack += abs(coef) / 10 ** 30
        vp = tuple(vpart)
        merged[vp] = merged.get(vp, 0) + coef
    terms = [z3.RealVal(str(-slack))]
    cons = []
    k = 0
    for vp, coef in merged.items():
        if not vp:
            terms.append(z3.RealVal(str(coef)))
            continue
        t = z3.Real("box!%d" % k)
        k += 1
        cons += [t >= -1, t <= 1]
        terms.append(z3.RealVal(str(coef)) * t)
    return cons + [z3.Sum(terms) < 0]


def _partial_nodes(e, acc, seen):
    stack = [e]
    while stack:
        n = stack.pop()
        if id(n) in seen:
            continue
        seen.add(id(n))
        if n.op in ("inv", "root") or (n.op == "fn" and n.args[0] == "log"):
            acc.append(n)
        for a in n.args:
            if isinstance(a, dag.E):
                stack.append(a)
            elif isinstance(a, tuple):
                stack.extend(b for b in a if isinstance(b, dag.E))


def _contains(e, target, memo):
    k = id(e)
    if k in memo:
        return memo[k]
    if e is target:
        memo[k] = True
        return True
    r = False
    for a in e.args:
        if isinstance(a, dag.E) and _contains(a, target, memo):
            r = True
            break
        if isinstance(a, tuple) and any(isinstance(b, dag.E) and _contains(b, target, memo) for b in a):
            r = True
            break
    memo[k] = r
    return r


def _finite_records(ex, env, ob, label, pid, names, timeout_ms):
    """one SMT query per partial operation in the output term: can its argument leave the domain?"""
    vals = ob.got if isinstance(ob.got, (list, tuple)) else [ob.got]
    nodes, seen = [], set()
    for v in vals:
        for x in np.asarray(v, dtype=object).ravel():
            _partial_nodes(_e(x), nodes, seen)
    out = []
    if not nodes:
        out.append(Record(kind="finite", name=label + "/" + ob.name, path=pid, verdict="unsat", t=0.0, size=1, trivial=True,
                          phase="no-partial-operations"))
        return out
    pre = list(ex.assume) + ex.path_constraints()
    bad_total = None
    t_all = 0.0
    worst = "unsat"
    nq = 0
    model = None
    detail = None
    for n in sorted(nodes, key=lambda q: q.key):
        arg = n.args[0] if n.op != "fn" else n.args[1]
        la = Lower()
        za = la(arg)
        if n.op == "inv":
            bad = za == 0
            what = "division by zero"
        elif n.op == "root":
            if dag.is_nonneg(arg):
                continue
            bad = za < 0
            what = "root of a negative number"
        else:
            bad = za <= 0
            what = "log of a non-positive number"
        # definitions of the atoms used by the path condition, except this node and whatever depends on it
        memo = {}
        side = list(la.side)
        for nid, node in ex.low.nodes.items():
            sc = ex.low.side_of.get(node.key)
            if sc and not _contains(node, n, memo):
                side += sc
        v, dt, m, s = solve(pre + side + [bad], min(timeout_ms, 10000), want_model=True)
        t_all += dt
        nq += 1
        if v == "sat":
            worst = "sat"
            model = m
            detail = "%s: argument %s" % (what, dag.show(arg, 5))
            break
        if v != "unsat" and worst == "unsat":
            worst = v
            detail = "%s undecided: argument %s" % (what, dag.show(arg, 5))
    rec = Record(kind="finite", name=label + "/" + ob.name, path=pid, verdict=worst, t=round(t_all, 4), size=nq, trivial=False,
                 phase="domain-obligations(%d partial operations)" % len(nodes), detail=detail)
    if worst == "sat":
        mv = model_values(model, names + ["EPS"])
        rec["model"] = {k: str(val) for k, val in mv.items()}
        rec["model_float"] = {k: float(val) for k, val in mv.items()}
    out.append(rec)
    return out


# ------------------------------------------------------------------------------------ replay (real mode)
def run_real(h, mods, cfg, values):
    env = Env("real", mods, values=values)
    h(env, **cfg)
    return env


def replay_obligation(h, mods, cfg, values, obl_name, rtol=1e-6):
    """Evaluate obligation `obl_name` of harness h on the real code at the concrete `values`.
    returns dict(confirmed=bool, detail=...)"""
    try:
        env = run_real(h, mods, cfg, values)
    except OutsideDomain:
        return dict(confirmed=False, detail="model outside the admissible domain after float conversion")
    obs = [o for o in env.obls if o.name == obl_name]
    if not obs:
        return dict(confirmed=False, detail="obligation not produced on the concrete path")
    ob = obs[0]
    if ob.kind == "fact":
        return dict(confirmed=not ob.got, detail=ob.meta.get("detail"))
    if ob.kind == "holds":
        return dict(confirmed=not bool(ob.got), detail="condition evaluated to %r on the unmodified code" % bool(ob.got))
    if ob.kind == "nonneg":
        a = _f(ob.got)
        return dict(confirmed=bool(a < -1e-12 * (1 + abs(a))), detail="value on the unmodified code: %r" % a)
    if ob.kind == "finite":
        vals = ob.got if isinstance(ob.got, (list, tuple)) else [ob.got]
        flat = np.concatenate([np.asarray(v, dtype=float).ravel() for v in vals])
        bad = not np.all(np.isfinite(flat))
        return dict(confirmed=bool(bad), detail="outputs on the unmodified code: %r" % (flat.tolist()[:12],))
    if ob.kind == "equal":
        a, b = _f(ob.got), _f(ob.want)
        bad = not (abs(a - b) <= 1e-10 * (1 + abs(a) + abs(b)))
        return dict(confirmed=bool(bad), detail="lhs=%r rhs=%r" % (a, b))
    # derivative: finite differences over a step ladder with Richardson extrapolation
    got = _f(ob.got)
    if ob.kind == "jvp":
        y, wrts = ob.want
        terms = [(w, _f(t)) for w, t in zip(wrts, ob.meta["tangents"])]
        pick = lambda o: [(_f(o.want[0]), 1.0)]
    else:
        y, wrt = ob.want
        terms = [(wrt, 1.0)]
        if isinstance(y, list):
            seeds = [_f(s) for s in ob.meta["seeds"]]
            pick = lambda o: [(_f(yk), sk) for yk, sk in zip(o.want[0], seeds)]
        else:
            seed = _f(ob.meta["seed"]) if ob.meta.get("seed") is not None else 1.0
            pick = lambda o: [(_f(o.want[0]), seed)]

    def yat(nm, xv):
        vals = dict(values)
        vals[nm] = xv
        e2 = run_real(h, mods, cfg, vals)
        o2 = [o for o in e2.obls if o.name == obl_name][0]
        return sum(v * s for v, s in pick(o2))

    def fd_one(nm, x0, hstep):
        """Richardson central difference, falling back to one-sided 3-point formulas at domain edges"""
        for kind in ("central", "forward", "backward"):
            try:
                if kind == "central":
                    f1, f_1, f2, f_2 = yat(nm, x0 + hstep), yat(nm, x0 - hstep), yat(nm, x0 + 2 * hstep), yat(nm, x0 - 2 * hstep)
                    return (8 * (f1 - f_1) - (f2 - f_2)) / (12 * hstep)
                sg = 1.0 if kind == "forward" else -1.0
                f0, f1, f2 = yat(nm, x0), yat(nm, x0 + sg * hstep), yat(nm, x0 + 2 * sg * hstep)
                return sg * (-3 * f0 + 4 * f1 - f2) / (2 * hstep)
            except (OutsideDomain, FloatingPointError, ZeroDivisionError):
                continue
        return None

    ladders = []
    for rel in (1e-2, 1e-3, 1e-4, 1e-5, 1e-6):
        tot = 0.0
        ok = True
        for wrt, coef in terms:
            if coef == 0.0:
                continue
            nm = wrt[0] + "".join("_%d" % i for i in wrt[1]) if wrt[1] != () else wrt[0]
            x0 = float(values[nm])
            hstep = rel * abs(x0) if x0 != 0 else rel * 1e-3
            fd = fd_one(nm, x0, hstep)
            if fd is None:
                ok = False
                break
            tot += coef * fd
        if ok and math.isfinite(tot):
            ladders.append(tot)
    if not math.isfinite(got):
        return dict(confirmed=True, detail="analytic derivative is not finite: %r" % got)
    # the ladder must have converged (two neighbouring step sizes agree) before it is believed
    conv = None
    for a, b in zip(ladders, ladders[1:]):
        if abs(a - b) <= 1e-5 * (abs(a) + abs(b)) + 1e-13 * (1 + abs(got)):
            conv = 0.5 * (a + b)
            break
    if conv is None:
        return dict(confirmed=False, detail="finite-difference ladder did not converge at the model point: %r (analytic %r)" % (ladders, got))
    spread = max(ladders) - min(ladders) if len(ladders) > 1 else abs(conv)
    near = [v for v in ladders if abs(v - conv) <= 1e-4 * (abs(v) + abs(conv)) + 1e-300]
    spread = (max(near) - min(near)) if near else 0.0
    tol = rtol * (abs(got) + abs(conv)) + 10 * spread
    confirmed = abs(conv - got) > tol
    return dict(confirmed=bool(confirmed), detail="analytic=%r finite-difference=%r ladder=%r" % (got, conv, ladders))
