"""numpy stand-in installed as the module global `np` of symbolically loaded modules.

Delegates to numpy; allocation routines produce object arrays of symbolic zeros; a handful of
functions numpy lacks for object dtype are supplied (DESIGN.md 2.1)."""
import math
from fractions import Fraction

import numpy as _np

from . import dag
from .sym import S, SB, lift, sc, PI, SymbolicConcretisation, SArr, as_sarr, cplx_sym
from .dag import ZERO, ONE, const

_INTKINDS = "iub"


def _is_float_dtype(dtype):
    from .sym import _SymDType
    if isinstance(dtype, _SymDType):
        return True
    if dtype is None:
        return True
    try:
        k = _np.dtype(dtype).kind
    except TypeError:
        return False
    return k in "fc"


def _is_cplx(dtype):
    try:
        return _np.dtype(dtype).kind == "c"
    except TypeError:
        return False


def _obj_zeros(shape, val=ZERO):
    a = _np.empty(shape, dtype=object).view(SArr)
    a[...] = S(val)
    return a


def _is_sym_arr(a):
    return isinstance(a, _np.ndarray) and a.dtype == object


def lift_s(x):
    return x if isinstance(x, S) else S(lift(x))


class _Linalg(object):
    def __getattr__(self, k):
        return getattr(_np.linalg, k)

    def norm(self, x, ord=None, axis=None, keepdims=False):
        x = _np.asarray(x)
        if x.dtype != object:
            return _np.linalg.norm(x, ord=ord, axis=axis, keepdims=keepdims)
        if ord not in (None, 2):
            raise NotImplementedError("norm ord")
        s = (x * x).sum(axis=axis, keepdims=keepdims)
        return _np.sqrt(s)

    def solve(self, a, b):
        a = _np.asarray(a)
        b = _np.asarray(b)
        if a.dtype != object and b.dtype != object:
            return _np.linalg.solve(a, b)
        return gauss_solve(a, b)

    def inv(self, a):
        a = _np.asarray(a)
        if a.dtype != object:
            return _np.linalg.inv(a)
        n = a.shape[0]
        eye = _np.empty((n, n), dtype=object)
        for i in range(n):
            for j in range(n):
                eye[i, j] = S(ONE if i == j else ZERO)
        return gauss_solve(a, eye)


def gauss_solve(a, b):
    """exact symbolic Gaussian elimination without pivoting (harness must assume leading minors != 0;
    the inv atoms record that as a domain obligation)."""
    n = a.shape[0]
    A = _np.array(a, dtype=object).copy()
    B = _np.array(b, dtype=object).copy()
    vec = B.ndim == 1
    if vec:
        B = B.reshape(n, 1)
    for k in range(n):
        piv = A[k, k]
        for i in range(k + 1, n):
            f = A[i, k] / piv
            A[i, k:] = A[i, k:] - f * A[k, k:]
            B[i] = B[i] - f * B[k]
    X = _np.empty(B.shape, dtype=object)
    for i in range(n - 1, -1, -1):
        acc = B[i].copy()
        for j in range(i + 1, n):
            acc = acc - A[i, j] * X[j]
        X[i] = acc / A[i, i]
    return X[:, 0] if vec else X


class _NDMeta(type):
    """np.ndarray stand-in: still answers isinstance(x, np.ndarray), but *constructing* a float array gives a
    symbolic object array (np.ndarray(shape, dtype=float64, buffer=buf) is how the plans allocate work arrays)"""

    def __instancecheck__(cls, obj):
        return isinstance(obj, _np.ndarray)

    def __subclasscheck__(cls, sub):
        return issubclass(sub, _np.ndarray)

    def __call__(cls, shape, dtype=float, buffer=None, offset=0, strides=None, order=None):
        if isinstance(shape, int):
            shape = (shape,)
        if _is_float_dtype(dtype) and (buffer is None or (isinstance(buffer, _np.ndarray) and buffer.dtype == object)):
            if buffer is None:
                return _obj_zeros(shape)
            n = int(_np.prod(shape)) if len(shape) else 1
            flat = buffer.reshape(-1)
            if flat.shape[0] < n:
                raise TypeError("buffer is too small for requested array")
            return flat[:n].reshape(shape).view(SArr)
        return _np.ndarray(shape, dtype=dtype, buffer=buffer, offset=offset, strides=strides, order=order)


class _SymNDArray(metaclass=_NDMeta):
    pass


class NPShim(object):
    """behaves like the numpy module"""
    pi = PI
    linalg = _Linalg()
    ndarray = _SymNDArray

    def __init__(self, symbolic_alloc=True):
        self._sym = symbolic_alloc

    def __getattr__(self, k):
        f = getattr(_np, k)
        if callable(f) and not isinstance(f, type) and not isinstance(f, _np.ufunc):
            sym_alloc = self._sym and k in _FLOAT_TO_SYM

            def wrapped(*a, **kw):
                r = f(*a, **kw)
                if isinstance(r, _np.ndarray):
                    if sym_alloc and r.dtype.kind == "f":
                        return float_to_sym(r)
                    return as_sarr(r)
                if isinstance(r, tuple):
                    return tuple(as_sarr(x) for x in r)
                return r
            wrapped.__name__ = k
            return wrapped
        return f

    # ---------------------------------------------------------------- allocation
    def zeros(self, shape, dtype=None, order="C", **kw):
        if self._sym and dtype is not None and _is_cplx(dtype):
            return cplx_sym(shape if not isinstance(shape, int) else (shape,))
        if self._sym and _is_float_dtype(dtype):
            return _obj_zeros(shape)
        return _np.zeros(shape, dtype=dtype, order=order)

    def ones(self, shape, dtype=None, order="C", **kw):
        if self._sym and _is_float_dtype(dtype):
            return _obj_zeros(shape, ONE)
        return _np.ones(shape, dtype=dtype, order=order)

    def empty(self, shape, dtype=None, order="C", **kw):
        return self.zeros(shape, dtype=dtype, order=order)

    def full(self, shape, fill_value, dtype=None, order="C", **kw):
        if self._sym and _is_float_dtype(dtype) and not isinstance(fill_value, (bool, int, _np.integer)):
            a = _np.empty(shape, dtype=object)
            a[...] = fill_value if isinstance(fill_value, S) else S(lift(fill_value))
            return a
        return _np.full(shape, fill_value, dtype=dtype, order=order)

    def _like(self, a, dtype, val):
        a_ = _np.asarray(a)
        if dtype is None:
            if a_.dtype == object or a_.dtype.kind in "fc":
                return _obj_zeros(a_.shape, val) if self._sym else None
            return None
        if self._sym and _is_float_dtype(dtype):
            return _obj_zeros(a_.shape, val)
        return None

    def zeros_like(self, a, dtype=None, **kw):
        r = self._like(a, dtype, ZERO)
        return r if r is not None else _np.zeros_like(a, dtype=dtype)

    def ones_like(self, a, dtype=None, **kw):
        r = self._like(a, dtype, ONE)
        return r if r is not None else _np.ones_like(a, dtype=dtype)

    def empty_like(self, a, dtype=None, **kw):
        return self.zeros_like(a, dtype=dtype)

    def full_like(self, a, fill_value, dtype=None, **kw):
        r = self._like(a, dtype, ZERO)
        if r is None:
            return _np.full_like(a, fill_value, dtype=dtype)
        r[...] = fill_value if isinstance(fill_value, S) else S(lift(fill_value))
        return r

    def identity(self, n, dtype=None):
        return self.eye(n, dtype=dtype)

    def eye(self, n, m=None, k=0, dtype=None, **kw):
        e = _np.eye(n, m, k)
        if self._sym and _is_float_dtype(dtype):
            out = _obj_zeros(e.shape)
            out[e != 0] = S(ONE)
            return out
        return _np.eye(n, m, k, dtype=dtype)

    # ---------------------------------------------------------------- conversion: never force floats
    def _conv(self, f, a, dtype=None, **kw):
        if isinstance(a, _np.ndarray) and a.dtype == object:
            if dtype is not None and not _is_float_dtype(dtype):
                return f(a, dtype=dtype, **kw)
            return as_sarr(f(a, **kw))
        if isinstance(a, S):
            r = _np.empty((), dtype=object)
            r[()] = a
            return r
        if isinstance(a, (list, tuple)) and _contains_sym(a):
            return _np.array(a, dtype=object).view(SArr)
        return f(a, dtype=dtype, **kw)

    def asarray(self, a, dtype=None, order=None, **kw):
        return self._conv(_np.asarray, a, dtype)

    def ascontiguousarray(self, a, dtype=None, **kw):
        return self._conv(_np.ascontiguousarray, a, dtype)

    def asfortranarray(self, a, dtype=None, **kw):
        return self._conv(_np.asfortranarray, a, dtype)

    def array(self, a, dtype=None, copy=True, order=None, ndmin=0, **kw):
        if isinstance(a, _np.ndarray) and a.dtype == object and _is_float_dtype(dtype):
            r = a.copy() if copy else a
        elif isinstance(a, (list, tuple)) and _contains_sym(a) and _is_float_dtype(dtype):
            r = _np.array(a, dtype=object).view(SArr)
        elif isinstance(a, S):
            r = _np.empty((), dtype=object)
            r[()] = a
        else:
            r = _np.array(a, dtype=dtype, copy=copy, ndmin=ndmin)
        return r

    # ---------------------------------------------------------------- predicates numpy lacks for object
    def isnan(self, a):
        a_ = _np.asarray(a)
        if a_.dtype == object:
            return _np.zeros(a_.shape, dtype=bool)
        return _np.isnan(a)

    def isinf(self, a):
        a_ = _np.asarray(a)
        if a_.dtype == object:
            return _np.zeros(a_.shape, dtype=bool)
        return _np.isinf(a)

    def isfinite(self, a):
        a_ = _np.asarray(a)
        if a_.dtype == object:
            return _np.ones(a_.shape, dtype=bool)
        return _np.isfinite(a)

    def sign(self, a):
        a_ = _np.asarray(a)
        if a_.dtype != object:
            return _np.sign(a)
        out = _np.empty(a_.shape, dtype=object)
        for idx in _np.ndindex(*a_.shape):
            v = a_[idx]
            out[idx] = S(ONE) if bool(v > 0) else (S(const(-1)) if bool(v < 0) else S(ZERO))
        return out if out.shape else out[()]

    def divide(self, a, b, out=None, where=True, **kw):
        a_, b_ = _np.asarray(a), _np.asarray(b)
        if a_.dtype != object and b_.dtype != object:
            return _np.divide(a, b, out=out, where=where, **kw)
        a_, b_, w = _np.broadcast_arrays(a_, b_, _np.asarray(where))
        res = _obj_zeros(a_.shape) if out is None else out
        for idx in _np.ndindex(*a_.shape):
            if w[idx]:
                res[idx] = a_[idx] / b_[idx]
        return res

    def power(self, a, b, out=None, where=True, **kw):
        a_, b_ = _np.asarray(a), _np.asarray(b)
        if a_.dtype != object and b_.dtype != object:
            return _np.power(a, b, out=out, where=where, **kw)
        a_, b_, w = _np.broadcast_arrays(a_, b_, _np.asarray(where))
        res = _obj_zeros(a_.shape) if out is None else out
        for idx in _np.ndindex(*a_.shape):
            if w[idx]:
                res[idx] = a_[idx] ** b_[idx]
        return res if res.shape else res[()]

    def exp(self, a, *args, **kw):
        return _un(a, "exp", _np.exp, *args, **kw)

    def log(self, a, *args, **kw):
        return _un(a, "log", _np.log, *args, **kw)

    def sqrt(self, a, *args, **kw):
        return _un(a, "sqrt", _np.sqrt, *args, **kw)

    def tanh(self, a, *args, **kw):
        return _un(a, "tanh", _np.tanh, *args, **kw)

    def arctan(self, a, *args, **kw):
        return _un(a, "arctan", _np.arctan, *args, **kw)

    def cbrt(self, a, *args, **kw):
        return _un(a, "cbrt", _np.cbrt, *args, **kw)

    def sin(self, a, *args, **kw):
        return _un(a, "sin", _np.sin, *args, **kw)

    def cos(self, a, *args, **kw):
        return _un(a, "cos", _np.cos, *args, **kw)

    def abs(self, a, *args, **kw):
        if isinstance(a, S):
            return abs(a)
        return _np.abs(a, *args, **kw)

    absolute = abs

    def allclose(self, a, b, rtol=1e-5, atol=1e-8, **kw):
        a_, b_ = _np.asarray(a), _np.asarray(b)
        if a_.dtype != object and b_.dtype != object:
            return _np.allclose(a, b, rtol=float(rtol), atol=float(atol), **kw)
        # numpy's definition, element by element: |a - b| <= atol + rtol * |b|; every comparison on a symbolic element is a fork of
        # the path explorer (so "close but not equal" inputs are explored like any other region)
        from fractions import Fraction as _Fr
        rt = rtol if isinstance(rtol, (S, _Fr)) else _Fr(repr(float(rtol)))
        at = atol if isinstance(atol, (S, _Fr)) else _Fr(repr(float(atol)))
        a_, b_ = _np.broadcast_arrays(_np.asarray(a, dtype=object), _np.asarray(b, dtype=object))
        for x, y in zip(a_.ravel(), b_.ravel()):
            d = x - y
            if not isinstance(d, S) and not isinstance(y, S):
                if not (abs(d) <= at + rt * abs(y)):
                    return False
                continue
            # one fork per element: |d| <= t with t = atol + rtol |y| >= 0 is d^2 <= t^2; |y| as the root of y^2 (no case split)
            ay = (lift_s(y) * lift_s(y)) ** _Fr(1, 2)
            t = at + rt * ay
            if not (lift_s(d) * lift_s(d) <= t * t):
                return False
        return True

    def argsort(self, a, *args, **kw):
        a_ = _np.asarray(a)
        if a_.dtype == object:
            a_ = _np.array([float(x) for x in a_.ravel()]).reshape(a_.shape)
        return _np.argsort(a_, *args, **kw)

    def ceil(self, a):
        if isinstance(a, S):
            return math.ceil(float(a))
        return _np.ceil(a)

    def floor(self, a):
        if isinstance(a, S):
            return math.floor(float(a))
        return _np.floor(a)

    def round(self, a, decimals=0):
        if isinstance(a, S):
            return round(float(a), decimals)
        return _np.round(a, decimals)


_FLOAT_TO_SYM = {"concatenate", "append", "stack", "hstack", "vstack", "linspace", "cumsum", "cumprod", "diag", "outer", "tile", "repeat"}


def float_to_sym(r):
    """float ndarray -> object array of exact constants (so later in-place updates with symbolic values work)"""
    from .sym import float_to_fraction
    out = _np.empty(r.shape, dtype=object).view(SArr)
    flat = out.reshape(-1)
    for i, v in enumerate(r.reshape(-1)):
        flat[i] = S(const(float_to_fraction(float(v))))
    return out


def _un(a, meth, npf, *args, **kw):
    """unary function on S / python number / arrays.  Ground S constants stay exact."""
    if isinstance(a, S):
        return getattr(a, meth)()
    if isinstance(a, Fraction):
        return getattr(S(const(a)), meth)()
    return npf(a, *args, **kw)


def _contains_sym(a):
    for x in a:
        if isinstance(x, S):
            return True
        if isinstance(x, (list, tuple)) and _contains_sym(x):
            return True
        if isinstance(x, _np.ndarray) and x.dtype == object:
            return True
    return False
