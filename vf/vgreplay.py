"""Replay of an out-of-bounds access found by the IR interpreter.  A plain run of the real C code cannot confirm an
out-of-bounds load/store (it usually corrupts memory silently), so the concrete harness is re-run in a child process under
valgrind memcheck against the freshly compiled libraries; the counterexample counts as reproduced when memcheck reports an
invalid read/write with a frame inside one of those libraries.  (valgrind is used only to *confirm* a solver-found
counterexample, never to decide a property.)"""
import json
import os
import re
import shutil
import subprocess
import sys
import tempfile

VERIF = os.path.dirname(os.path.dirname(os.path.abspath(__file__)))


def confirm(prop_name, tier, task_name, values, timeout=1500):
    from . import replaylibs
    d = replaylibs.build(with_fft=True)
    tdir = tempfile.mkdtemp(prefix="verif_vg_")
    try:
        vf = os.path.join(tdir, "values.json")
        with open(vf, "w") as f:
            json.dump(dict(prop=prop_name, tier=tier, task=task_name, values=values), f)
        env = dict(os.environ)
        env.update(VERIF_LIBDIR=d, OMP_NUM_THREADS="1", OPENBLAS_NUM_THREADS="1", PYTHONMALLOC="malloc", PYTHONDONTWRITEBYTECODE="1",
                   PYTHONPATH=VERIF + os.pathsep + env.get("PYTHONPATH", ""))
        cmd = ["valgrind", "-q", "--num-callers=30", sys.executable, "-m", "vf.vgchild", vf]
        try:
            p = subprocess.run(cmd, stdout=subprocess.PIPE, stderr=subprocess.STDOUT, text=True, env=env, timeout=timeout, cwd=VERIF)
            out = p.stdout
        except subprocess.TimeoutExpired as e:
            return dict(confirmed=False, detail="valgrind replay timed out")
    finally:
        shutil.rmtree(tdir, True)
    blocks = re.split(r"\n==\d+== *\n", out)
    hits = [b for b in blocks if re.search(r"Invalid (read|write)", b) and d in b]
    if hits:
        first = [l.split("== ", 1)[-1].strip() for l in hits[0].splitlines() if "==" in l]
        frames = [l for l in first if d in l][:2]
        return dict(confirmed=True, detail="valgrind memcheck on the unmodified code: %s; %s (%d report(s) inside the freshly built libraries)"
                    % (first[0] if first else "invalid access", " <- ".join(frames), len(hits)))
    ran = "VGCHILD-DONE" in out
    return dict(confirmed=False, detail="valgrind memcheck reported no invalid access inside the libraries (%s)" % ("harness completed" if ran else "harness did not complete: " + out[-300:]))


def confirm_race(prop_name, tier, task_name, values, threads=4, timeout=2400):
    """Confirmation of a footprint conflict on the real, compiled code: the concrete harness runs under valgrind's helgrind with
    OMP_NUM_THREADS > 1.  libgomp's own synchronisation is invisible to helgrind (it reports conflicts *inside* libgomp), so only a
    report whose two conflicting accesses are both inside a freshly built library with an outlined OpenMP body
    (`<fn>._omp_fn.<k>`) of that library on their call chain counts."""
    from . import replaylibs
    d = replaylibs.build(with_fft=True)
    tdir = tempfile.mkdtemp(prefix="verif_hg_")
    try:
        vf = os.path.join(tdir, "values.json")
        with open(vf, "w") as f:
            json.dump(dict(prop=prop_name, tier=tier, task=task_name, values=values), f)
        env = dict(os.environ)
        env.update(VERIF_LIBDIR=d, OMP_NUM_THREADS=str(threads), OPENBLAS_NUM_THREADS="1", PYTHONMALLOC="malloc", PYTHONDONTWRITEBYTECODE="1",
                   PYTHONPATH=VERIF + os.pathsep + env.get("PYTHONPATH", ""))
        cmd = ["valgrind", "--tool=helgrind", "-q", "--num-callers=12", sys.executable, "-m", "vf.vgchild", vf]
        try:
            p = subprocess.run(cmd, stdout=subprocess.PIPE, stderr=subprocess.STDOUT, text=True, env=env, timeout=timeout, cwd=VERIF)
            out = p.stdout
        except subprocess.TimeoutExpired:
            return dict(confirmed=False, detail="helgrind replay timed out")
    finally:
        shutil.rmtree(tdir, True)
    hits = []
    for blk in re.split(r"\n==\d+== -{20,}\n", out):
        if "Possible data race" not in blk or "This conflicts with" not in blk:
            continue
        first, second = blk.split("This conflicts with", 1)
        tops = []
        good = True
        for half in (first, second):
            frames = re.findall(r"==\d+==\s+(?:at|by) 0x[0-9A-Fa-f]+: (\S+) \(([^)]*)\)", half)[:8]
            tops.append(frames[0] if frames else ("?", "?"))
            # the access itself is in the freshly built library (possibly in a helper the loop body calls) and an outlined OpenMP
            # body of that library is on the call chain
            good = good and bool(frames) and d in frames[0][1] and any("_omp_fn" in f and d in l for f, l in frames)
        if good:
            hits.append(tops)
    ran = "VGCHILD-DONE" in out
    if hits:
        return dict(confirmed=True, detail="valgrind helgrind on the unmodified code with OMP_NUM_THREADS=%d: %d conflicting access pair(s) inside outlined OpenMP bodies, e.g. %s vs %s"
                    % (threads, len(hits), hits[0][0][0], hits[0][1][0]))
    return dict(confirmed=False, detail="helgrind reported no conflict between two outlined OpenMP bodies (%s)" % ("harness completed" if ran else "harness did not complete: " + out[-300:]))


def confirm_schedule(prop_name, tier, task_name, values, obligation, threads=(2, 3, 4), reps=40, timeout=900):
    """Confirmation of a schedule-dependent result on the real, compiled code: the concrete harness obligation is evaluated in a
    child process with a real OpenMP team of 2, 3 and 4 threads, up to `reps` times each (the assignment of chunks to threads
    differs from run to run); it counts as reproduced when the obligation fails in at least one run."""
    from . import replaylibs
    d = replaylibs.build(with_fft=True)
    tdir = tempfile.mkdtemp(prefix="verif_sched_")
    tried = []
    try:
        vf = os.path.join(tdir, "values.json")
        with open(vf, "w") as f:
            json.dump(dict(prop=prop_name, tier=tier, task=task_name, values=values, obligation=obligation, reps=reps), f)
        for T in threads:
            env = dict(os.environ)
            env.update(VERIF_LIBDIR=d, OMP_NUM_THREADS=str(T), OMP_DYNAMIC="false", OPENBLAS_NUM_THREADS="1", PYTHONDONTWRITEBYTECODE="1",
                       PYTHONPATH=VERIF + os.pathsep + env.get("PYTHONPATH", ""))
            try:
                p = subprocess.run([sys.executable, "-m", "vf.schedchild", vf], stdout=subprocess.PIPE, stderr=subprocess.STDOUT, text=True, env=env, timeout=timeout, cwd=VERIF)
                out = p.stdout
            except subprocess.TimeoutExpired:
                tried.append("T=%d timed out" % T)
                continue
            m = re.search(r"SCHEDCHILD-CONFIRMED rep=(\d+) (.*)", out)
            if m:
                return dict(confirmed=True, detail="unmodified code, compiled library, OMP_NUM_THREADS=%d, run %s of at most %d: %s" % (T, m.group(1), reps, m.group(2)))
            tried.append("T=%d: %s" % (T, "held in %d runs" % reps if "SCHEDCHILD-DONE" in out and "SCHEDCHILD-EXC" not in out else "child failed: " + out[-200:]))
    finally:
        shutil.rmtree(tdir, True)
    return dict(confirmed=False, detail="not reproduced with a real team: " + "; ".join(tried))
