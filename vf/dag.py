"""Hash-consed exact-real expression DAG with a differentiator (DESIGN.md section 2.1).

Operators
    const(Fraction) | var(name) | add(a, b) | mul(a, b) | inv(a) | root(a, q) |
    fn(name, a)           -- unary transcendental atom: exp, log, tanh, erf, sin, cos, atan, ...
    uf(name, args)        -- uninterpreted differentiable function; d/d arg_i is uf(name + ".d<i>", args)
    ite(cond_id, a, b)    -- only produced by select() in the IR interpreter on symbolic conditions

Keeping our own DAG (rather than z3 terms) is what lets us differentiate: `diff(e, x)` applies the
calculus rules; the *value* routine's own output term is the oracle for the *derivative* routine.
"""
from fractions import Fraction
import math

_CACHE = {}
_POSITIVE = set()      # names of variables declared strictly positive
_NONNEG = set()        # names of variables declared >= 0


class E(object):
    __slots__ = ("op", "args", "key", "partial", "__weakref__")

    def __repr__(self):
        return "E<%s>" % show(self, 3)


def _intern(op, args):
    ids = tuple(
        id(a) if isinstance(a, E) else (tuple(id(b) for b in a) if isinstance(a, tuple) else a)
        for a in args
    )
    k = (op,) + ids
    o = _CACHE.get(k)
    if o is None:
        o = E()
        o.op, o.args, o.key = op, args, len(_CACHE)
        # does the term contain a partial operation whose argument is not syntactically inside its domain?
        p = False
        for a in args:
            if isinstance(a, E):
                p = p or a.partial
            elif isinstance(a, tuple):
                for b in a:
                    if isinstance(b, E) and b.partial:
                        p = True
        o.partial = p
        _CACHE[k] = o
        if not p:
            if op == "inv":
                o.partial = not is_pos(args[0])
            elif op == "root":
                o.partial = not is_nonneg(args[0])
            elif op == "fn" and args[0] == "log":
                o.partial = not is_pos(args[1])
    return o


def const(q):
    return _intern("const", (Fraction(q),))


def var(name, positive=False, nonneg=False):
    if positive:
        _POSITIVE.add(name)
    if nonneg:
        _NONNEG.add(name)
    return _intern("var", (name,))


ZERO, ONE = const(0), const(1)
MONE = const(-1)


def is_const(e):
    return e.op == "const"


def cval(e):
    return e.args[0]


def add(a, b):
    if a.op == "const" and b.op == "const":
        return const(a.args[0] + b.args[0])
    if a is ZERO:
        return b
    if b is ZERO:
        return a
    # canonical argument order makes a+b and b+a the same node
    if a.key > b.key:
        a, b = b, a
    return _intern("add", (a, b))


def mul(a, b):
    if a.op == "const" and b.op == "const":
        return const(a.args[0] * b.args[0])
    if a is ZERO or b is ZERO:
        # 0 * x = 0 over the reals, but 0 * (1/0) is NaN in the code: keep the product when the other factor
        # contains a partial operation so that the domain obligation (C08) is still generated
        if not (a.partial or b.partial):
            return ZERO
        if a.key > b.key:
            a, b = b, a
        return _intern("mul", (a, b))
    if a is ONE:
        return b
    if b is ONE:
        return a
    if a.key > b.key:
        a, b = b, a
    return _intern("mul", (a, b))


def neg(a):
    return mul(MONE, a)


def sub(a, b):
    return add(a, neg(b))


def inv(a):
    if a.op == "const":
        return const(1 / a.args[0])
    if a.op == "inv":
        return a.args[0]
    return _intern("inv", (a,))


def div(a, b):
    return mul(a, inv(b))


def ipow(a, n):
    if n == 0:
        return ONE
    if n < 0:
        return inv(ipow(a, -n))
    r = None
    base = a
    while n:
        if n & 1:
            r = base if r is None else mul(r, base)
        n >>= 1
        if n:
            base = mul(base, base)
    return r


def is_pos(e, depth=12):
    """Conservative: True only if e > 0 follows syntactically from declared-positive variables."""
    op = e.op
    if op == "const":
        return e.args[0] > 0
    if depth == 0:
        return False
    if op == "var":
        return e.args[0] in _POSITIVE
    if op == "mul":
        return is_pos(e.args[0], depth - 1) and is_pos(e.args[1], depth - 1)
    if op == "add":
        a, b = e.args
        return (is_pos(a, depth - 1) and is_nonneg(b, depth - 1)) or (
            is_nonneg(a, depth - 1) and is_pos(b, depth - 1)
        )
    if op == "inv":
        return is_pos(e.args[0], depth - 1)
    if op == "root":
        return is_pos(e.args[0], depth - 1)
    if op == "fn":
        return e.args[0] in ("exp", "cosh")
    return False


def is_nonneg(e, depth=12):
    if is_pos(e, depth):
        return True
    op = e.op
    if op == "const":
        return e.args[0] >= 0
    if depth == 0:
        return False
    if op == "var":
        return e.args[0] in _NONNEG or e.args[0] in _POSITIVE
    if op == "mul":
        a, b = e.args
        if a is b:
            return True
        return is_nonneg(a, depth - 1) and is_nonneg(b, depth - 1)
    if op == "add":
        return is_nonneg(e.args[0], depth - 1) and is_nonneg(e.args[1], depth - 1)
    if op == "root":
        return True
    return False


def _perfect_root(fr, q):
    """exact q-th root of a positive Fraction, or None"""
    def iroot(n):
        r = round(n ** (1.0 / q))
        for c in (r - 1, r, r + 1):
            if c >= 0 and c ** q == n:
                return c
        return None
    a, b = iroot(fr.numerator), iroot(fr.denominator)
    if a is None or b is None:
        return None
    return Fraction(a, b)


def _factor_pos(e, depth=40):
    """e as  coef * prod atom**exponent  with coef a positive Fraction and every atom syntactically
    positive; None if e is not such a product.  Used to distribute roots exactly."""
    if e.op == "const":
        return (e.args[0], {}) if e.args[0] > 0 else None
    if depth == 0:
        return None
    if e.op == "mul":
        a = _factor_pos(e.args[0], depth - 1)
        if a is None:
            return None
        b = _factor_pos(e.args[1], depth - 1)
        if b is None:
            return None
        d = dict(a[1])
        for k, v in b[1].items():
            d[k] = d.get(k, 0) + v
        return a[0] * b[0], d
    if e.op == "inv":
        a = _factor_pos(e.args[0], depth - 1)
        if a is None:
            return None
        return 1 / a[0], {k: -v for k, v in a[1].items()}
    if e.op == "root":
        a = _factor_pos(e.args[0], depth - 1)
        if a is not None and a[0] == 1:
            return Fraction(1), {k: v / e.args[1] for k, v in a[1].items()}
        if is_pos(e.args[0]):
            return Fraction(1), {e.args[0]: Fraction(1, e.args[1])}
        return None
    if is_pos(e):
        return Fraction(1), {e: Fraction(1)}
    return None


def _pow_atom(base, ex):
    """base ** ex for a positive atom and Fraction exponent: integer part as ipow, fractional part as
    a power of ONE root atom root(base, d)."""
    if ex == 0:
        return ONE
    if ex.denominator == 1:
        return ipow(base, ex.numerator)
    # a single root atom carries the whole power: polynomial in root(base, d)
    return ipow(_intern("root", (base, ex.denominator)), ex.numerator)


def root(a, q):
    """a ** (1/q) for a >= 0 (principal real root)."""
    if q == 1:
        return a
    if a.op == "const":
        c = a.args[0]
        if c == 0:
            return ZERO
        if c > 0:
            r = _perfect_root(c, q)
            if r is not None:
                return const(r)
            return _root_const(c, q)
    # distribute exactly over products of syntactically positive factors:
    # (c x^a y^b)^(1/q) = c^(1/q) x^(a/q) y^(b/q).  Makes scaling identities polynomial.
    if a.op in ("mul", "inv", "root"):
        f = _factor_pos(a)
        if f is not None:
            coef, d = f
            out = ONE
            if coef != 1:
                pr = _perfect_root(coef, q)
                out = const(pr) if pr is not None else _root_const(coef, q)
            for base in sorted(d, key=lambda n: n.key):
                out = mul(out, _pow_atom(base, d[base] / q))
            return out
    return _intern("root", (a, q))


def _root_const(c, q):
    """root of a positive rational: pull out perfect q-th powers, keep root(n*d^(q-1), q)/d canonical"""
    n, dn = c.numerator, c.denominator
    # c^(1/q) = (n * dn^(q-1))^(1/q) / dn
    m = n * dn ** (q - 1)
    # extract perfect-power factors of m
    out_int = 1
    p = 2
    mm = m
    while p ** q <= mm and p < 2000:
        while mm % (p ** q) == 0:
            mm //= p ** q
            out_int *= p
        p += 1
    r = _intern("root", (const(mm), q)) if mm != 1 else ONE
    return mul(const(Fraction(out_int, dn)), r)


def rpow(a, fr):
    """a ** Fraction."""
    fr = Fraction(fr)
    if fr.denominator == 1:
        return ipow(a, fr.numerator)
    return ipow(root(a, fr.denominator), fr.numerator)


FN_NAMES = ("exp", "log", "tanh", "erf", "sin", "cos", "atan", "sinh", "cosh", "expm1", "log1p")


def fn(name, a):
    if name == "exp":
        if a is ZERO:
            return ONE
        if a.op == "fn" and a.args[0] == "log":
            return a.args[1]
    if name == "log":
        if a is ONE:
            return ZERO
        if a.op == "fn" and a.args[0] == "exp":
            return a.args[1]
    if name in ("tanh", "erf", "sin", "atan", "sinh") and a is ZERO:
        return ZERO
    if name in ("cos", "cosh") and a is ZERO:
        return ONE
    return _intern("fn", (name, a))


def fexp(a):
    return fn("exp", a)


def flog(a):
    return fn("log", a)


def gpow(base, expo):
    """base ** expo with a (possibly) symbolic exponent: split expo = sym + integer constant so that
    b**p and b**(p-1) share the atom exp(p_sym*log b)   (DESIGN.md 2.1, 'Powers')."""
    if expo.op == "const":
        return rpow(base, expo.args[0])
    k = Fraction(0)
    rest = expo
    # peel a constant summand
    terms = _sum_terms(expo)
    cs = [t for t in terms if t.op == "const"]
    if cs:
        k = sum((t.args[0] for t in cs), Fraction(0))
        rest = ZERO
        for t in terms:
            if t.op != "const":
                rest = add(rest, t)
    if rest is ZERO:
        return rpow(base, k)
    atom = fexp(mul(rest, flog(base)))
    if k == 0:
        return atom
    return mul(atom, rpow(base, k))


def _sum_terms(e):
    if e.op == "add":
        return _sum_terms(e.args[0]) + _sum_terms(e.args[1])
    return [e]


def uf(name, args):
    return _intern("uf", (name, tuple(args)))


def ite(cname, a, b):
    if a is b:
        return a
    return _intern("ite", (cname, a, b))


# ---------------------------------------------------------------------------------- calculus
def diff(e, x, memo=None):
    """d e / d x for a `var` node x."""
    if memo is None:
        memo = {}
    k = id(e)
    if k in memo:
        return memo[k]
    op = e.op
    if op == "const":
        r = ZERO
    elif op == "var":
        r = ONE if e is x else ZERO
    elif op == "add":
        r = add(diff(e.args[0], x, memo), diff(e.args[1], x, memo))
    elif op == "mul":
        a, b = e.args
        r = add(mul(diff(a, x, memo), b), mul(a, diff(b, x, memo)))
    elif op == "inv":
        a = e.args[0]
        da = diff(a, x, memo)
        r = ZERO if da is ZERO else neg(mul(da, mul(e, e)))
    elif op == "root":
        a, q = e.args
        da = diff(a, x, memo)
        r = ZERO if da is ZERO else mul(mul(const(Fraction(1, q)), mul(e, inv(a))), da)
    elif op == "uf":
        name, args = e.args
        r = ZERO
        for i, a in enumerate(args):
            da = diff(a, x, memo)
            if da is not ZERO:
                r = add(r, mul(uf(name + ".d%d" % i, args), da))
    elif op == "fn":
        name, a = e.args
        da = diff(a, x, memo)
        if da is ZERO:
            r = ZERO
        else:
            r = mul(_dfn(name, a, e), da)
    elif op == "ite":
        c, a, b = e.args
        r = ite(c, diff(a, x, memo), diff(b, x, memo))
    else:
        raise NotImplementedError(op)
    memo[k] = r
    return r


PI = var("PI", positive=True)


def _dfn(name, a, e):
    if name == "exp":
        return e
    if name == "log":
        return inv(a)
    if name == "tanh":
        return sub(ONE, mul(e, e))
    if name == "erf":
        # 2/sqrt(pi) exp(-a^2)
        return mul(mul(const(2), inv(root(PI, 2))), fexp(neg(mul(a, a))))
    if name == "sin":
        return fn("cos", a)
    if name == "cos":
        return neg(fn("sin", a))
    if name == "atan":
        return inv(add(ONE, mul(a, a)))
    if name == "sinh":
        return fn("cosh", a)
    if name == "cosh":
        return fn("sinh", a)
    if name == "expm1":
        return add(e, ONE)
    if name == "log1p":
        return inv(add(ONE, a))
    raise NotImplementedError(name)


# ---------------------------------------------------------------------------------- utilities
def variables(e, acc=None, seen=None):
    if acc is None:
        acc, seen = set(), set()
    stack = [e]
    while stack:
        n = stack.pop()
        if id(n) in seen:
            continue
        seen.add(id(n))
        if n.op == "var":
            acc.add(n.args[0])
        for a in n.args:
            if isinstance(a, E):
                stack.append(a)
            elif isinstance(a, tuple):
                stack.extend(b for b in a if isinstance(b, E))
    return acc


def size(e):
    seen = set()
    stack = [e]
    while stack:
        n = stack.pop()
        if id(n) in seen:
            continue
        seen.add(id(n))
        for a in n.args:
            if isinstance(a, E):
                stack.append(a)
            elif isinstance(a, tuple):
                stack.extend(b for b in a if isinstance(b, E))
    return len(seen)


def subst(e, mapping, memo=None):
    """replace var nodes (keys are E var nodes) by expressions"""
    if memo is None:
        memo = {}
    k = id(e)
    if k in memo:
        return memo[k]
    op = e.op
    if op == "const":
        r = e
    elif op == "var":
        r = mapping.get(e, e)
    elif op == "add":
        r = add(subst(e.args[0], mapping, memo), subst(e.args[1], mapping, memo))
    elif op == "mul":
        r = mul(subst(e.args[0], mapping, memo), subst(e.args[1], mapping, memo))
    elif op == "inv":
        r = inv(subst(e.args[0], mapping, memo))
    elif op == "root":
        r = root(subst(e.args[0], mapping, memo), e.args[1])
    elif op == "fn":
        r = fn(e.args[0], subst(e.args[1], mapping, memo))
    elif op == "uf":
        r = uf(e.args[0], tuple(subst(a, mapping, memo) for a in e.args[1]))
    elif op == "ite":
        r = ite(e.args[0], subst(e.args[1], mapping, memo), subst(e.args[2], mapping, memo))
    else:
        raise NotImplementedError(op)
    memo[k] = r
    return r


_NUM_FN = {
    "exp": math.exp, "log": math.log, "tanh": math.tanh, "erf": math.erf, "sin": math.sin,
    "cos": math.cos, "atan": math.atan, "sinh": math.sinh, "cosh": math.cosh,
    "expm1": math.expm1, "log1p": math.log1p,
}

NUM_DEFAULTS = {"PI": math.pi, "EPS": 1e-16}


def numeric(e, env=None, memo=None):
    """float value of a DAG; `env` maps variable names to floats (PI, EPS have defaults).
    Raises TypeError if a free symbolic variable is met (symbolic value used as a number)."""
    if memo is None:
        memo = {}
    k = id(e)
    if k in memo:
        return memo[k]
    op = e.op
    if op == "const":
        r = float(e.args[0])
    elif op == "var":
        nm = e.args[0]
        if env is not None and nm in env:
            r = float(env[nm])
        elif nm in NUM_DEFAULTS:
            r = NUM_DEFAULTS[nm]
        else:
            raise TypeError("symbolic value used as a concrete number: " + nm)
    elif op == "add":
        r = numeric(e.args[0], env, memo) + numeric(e.args[1], env, memo)
    elif op == "mul":
        r = numeric(e.args[0], env, memo) * numeric(e.args[1], env, memo)
    elif op == "inv":
        r = 1.0 / numeric(e.args[0], env, memo)
    elif op == "root":
        r = numeric(e.args[0], env, memo) ** (1.0 / e.args[1])
    elif op == "fn":
        r = _NUM_FN[e.args[0]](numeric(e.args[1], env, memo))
    else:
        raise TypeError("cannot evaluate " + op)
    memo[k] = r
    return r


def is_ground(e):
    """no free variables except PI/EPS"""
    return variables(e) <= set(NUM_DEFAULTS)


def show(e, depth=6):
    op = e.op
    if op == "const":
        return str(e.args[0])
    if op == "var":
        return e.args[0]
    if depth == 0:
        return "..."
    if op == "add":
        return "(%s + %s)" % (show(e.args[0], depth - 1), show(e.args[1], depth - 1))
    if op == "mul":
        return "%s*%s" % (show(e.args[0], depth - 1), show(e.args[1], depth - 1))
    if op == "inv":
        return "1/(%s)" % show(e.args[0], depth - 1)
    if op == "root":
        return "root%d(%s)" % (e.args[1], show(e.args[0], depth - 1))
    if op == "fn":
        return "%s(%s)" % (e.args[0], show(e.args[1], depth - 1))
    if op == "uf":
        return "%s(%s)" % (e.args[0], ",".join(show(a, depth - 1) for a in e.args[1]))
    if op == "ite":
        return "ite(%s,%s,%s)" % (e.args[0], show(e.args[1], depth - 1), show(e.args[2], depth - 1))
    return op
