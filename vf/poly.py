"""Canonical normal form for DAG terms: sums of monomials over atoms with rational exponents.

Purpose (DESIGN.md 2.1 'arguments are canonicalised'): before an obligation `got == want` is handed to
z3, both sides are rewritten into one polynomial over independent symbols so that
  * equal sub-terms share one atom outright (congruence becomes syntactic),
  * fractional powers of positive atoms combine exactly  (x^a x^b = x^(a+b), (c x^a)^(1/q) = c^(1/q) x^(a/q)),
  * rational constants are split into primes so that 2^(2/3), 6^(2/3), (3 pi^2)^(1/3) ... relate exactly.
The rewriting only uses identities valid on the domain where the original term is defined
(positive bases for fractional powers, non-zero denominators); the verdict is still z3's.

Atom keys
  ("v", name)                       variable
  ("c", p)                          prime number p  (always positive)
  ("f", fname, polykey)             transcendental atom fname(arg)
  ("u", name, (polykey, ...))       uninterpreted function
  ("p", polykey)                    a (content-free) multi-term polynomial used as a base of inv/root
  ("i", cname, polykey, polykey)    ite
"""
from fractions import Fraction

import z3

from . import dag

MAX_TERMS = 6000


class TooBig(Exception):
    pass


def _primes(n):
    out = {}
    p = 2
    while p * p <= n:
        while n % p == 0:
            out[p] = out.get(p, 0) + 1
            n //= p
        p += 1 if p == 2 else 2
    if n > 1:
        out[n] = out.get(n, 0) + 1
    return out


def pkey(P):
    return tuple(sorted(P.items()))


def _mono(d):
    return tuple(sorted((k, v) for k, v in d.items() if v != 0))


ONE_M = ()


def const_poly(c):
    c = Fraction(c)
    return {ONE_M: c} if c != 0 else {}


def atom_poly(key, ex=1):
    return {((key, Fraction(ex)),): Fraction(1)}


def is_positive_atom(key):
    t = key[0]
    if t == "v":
        return key[1] in dag._POSITIVE
    if t == "c":
        return True
    if t == "f":
        return key[1] in ("exp", "cosh")
    if t == "p":
        return True     # only ever raised to fractional powers where the original term required P >= 0
    return False


def padd(A, B):
    if len(A) < len(B):
        A, B = B, A
    out = dict(A)
    for m, c in B.items():
        v = out.get(m, 0) + c
        if v == 0:
            out.pop(m, None)
        else:
            out[m] = v
    return out


def pscale(A, c):
    if c == 0:
        return {}
    return {m: v * c for m, v in A.items()}


def mmul(m1, m2):
    if not m1:
        return m2
    if not m2:
        return m1
    d = dict(m1)
    for k, v in m2:
        d[k] = d.get(k, 0) + v
    return _mono(d)


def canon(m, c):
    """fold integer parts of prime-atom exponents into the coefficient: 2^(5/3) -> 2 * 2^(2/3)"""
    need = False
    for k, v in m:
        if k[0] == "c" and (v >= 1 or v < 0):
            need = True
            break
    if not need:
        return m, c
    out = []
    for k, v in m:
        if k[0] == "c":
            n = v.numerator // v.denominator
            fr = v - n
            if n:
                c = c * Fraction(k[1]) ** n
            if fr:
                out.append((k, fr))
        else:
            out.append((k, v))
    return tuple(out), c


def canon_poly(P):
    out = {}
    for m, c in P.items():
        m2, c2 = canon(m, c)
        v = out.get(m2, 0) + c2
        if v == 0:
            out.pop(m2, None)
        else:
            out[m2] = v
    return out


def pmul(A, B):
    if not A or not B:
        return {}
    if len(A) * len(B) > MAX_TERMS * 4:
        raise TooBig()
    out = {}
    for m1, c1 in A.items():
        for m2, c2 in B.items():
            m, cc = canon(mmul(m1, m2), c1 * c2)
            v = out.get(m, 0) + cc
            if v == 0:
                out.pop(m, None)
            else:
                out[m] = v
    if len(out) > MAX_TERMS:
        raise TooBig()
    return out


def _const_root_mono(c, ex):
    """positive Fraction c raised to Fraction ex, as (coef, monomial over prime atoms)"""
    d = {}
    for p, k in _primes(c.numerator).items():
        d[("c", p)] = d.get(("c", p), 0) + k * ex
    for p, k in _primes(c.denominator).items():
        d[("c", p)] = d.get(("c", p), 0) - k * ex
    coef = Fraction(1)
    out = {}
    for a, e in d.items():
        n = e.numerator // e.denominator
        fr = e - n
        coef *= Fraction(a[1]) ** n
        if fr:
            out[a] = fr
    return coef, _mono(out)


def _content(P):
    """P = c * m * P'  with c = |leading coef| > 0, m = gcd monomial over positive atoms, P' content-free"""
    items = sorted(P.items())
    c = abs(items[0][1])
    # monomial gcd over positive atoms
    common = None
    for m, _ in items:
        d = {k: v for k, v in m if is_positive_atom(k)}
        if common is None:
            common = d
        else:
            common = {k: min(v, d[k]) for k, v in common.items() if k in d}
    common = {k: v for k, v in (common or {}).items() if v != 0}
    mc = _mono(common)
    inv_mc = tuple((k, -v) for k, v in mc)
    Pp = canon_poly({mmul(m, inv_mc): v / c for m, v in P.items()})
    return c, mc, Pp


def mono_pow(m, ex):
    return tuple((k, v * ex) for k, v in m)


def ppow_frac(P, ex):
    """P ** ex for Fraction ex (P >= 0 on the domain when ex is not an integer; P != 0 when ex < 0)"""
    if ex == 0:
        return const_poly(1)
    if not P:
        return {}
    if ex.denominator == 1 and ex > 0:
        n = ex.numerator
        R = const_poly(1)
        base = P
        while n:
            if n & 1:
                R = pmul(R, base)
            n >>= 1
            if n:
                base = pmul(base, base)
        return R
    if len(P) == 1:
        (m, c), = P.items()
        allpos = all(is_positive_atom(k) for k, _ in m)
        if ex.denominator == 1:
            # negative integer power of a monomial
            return canon_poly({mono_pow(m, ex): Fraction(c) ** ex.numerator})
        if c > 0 and allpos:
            cc, cm = _const_root_mono(c, ex)
            return canon_poly({mmul(cm, mono_pow(m, ex)): cc})
    c, mc, Pp = _content(P)
    cc, cm = _const_root_mono(c, ex)
    if len(Pp) == 1 and list(Pp.values())[0] == 1 and not list(Pp.keys())[0]:
        base = ()
    else:
        base = ((("p", pkey(Pp)), ex),)
    return canon_poly({mmul(mmul(cm, mono_pow(mc, ex)), base): cc})


class Normalizer(object):
    def __init__(self):
        self.memo = {}

    def __call__(self, e):
        k = id(e)
        r = self.memo.get(k)
        if r is not None:
            return r
        stack = [(e, False)]
        memo = self.memo
        while stack:
            n, done = stack.pop()
            if id(n) in memo:
                continue
            if not done:
                stack.append((n, True))
                for a in n.args:
                    if isinstance(a, dag.E):
                        if id(a) not in memo:
                            stack.append((a, False))
                    elif isinstance(a, tuple):
                        for b in a:
                            if isinstance(b, dag.E) and id(b) not in memo:
                                stack.append((b, False))
                continue
            memo[id(n)] = self._one(n)
        return memo[k]

    def _one(self, e):
        op = e.op
        m = self.memo
        if op == "const":
            return const_poly(e.args[0])
        if op == "var":
            return atom_poly(("v", e.args[0]))
        if op == "add":
            return padd(m[id(e.args[0])], m[id(e.args[1])])
        if op == "mul":
            return pmul(m[id(e.args[0])], m[id(e.args[1])])
        if op == "inv":
            return ppow_frac(m[id(e.args[0])], Fraction(-1))
        if op == "root":
            return ppow_frac(m[id(e.args[0])], Fraction(1, e.args[1]))
        if op == "fn":
            name = e.args[0]
            A = m[id(e.args[1])]
            return self._fn(name, A)
        if op == "uf":
            name, args = e.args
            return atom_poly(("u", name, tuple(pkey(m[id(a)]) for a in args)))
        if op == "ite":
            return atom_poly(("i", e.args[0], pkey(m[id(e.args[1])]), pkey(m[id(e.args[2])])))
        raise NotImplementedError(op)

    def _fn(self, name, A):
        if name == "exp":
            if not A:
                return const_poly(1)
            # exp(sum c_k m_k) = prod exp(m_k)^(c_k) : one positive atom per monomial of the argument
            out = const_poly(1)
            for mono, c in sorted(A.items()):
                if not mono:
                    # exp(constant): keep as atom of the constant 1 raised to c
                    out = pmul(out, atom_poly(("f", "exp", pkey(const_poly(1))), c))
                    continue
                lg = self._as_log(mono)
                if lg is not None:
                    # exp(c * log(x)) = x^c
                    out = pmul(out, ppow_frac(lg, c) if True else {})
                    continue
                out = pmul(out, atom_poly(("f", "exp", pkey({mono: Fraction(1)})), c))
            return out
        if name == "log":
            if len(A) == 1:
                (mono, c), = A.items()
                if c > 0 and all(is_positive_atom(k) for k, _ in mono):
                    # log(c prod x^a) = log c + sum a log x
                    out = {}
                    if c != 1:
                        for p, k in _primes(c.numerator).items():
                            out = padd(out, pscale(atom_poly(("f", "log", pkey(atom_poly(("c", p))))), k))
                        for p, k in _primes(c.denominator).items():
                            out = padd(out, pscale(atom_poly(("f", "log", pkey(atom_poly(("c", p))))), -k))
                    for k, v in mono:
                        if k[0] == "f" and k[1] == "exp":
                            out = padd(out, pscale(dict(k[2]), v))
                        else:
                            out = padd(out, pscale(atom_poly(("f", "log", pkey(atom_poly(k)))), v))
                    return out
            return atom_poly(("f", "log", pkey(A)))
        if not A and name in ("tanh", "erf", "sin", "atan", "sinh", "expm1", "log1p"):
            return {}
        if not A and name in ("cos", "cosh"):
            return const_poly(1)
        return atom_poly(("f", name, pkey(A)))

    @staticmethod
    def _as_log(mono):
        """if the monomial is exactly one log atom to the first power, return the polynomial inside the log"""
        if len(mono) == 1 and mono[0][1] == 1 and mono[0][0][0] == "f" and mono[0][0][1] == "log":
            return dict(mono[0][0][2])
        return None


# ------------------------------------------------------------------------------------ lowering to z3
class PolyLower(object):
    """polynomial over atoms -> z3 Real term + defining constraints of the symbols it introduces"""

    def __init__(self):
        self.side = []
        self.atom_val = {}      # atom key -> z3 term for atom**1
        self.frac_sym = {}      # (atom key, d) -> z3 symbol for atom**(1/d)
        self.n = 0
        self.fn_atoms = []      # (name, z3 arg, z3 result) for congruence / monotonicity axioms

    def _fresh(self, prefix):
        self.n += 1
        return z3.Real("%s!%d" % (prefix, self.n))

    def poly(self, P):
        if isinstance(P, tuple):
            P = dict(P)
        if not P:
            return z3.RealVal(0)
        terms = []
        for mono, c in sorted(P.items()):
            t = z3.RealVal(str(c))
            for k, ex in mono:
                t = t * self.power(k, ex)
            terms.append(t)
        return z3.Sum(terms) if len(terms) > 1 else terms[0]

    def atom(self, key):
        v = self.atom_val.get(key)
        if v is not None:
            return v
        t = key[0]
        if t == "v":
            v = z3.Real(key[1])
            if key[1] in dag._POSITIVE:
                self.side.append(v > 0)
            elif key[1] in dag._NONNEG:
                self.side.append(v >= 0)
            if key[1] == "PI":
                self.side += [v > z3.RealVal("3.14159265358979"), v < z3.RealVal("3.14159265358980")]
        elif t == "c":
            v = z3.RealVal(key[1])
        elif t == "p":
            v = self.poly(key[1])
        elif t == "f":
            a = self.poly(key[2])
            v = self._fresh(key[1])
            name = key[1]
            if name == "exp":
                self.side += [v > 0, z3.Implies(a <= 0, v <= 1), z3.Implies(a >= 0, v >= 1),
                              z3.Implies(a > 0, v > 1), z3.Implies(a < 0, v < 1), v >= 1 + a]
            elif name == "log":
                self.side += [z3.Implies(a >= 1, v >= 0), z3.Implies(a <= 1, v <= 0),
                              z3.Implies(a > 1, v > 0), z3.Implies(a < 1, v < 0), v <= a - 1]
            elif name in ("tanh", "erf"):
                self.side += [v > -1, v < 1, z3.Implies(a >= 0, v >= 0), z3.Implies(a <= 0, v <= 0)]
            elif name in ("sin", "cos"):
                self.side += [v >= -1, v <= 1]
            elif name == "cosh":
                self.side += [v >= 1]
            self.fn_atoms.append((name, a, v))
        elif t == "u":
            args = tuple(self.poly(a) for a in key[2])
            v = self._fresh("uf_" + key[1].replace(".", "_"))
            self.fn_atoms.append(("uf:" + key[1], args, v))
        elif t == "i":
            v = z3.If(z3.Bool(key[1]), self.poly(key[2]), self.poly(key[3]))
        else:
            raise NotImplementedError(key)
        self.atom_val[key] = v
        return v

    def power(self, key, ex):
        ex = Fraction(ex)
        if ex.denominator == 1:
            base = self.atom(key)
            n = ex.numerator
        else:
            d = ex.denominator
            s = self.frac_sym.get((key, d))
            if s is None:
                base1 = self.atom(key)
                s = self._fresh("rt%d" % d)
                p = s
                for _ in range(d - 1):
                    p = p * s
                self.side += [s >= 0, p == base1]
                if key[0] == "c":
                    gv = float(key[1]) ** (1.0 / d)
                    self.side += [s >= z3.RealVal(str(Fraction(gv * (1 - 1e-13)))), s <= z3.RealVal(str(Fraction(gv * (1 + 1e-13))))]
                # relate to other roots of the same atom: (x^(1/d1)) and (x^(1/d2)) through x
                self.frac_sym[(key, d)] = s
            base = s
            n = ex.numerator
        if n == 0:
            return z3.RealVal(1)
        p = base
        for _ in range(abs(n) - 1):
            p = p * base
        if n < 0:
            self.side.append(base != 0)
            return 1 / p
        return p

    def congruence(self, max_pairs=3000):
        out = []
        by = {}
        for a in self.fn_atoms:
            by.setdefault(a[0], []).append(a)
        n = 0
        for kind, lst in by.items():
            mono = kind in ("exp", "log", "tanh", "erf", "atan", "sinh", "expm1", "log1p")
            for i in range(len(lst)):
                for j in range(i + 1, len(lst)):
                    if n >= max_pairs:
                        return out
                    n += 1
                    a1, a2 = lst[i], lst[j]
                    if kind.startswith("uf:"):
                        eq = z3.And(*[x == y for x, y in zip(a1[1], a2[1])]) if a1[1] else z3.BoolVal(True)
                        out.append(z3.Implies(eq, a1[2] == a2[2]))
                    else:
                        out.append(z3.Implies(a1[1] == a2[1], a1[2] == a2[2]))
                        if mono:
                            out.append(z3.Implies(a1[1] < a2[1], a1[2] < a2[2]))
        return out


def clear_denominators(D, max_rounds=12):
    """Multiply the polynomial D by the polynomial bases of its inverse atoms (integer negative powers of
    ("p", P) atoms) and expand, repeatedly: D != 0  <=>  result != 0 wherever those denominators are
    non-zero (which the atom definitions already require).  Raises TooBig."""
    for _ in range(max_rounds):
        worst = {}
        frac = set()
        for mono in D:
            for k, ex in mono:
                if k[0] == "p":
                    if ex.denominator != 1:
                        frac.add(k)
                    elif ex < 0:
                        worst[k] = max(worst.get(k, 0), -ex.numerator)
        worst = {k: v for k, v in worst.items() if k not in frac}
        if not worst:
            return D
        # pick the atom that does not occur inside another candidate's polynomial first (outermost)
        k = sorted(worst, key=lambda a: -len(str(a)))[0]
        e = worst[k]
        base = dict(k[1])
        out = {}
        for mono, c in D.items():
            rest = tuple((a, x) for a, x in mono if a != k)
            ex = dict(mono).get(k, Fraction(0)) + e
            term = {rest: c}
            if ex > 0:
                term = pmul(term, ppow_frac(base, Fraction(ex)))
            out = padd(out, term)
        D = out
        if len(D) > MAX_TERMS:
            raise TooBig()
    return D


def reduce_poly(P, rules, max_rounds=64):
    """apply equational rules  atom**k == R  (R a polynomial not containing atom to a power >= k) until no monomial contains
    atom to a power >= k.  rules: {atom key: (k, R)}"""
    if not rules:
        return P
    for _ in range(max_rounds):
        changed = False
        out = {}
        for mono, c in P.items():
            hit = None
            for key, ex in mono:
                r = rules.get(key)
                if r is not None and ex.denominator == 1 and ex >= r[0]:
                    hit = (key, ex, r)
                    break
            if hit is None:
                v = out.get(mono, 0) + c
                if v == 0:
                    out.pop(mono, None)
                else:
                    out[mono] = v
                continue
            changed = True
            key, ex, (k, R) = hit
            rest = tuple((a, e) for a, e in mono if a != key)
            rem = ex - k
            base = {(rest + (((key, rem),) if rem else ())): c}
            base = {_mono(dict(m)): cc for m, cc in base.items()}
            out = padd(out, pmul(base, R))
        P = out
        if not changed:
            return P
        if len(P) > MAX_TERMS:
            raise TooBig()
    return P


def normalized_difference(got, want):
    """canonical polynomial of got - want (raises TooBig)"""
    N = Normalizer()
    return padd(N(got), pscale(N(want), -1))
