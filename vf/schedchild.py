"""child of vf.vgreplay.confirm_schedule: evaluate one obligation of one harness on the real, compiled code with a real OpenMP team
(OMP_NUM_THREADS set by the parent), repeatedly, because which thread takes which chunk differs from run to run"""
import importlib
import json
import sys


def main():
    spec = json.load(open(sys.argv[1]))
    prop = importlib.import_module("vf.props.%s" % spec["prop"].lower())
    t = [x for x in prop.tasks(spec["tier"]) if x.name == spec["task"]][0]
    from . import harness
    mods = prop.real_mods_for(t) if hasattr(prop, "real_mods_for") else prop.real_mods(t.real_mods)
    for rep in range(int(spec["reps"])):
        try:
            rp = harness.replay_obligation(t.fn, mods, t.cfg, spec["values"], spec["obligation"])
        except Exception as e:  # noqa
            print("SCHEDCHILD-EXC", type(e).__name__, e)
            break
        if rp.get("confirmed"):
            print("SCHEDCHILD-CONFIRMED rep=%d %s" % (rep, rp.get("detail")))
            break
    print("SCHEDCHILD-DONE")


if __name__ == "__main__":
    main()
