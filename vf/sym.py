"""E1 'symreal': symbolic scalar for numpy object arrays, path explorer, numpy shim (DESIGN.md 2.1)."""
import math
import time
from fractions import Fraction

import numpy as np
import z3

from . import dag
from .dag import E, ZERO, ONE, const, var, add, sub, mul, neg, inv, div, rpow, root, fn, gpow
from .lower import Lower, solve


class PathLimit(Exception):
    pass


class SymbolicConcretisation(TypeError):
    """a symbolic value was used where the code needs a concrete number (int(), float(), index)"""


# ------------------------------------------------------------------------------------ explorer
class Explorer(object):
    """One execution along a decision prefix.  `decide` is called from SB.__bool__."""

    def __init__(self, prefix, assume, lower, timeout_ms=5000):
        self.prefix = list(prefix)
        self.trace = []          # (z3 cond, decision)
        self.work = []           # alternative prefixes discovered on this run
        self.low = lower
        self.assume = assume     # list of z3 constraints (admissible domain)
        self.timeout_ms = timeout_ms
        self.solver_time = 0.0
        self.feas_queries = 0
        self.notes = []

    def path_constraints(self):
        return [c if d else z3.Not(c) for c, d in self.trace]

    def decide(self, cond):
        i = len(self.trace)
        if i < len(self.prefix):
            d = self.prefix[i]
        else:
            base = list(self.assume) + list(self.low.side) + self.path_constraints()
            t0 = time.time()
            vt = solve(base + [cond], self.timeout_ms)[0]
            vf = solve(base + [z3.Not(cond)], self.timeout_ms)[0]
            self.solver_time += time.time() - t0
            self.feas_queries += 2
            t_ok, f_ok = vt != "unsat", vf != "unsat"
            if vt == "unknown" or vf == "unknown":
                self.notes.append("feasibility unknown at decision %d" % i)
            if t_ok and f_ok:
                self.work.append([dd for _, dd in self.trace] + [False])
                d = True
            elif t_ok or f_ok:
                d = t_ok
            else:
                # the path itself became infeasible (atom side constraints added later): stop it
                raise InfeasiblePath()
        self.trace.append((cond, d))
        return d


class InfeasiblePath(Exception):
    pass


EXP = None   # the active Explorer (module global; single-threaded per process)


def current():
    if EXP is None:
        raise RuntimeError("no active explorer")
    return EXP


class SB(object):
    """symbolic boolean (z3 formula)"""
    __slots__ = ("z",)

    def __init__(self, z):
        self.z = z

    def __bool__(self):
        z = z3.simplify(self.z)
        if z3.is_true(z):
            return True
        if z3.is_false(z):
            return False
        return current().decide(z)

    def __and__(s, o):
        return SB(z3.And(s.z, _zb(o)))

    __rand__ = __and__

    def __or__(s, o):
        return SB(z3.Or(s.z, _zb(o)))

    __ror__ = __or__

    def __invert__(s):
        return SB(z3.Not(s.z))

    def __repr__(self):
        return "SB<%s>" % self.z


def _zb(o):
    if isinstance(o, SB):
        return o.z
    return z3.BoolVal(bool(o))


class _NI(Exception):
    pass


def _ni(f):
    def g(*a):
        try:
            return f(*a)
        except _NI:
            return NotImplemented
    g.__name__ = f.__name__
    return g


def lift(x):
    """python/numpy number or S -> DAG node"""
    if isinstance(x, S):
        return x.e
    if isinstance(x, E):
        return x
    if isinstance(x, np.ndarray):
        if x.ndim == 0:
            return lift(x.item())
        raise _NI()
    if isinstance(x, (bool, np.bool_)):
        return const(int(x))
    if isinstance(x, (int, np.integer)):
        return const(int(x))
    if isinstance(x, Fraction):
        return const(x)
    if isinstance(x, (float, np.floating)):
        return const(float_to_fraction(float(x)))
    if isinstance(x, (list, tuple, dict, str, type(None))):
        raise _NI()
    raise TypeError("cannot lift %r" % type(x))


def float_to_fraction(x):
    """exact value of the double unless a short decimal round-trips (0.1 -> 1/10): literals that
    reach us as floats (defaults, class constants) are meant as the decimal that was written."""
    if x != x or x in (float("inf"), float("-inf")):
        raise SymbolicConcretisation("non-finite float constant %r" % x)
    f = Fraction(x)
    if f.denominator == 1:
        return f
    g = Fraction(repr(x))
    if float(g) == x:
        return g
    return f


class S(object):
    """symbolic exact real scalar; lives inside numpy object arrays.  Must not define
    __array_priority__ and must return NotImplemented for ndarray operands (numpy then broadcasts)."""
    __slots__ = ("e",)

    def __init__(self, e):
        self.e = e

    # arithmetic
    @_ni
    def __add__(s, o):
        return S(add(s.e, lift(o)))

    __radd__ = __add__

    @_ni
    def __sub__(s, o):
        return S(sub(s.e, lift(o)))

    @_ni
    def __rsub__(s, o):
        return S(sub(lift(o), s.e))

    @_ni
    def __mul__(s, o):
        return S(mul(s.e, lift(o)))

    __rmul__ = __mul__

    @_ni
    def __truediv__(s, o):
        return S(div(s.e, lift(o)))

    @_ni
    def __rtruediv__(s, o):
        return S(div(lift(o), s.e))

    def __neg__(s):
        return S(neg(s.e))

    def __pos__(s):
        return s

    def __abs__(s):
        if dag.is_nonneg(s.e):
            return s
        return s if bool(s >= 0) else -s

    @_ni
    def __pow__(s, o):
        return S(gpow(s.e, lift(o)))

    @_ni
    def __rpow__(s, o):
        return S(gpow(lift(o), s.e))

    # comparisons
    def _cmp(s, o, f):
        a, b = s.e, lift(o)
        if a.op == "const" and b.op == "const":
            return SB(z3.BoolVal(bool(f(a.args[0], b.args[0]))))
        low = current().low
        return SB(f(low(a), low(b)))

    @_ni
    def __lt__(s, o):
        return s._cmp(o, lambda a, b: a < b)

    @_ni
    def __le__(s, o):
        return s._cmp(o, lambda a, b: a <= b)

    @_ni
    def __gt__(s, o):
        return s._cmp(o, lambda a, b: a > b)

    @_ni
    def __ge__(s, o):
        return s._cmp(o, lambda a, b: a >= b)

    @_ni
    def __eq__(s, o):
        if isinstance(o, (str, type(None))):
            return False
        return s._cmp(o, lambda a, b: a == b)

    @_ni
    def __ne__(s, o):
        if isinstance(o, (str, type(None))):
            return True
        return s._cmp(o, lambda a, b: a != b)

    def __hash__(s):
        # consistent with python numbers for constants (S(1.5) is a valid dict key equal to 1.5)
        if s.e.op == "const":
            return hash(s.e.args[0])
        return id(s.e)

    def __bool__(s):
        return bool(s != 0)

    # numpy ufunc method protocol for object arrays
    def sqrt(s):
        return S(rpow(s.e, Fraction(1, 2)))

    def cbrt(s):
        return S(rpow(s.e, Fraction(1, 3)))

    def exp(s):
        return S(fn("exp", s.e))

    def log(s):
        return S(fn("log", s.e))

    def tanh(s):
        return S(fn("tanh", s.e))

    def sin(s):
        return S(fn("sin", s.e))

    def cos(s):
        return S(fn("cos", s.e))

    def arctan(s):
        return S(fn("atan", s.e))

    def sinh(s):
        return S(fn("sinh", s.e))

    def cosh(s):
        return S(fn("cosh", s.e))

    def expm1(s):
        return S(fn("expm1", s.e))

    def log1p(s):
        return S(fn("log1p", s.e))

    def conjugate(s):
        return s

    conj = conjugate

    def square(s):
        return S(mul(s.e, s.e))

    @property
    def real(s):
        return s

    @property
    def imag(s):
        return S(ZERO)

    # concretisation (only for ground terms: constants built from literals and PI)
    def __float__(s):
        try:
            return dag.numeric(s.e)
        except TypeError as e:
            raise SymbolicConcretisation(str(e))

    def __int__(s):
        return int(float(s))

    def __index__(s):
        f = float(s)
        if f != int(f):
            raise SymbolicConcretisation("non-integer index")
        return int(f)

    def __round__(s, n=None):
        return round(float(s), n)

    def __repr__(s):
        return "S<%s>" % dag.show(s.e, 4)

    def __format__(s, spec):
        try:
            return format(float(s), spec)
        except SymbolicConcretisation:
            return repr(s)


class ArrHandle(object):
    """what `arr.ctypes.data_as(...)` yields for a symbolic array: the FFI bridge (vf.llsym.bridge) resolves it
    back to the array instead of a raw address"""

    def __init__(self, arr):
        self.arr = arr


class _CT(object):
    def __init__(self, arr):
        self._arr = arr

    def data_as(self, t):
        return ArrHandle(self._arr)

    @property
    def data(self):
        return ArrHandle(self._arr)


class _SymDType(object):
    """what SArr.dtype reports: the array stands for a float64 array (the code under analysis asserts `x.dtype == np.float64`) but is
    stored as objects, so it compares equal to both"""
    kind = "O"
    itemsize = 8
    name = "float64"
    char = "d"
    _EQ = None

    def __eq__(self, other):
        if isinstance(other, _SymDType):
            return True
        try:
            return np.dtype(other) in (np.dtype(object), np.dtype(np.float64))
        except TypeError:
            return False

    def __ne__(self, other):
        return not self.__eq__(other)

    def __hash__(self):
        return hash("symdtype")

    def __repr__(self):
        return "dtype('float64' as symbolic objects)"


SYM_DTYPE = _SymDType()


class SArr(np.ndarray):
    """object ndarray whose .astype(float) does not force concretisation"""


    @property
    def ctypes(self):
        if self.dtype == object:
            return _CT(self)
        return np.ndarray.ctypes.__get__(self)

    def astype(self, dtype, *a, **k):
        if isinstance(dtype, _SymDType):
            return self.copy()
        try:
            kind = np.dtype(dtype).kind
        except TypeError:
            kind = "O"
        if self.dtype == object and kind in "fc":
            return self.copy()
        return np.ndarray.astype(self, dtype, *a, **k)


class CplxSym(SArr):
    """symbolic stand-in for a complex128 ndarray: `ri` is the interleaved (re, im) flat buffer that C code sees"""

    def __array_finalize__(self, obj):
        self.ri = getattr(obj, "ri", None)

    @property
    def ctypes(self):
        return _CT(self.ri)


def cplx_sym(shape, ri=None):
    a = np.empty(shape, dtype=object).view(CplxSym)
    a[...] = S(ZERO)
    n = int(np.prod(shape)) if len(shape) else 1
    if ri is None:
        ri = np.empty((2 * n,), dtype=object).view(SArr)
        ri[...] = S(ZERO)
    a.ri = ri
    return a


def as_sarr(a):
    if isinstance(a, np.ndarray) and a.dtype == object and not isinstance(a, SArr):
        return a.view(SArr)
    return a


def sv(name, positive=False, nonneg=False):
    return S(var(name, positive=positive, nonneg=nonneg))


def sc(q):
    return S(const(q))


PI = S(dag.PI)
EPS = S(var("EPS", nonneg=True))


def sarr(name, shape, positive=False, nonneg=False):
    """object array of fresh symbolic variables name_i_j..."""
    a = np.empty(shape, dtype=object).view(SArr)
    if shape == ():
        a[()] = sv(name, positive, nonneg)
        return a
    for idx in np.ndindex(*shape):
        a[idx] = sv(name + "".join("_%d" % i for i in idx), positive, nonneg)
    return a


def szeros(shape):
    a = np.empty(shape, dtype=object).view(SArr)
    a[...] = S(ZERO)
    return a


def elems(a):
    return [lift(x) for x in np.asarray(a, dtype=object).ravel()]


def to_e(x):
    """S / number -> DAG node (raises for arrays)"""
    if isinstance(x, np.ndarray):
        return lift(x.item())
    return lift(x)


# ------------------------------------------------------------------------------------ exploration
def explore(fn_, assume_fn=None, max_paths=64, timeout_ms=5000, lower=None):
    """Run fn_(explorer) on every feasible decision sequence.  Yields (explorer, result).
    `assume_fn(lower)` returns the admissibility constraints (z3) - evaluated once per path *before*
    the code runs (assumptions are not retroactive)."""
    global EXP
    work = [[]]
    n = 0
    while work:
        pre = work.pop()
        low = lower if lower is not None else Lower()
        ex = Explorer(pre, [], low, timeout_ms)
        if assume_fn is not None:
            ex.assume = list(assume_fn(low))
        EXP = ex
        try:
            try:
                res = fn_(ex)
            except InfeasiblePath:
                work.extend(ex.work)
                continue
        finally:
            EXP = None
        work.extend(ex.work)
        n += 1
        yield ex, res
        if n >= max_paths and work:
            raise PathLimit("more than %d paths" % max_paths)


def path_id(ex):
    return "".join("T" if d else "F" for _, d in ex.trace)
